#!/bin/sh
# usage: run_mutant.sh <patch.diff> <property> [tier]   -- applies the patch to /repo, runs the check, restores /repo
P="$1"; C="$2"; T="${3:-quick}"
git -C /repo apply "$P" || { echo "patch does not apply"; exit 3; }
VERIF_EVIDENCE_DIR=/tmp/verif-mutant-evidence VERIF_REPLAY_DIR=/tmp/verif-mutant-replays /verif/check "$C" --tier "$T" > /tmp/mutant.out 2>&1
RC=$?
git -C /repo checkout -- .
echo "exit=$RC"; grep -c "^VIOLATION" /tmp/mutant.out; grep -v "^VIOLATION" /tmp/mutant.out | tail -5; grep "^VIOLATION" /tmp/mutant.out | head -3
