"""Router programs (C08 dispatch, C09 calling convention): configuration -> pyteal.Router through the
public API -> approval / clear-state TEAL; dispatch specification as reference outcomes; selectors
computed independently (SHA-512/256 of the signature text)."""
from typing import Any, Dict, List, Optional, Tuple

import z3

from .avm.ctx import CtxConfig
from .avm.engine import Engine, HarnessError, Outcome
from .avm.sym import Bounds, SymAVM
from .avm.values import Bs, U
from .common import from_json, to_json
from .teal.parse import TealSyntaxError, blocking_complaints, check_program, parse
from . import tv

OCS = ["no_op", "opt_in", "close_out", "clear_state", "update_application", "delete_application"]
OC_NUM = {"no_op": 0, "opt_in": 1, "close_out": 2, "clear_state": 3, "update_application": 4, "delete_application": 5}
NEVER, CALL, CREATE, ALL = 0, 1, 2, 3
ARG0 = "g0.ApplicationArgs[0]"
PYTEAL_ERRORS = ("TealInputError", "TealCompileError", "TealTypeError", "TealInternalError", "TealPragmaError", "TealSeqError")


def selector(sig: str) -> bytes:
    from Cryptodome.Hash import SHA512
    h = SHA512.new(truncate="256")
    h.update(sig.encode("utf-8"))
    return h.digest()[:4]


def build_router(cfg: Dict[str, Any]):
    """configuration -> pyteal.Router (handlers log a distinct tag)"""
    import pyteal as pt
    from .recipe.build import reset_pyteal_state
    reset_pyteal_state()
    cc = {0: pt.CallConfig.NEVER, 1: pt.CallConfig.CALL, 2: pt.CallConfig.CREATE, 3: pt.CallConfig.ALL}
    bare_kw = {}
    for ocn, d in (cfg.get("bare") or {}).items():
        tag = pt.Log(pt.Bytes("B_" + ocn))
        kind = d.get("kind", "expr-approve")
        if kind == "expr-approve":
            act = pt.Seq(tag, pt.Approve())
        elif kind == "expr-none":
            act = tag
        elif kind == "expr-chain":
            # an If / ElseIf chain without Else whose arms all leave the program: control can still fall out of it
            # (fee 0: tagged approve, fee 1: reject, otherwise the router's own Approve)
            act = pt.If(pt.Txn.fee() == pt.Int(0)).Then(pt.Seq(tag, pt.Approve())).ElseIf(pt.Txn.fee() == pt.Int(1)).Then(pt.Reject())
        elif kind == "sub":
            def mk(ocn=ocn):
                def bare_sub():
                    return pt.Log(pt.Bytes("B_" + ocn))
                bare_sub.__name__ = "bare_" + ocn
                return pt.Subroutine(pt.TealType.none)(bare_sub)
            act = mk()
        else:
            raise HarnessError("bare kind %r" % kind)
        bare_kw[ocn] = pt.OnCompleteAction(action=act, call_config=cc[d["cc"]])
    clear = None
    ck = cfg.get("clear")
    if ck == "expr":
        clear = pt.Seq(pt.Log(pt.Bytes("CLEAR")), pt.Approve())
    elif ck == "expr-reject":
        clear = pt.Seq(pt.Log(pt.Bytes("CLEAR")), pt.Reject())
    elif ck == "chain":
        clear = pt.If(pt.Txn.fee() == pt.Int(0)).Then(pt.Seq(pt.Log(pt.Bytes("CLEAR")), pt.Approve())).ElseIf(pt.Txn.fee() == pt.Int(1)).Then(pt.Reject())
    elif ck == "sub":
        def clear_sub():
            return pt.Log(pt.Bytes("CLEAR"))
        clear = pt.Subroutine(pt.TealType.none)(clear_sub)
    elif ck == "abi":
        def clear_abi():
            return pt.Log(pt.Bytes("CLEAR"))
        clear_abi.__annotations__ = {"return": pt.Expr}
        clear = pt.ABIReturnSubroutine(clear_abi)
    r = pt.Router(cfg.get("name", "app"), pt.BareCallActions(**bare_kw) if bare_kw else None, clear_state=clear)
    for i, m in enumerate(cfg.get("methods", [])):
        def mk(i=i, m=m):
            def handler():
                return pt.Log(pt.Bytes("M_%d" % i))
            handler.__name__ = m["name"]
            handler.__annotations__ = {"return": pt.Expr}
            return pt.ABIReturnSubroutine(handler)
        if m.get("via") == "decorator-default":
            def handler_fn0():
                return pt.Log(pt.Bytes("M_%d" % _i))
            handler_fn0 = _bind(handler_fn0, i)
            handler_fn0.__name__ = m["name"]
            handler_fn0.__annotations__ = {"return": pt.Expr}
            r.method(handler_fn0)
        elif m.get("via") == "decorator":
            # @router.method(<only the keywords that are not NEVER>): unspecified OnCompletions mean NEVER
            # (and no keyword at all means no_op=CALL)
            def handler_fn():
                return pt.Log(pt.Bytes("M_%d" % _i))
            handler_fn = _bind(handler_fn, i)
            handler_fn.__name__ = m["name"]
            handler_fn.__annotations__ = {"return": pt.Expr}
            r.method(**{k: cc[v] for k, v in m["config"].items() if v != NEVER})(handler_fn)
        else:
            mc = pt.MethodConfig(**{k: cc[v] for k, v in m["config"].items()})
            r.add_method_handler(mk(), method_config=mc)
    return r


def _bind(fn, i):
    """a copy of the parameterless function fn whose global `_i` is i (a subroutine must not have default arguments)"""
    import types
    g = dict(fn.__globals__)
    g["_i"] = i
    return types.FunctionType(fn.__code__, g, fn.__name__, None, fn.__closure__)


def compile_router(cfg, version, optimize=None, assemble=False):
    import pyteal as pt
    from .recipe.build import reset_pyteal_state
    try:
        r = build_router(cfg)
        kw = {}
        if optimize is not None:
            kw["optimize"] = pt.OptimizeOptions(**optimize)
        ap, cl, contract = r.compile_program(version=version, assemble_constants=assemble, **kw)
        return (ap, cl, contract.dictify()), "ok", ""
    except Exception as e:  # noqa
        name = type(e).__name__
        return None, ("rejected" if name in PYTEAL_ERRORS else "crash"), "%s: %s" % (name, str(e)[:200])
    finally:
        reset_pyteal_state()


def allowed(cc: int, created: bool) -> bool:
    return cc == ALL or (cc == CREATE and created) or (cc == CALL and not created)


def approval_spec(cfg, arg0_lens=(0, 3, 4, 5)) -> List[Outcome]:
    """the dispatch table as reference outcomes over NumAppArgs, arg0, OnCompletion, ApplicationID"""
    na = z3.BitVec("g0.NumAppArgs", 64)
    oc = z3.BitVec("g0.OnCompletion", 64)
    aid = z3.BitVec("g0.ApplicationID", 64)
    pre = [z3.ULE(na, z3.BitVecVal(16, 64)), z3.ULE(oc, z3.BitVecVal(5, 64)), oc != z3.BitVecVal(3, 64)]
    refs: List[Outcome] = []
    methods = cfg.get("methods", [])
    sels = [selector("%s()void" % m["name"]) for m in methods]
    created_cases = [(True, aid == z3.BitVecVal(0, 64)), (False, aid != z3.BitVecVal(0, 64))]

    fee = z3.BitVec("g0.Fee", 64)

    def add(pc, ok, tag, shape, kind=None):
        if ok and kind == "expr-chain":
            refs.append(Outcome(pre + pc + [fee == z3.BitVecVal(0, 64)], "return", ret=U(1), effects=[("log", Bs(list(tag)))], shape=dict(shape)))
            refs.append(Outcome(pre + pc + [fee == z3.BitVecVal(1, 64)], "fail", kind="handler rejects", shape=dict(shape)))
            refs.append(Outcome(pre + pc + [z3.UGT(fee, z3.BitVecVal(1, 64))], "return", ret=U(1), effects=[], shape=dict(shape)))
        elif ok:
            refs.append(Outcome(pre + pc, "return", ret=U(1), effects=[("log", Bs(list(tag)))], shape=dict(shape)))
        else:
            refs.append(Outcome(pre + pc, "fail", kind="not allowed", shape=dict(shape)))

    bare = cfg.get("bare") or {}
    for ocn in OCS:
        if ocn == "clear_state":
            continue
        k = OC_NUM[ocn]
        for created, ccond in created_cases:
            d = bare.get(ocn)
            ok = d is not None and allowed(d["cc"], created)
            add([na == z3.BitVecVal(0, 64), oc == z3.BitVecVal(k, 64), ccond], ok, b"B_" + ocn.encode(), {"GroupIndex": 0}, (d or {}).get("kind"))
    for L in arg0_lens:
        shape = {"GroupIndex": 0, "len:" + ARG0: L}
        a0 = [z3.BitVec("%s#%d" % (ARG0, j), 8) for j in range(L)]
        has = [z3.UGE(na, z3.BitVecVal(1, 64))]
        if L != 4:
            refs.append(Outcome(pre + has, "fail", kind="no selector of this length", shape=dict(shape)))
            continue
        eqs = []
        for s in sels:
            eqs.append(z3.And(*[a0[j] == z3.BitVecVal(s[j], 8) for j in range(4)]))
        for i, m in enumerate(methods):
            first = [eqs[i]] + [z3.Not(eqs[j]) for j in range(i)]
            for ocn in OCS:
                if ocn == "clear_state":
                    continue
                k = OC_NUM[ocn]
                for created, ccond in created_cases:
                    ok = allowed(m["config"].get(ocn, NEVER), created)
                    add(has + first + [oc == z3.BitVecVal(k, 64), ccond], ok, b"M_%d" % i, shape)
        refs.append(Outcome(pre + has + [z3.Not(e) for e in eqs], "fail", kind="unknown selector", shape=dict(shape)))
    return refs


def clear_spec(cfg) -> List[Outcome]:
    ck = cfg.get("clear")
    if ck in ("expr", "sub", "abi"):
        return [Outcome([], "return", ret=U(1), effects=[("log", Bs(list(b"CLEAR")))], shape={"GroupIndex": 0})]
    if ck == "chain":
        fee = z3.BitVec("g0.Fee", 64)
        return [Outcome([fee == z3.BitVecVal(0, 64)], "return", ret=U(1), effects=[("log", Bs(list(b"CLEAR")))], shape={"GroupIndex": 0}),
                Outcome([fee == z3.BitVecVal(1, 64)], "fail", kind="rejected", shape={"GroupIndex": 0}),
                Outcome([z3.UGT(fee, z3.BitVecVal(1, 64))], "return", ret=U(1), effects=[], shape={"GroupIndex": 0})]
    return [Outcome([], "fail", kind="rejected", shape={"GroupIndex": 0})]


def concrete_dispatch(cfg, conc) -> Outcome:
    """the same table evaluated on a concrete call (replay oracle)"""
    na = int(conc.get("g0.NumAppArgs", 0))
    oc = int(conc.get("g0.OnCompletion", 0))
    created = int(conc.get("g0.ApplicationID", 0)) == 0
    ocn = OCS[oc]
    fail = Outcome([], "fail", kind="expected")
    if na == 0:
        d = (cfg.get("bare") or {}).get(ocn)
        if d is not None and allowed(d["cc"], created):
            if d.get("kind") == "expr-chain":
                f = int(conc.get("g0.Fee", 0))
                if f == 1:
                    return fail
                return Outcome([], "return", ret=U(1), effects=[("log", Bs(list(b"B_" + ocn.encode())))] if f == 0 else [])
            return Outcome([], "return", ret=U(1), effects=[("log", Bs(list(b"B_" + ocn.encode())))])
        return fail
    a0 = conc.get(ARG0, b"")
    for i, m in enumerate(cfg.get("methods", [])):
        if a0 == selector("%s()void" % m["name"]):
            if allowed(m["config"].get(ocn, NEVER), created):
                return Outcome([], "return", ret=U(1), effects=[("log", Bs(list(b"M_%d" % i)))])
            return fail
    return fail


def reject_is_failure(o: Outcome) -> Outcome:
    """for dispatch purposes a call that returns 0 is rejected exactly like one that fails (no effects survive)"""
    if o.verdict == "return" and isinstance(o.ret, U) and o.ret.concrete and o.ret.e == 0:
        return Outcome(o.pc, "fail", kind="reject", effects=[], extra=o.extra, shape=o.shape, decisions=o.decisions)
    return o


def router_job(job: Dict[str, Any]) -> Dict[str, Any]:
    cfg = from_json(job["cfg"])
    cfg = _detuple(cfg)
    out = {"id": job["id"], "family": job.get("family"), "version": job["version"], "status": "ok", "violations": [], "complaints": [],
           "obligations": 0, "discharged": 0, "inconclusive": 0, "ref_paths": 0, "teal_paths": 0, "ref_cut": 0, "nonfail": 0, "replayed": 0, "unconfirmed": 0}
    res, st, detail = compile_router(cfg, job["version"], job.get("optimize"), job.get("assemble", False))
    out["status"], out["detail"] = st, detail
    if st != "ok":
        if job.get("expect_ok"):
            raise HarnessError("a router that must compile was rejected: %s" % detail)
        return out
    ap, cl, contract = res
    # contract lists exactly the registered methods
    names = [m["name"] for m in contract.get("methods", [])]
    want = [m["name"] for m in cfg.get("methods", [])]
    base = {"cfg": to_json(cfg), "version": job["version"], "job": job}
    if names != want:
        out["violations"].append(dict(base, kind="contract", detail="contract methods %r, registered %r" % (names, want)))
    for which, teal, spec in (("approval", ap, approval_spec(cfg)), ("clear", cl, clear_spec(cfg))):
        try:
            prog = parse(teal)
        except TealSyntaxError as e:
            out["complaints"].append("unparsable %s: %s" % (which, e))
            continue
        cs = blocking_complaints(prog, "A")
        if cs:
            out["complaints"] += cs
            out["teal"] = teal
            continue
        wcfg = CtxConfig(mode="A", version=job["version"], default_lens=(0, 3, 4, 5))
        eng = Engine(timeout_ms=job.get("timeout_ms", 20000), max_paths=4000)
        raw_runner = tv.teal_runner_for(prog, wcfg, eng, Bounds(loop_k=2, call_depth=6))

        def runner(assumptions, shape, raw_runner=raw_runner):
            return [reject_is_failure(o) for o in raw_runner(assumptions, shape)]
        r = tv.check_against(spec, runner, eng, want_sample=job.get("want_sample", False) and which == "approval")
        for f in ("obligations", "discharged", "inconclusive", "ref_paths", "teal_paths", "ref_cut"):
            out[f] += getattr(r, f)
        out["nonfail"] += r.nonfail_paths
        if r.sample_query:
            out["sample_query"] = r.sample_query
        st_ = eng.stats.as_dict()
        out.setdefault("stats", {k: 0 for k in st_})
        for k, v in st_.items():
            out["stats"][k] += v
        for cand in r.candidates:
            conc = tv.concretize(cand["model"], cand["shape"])
            res2, st2, _ = compile_router(cfg, job["version"], job.get("optimize"), job.get("assemble", False))
            if st2 != "ok":
                out.setdefault("harness", []).append("recompilation failed")
                continue
            teal2 = res2[0] if which == "approval" else res2[1]
            prog2 = parse(teal2)
            p = reject_is_failure(tv.run_concrete(lambda c: SymAVM(prog2, c, Bounds(loop_k=300, call_depth=64, max_steps=200000)).run, wcfg, conc))
            q = concrete_dispatch(cfg, conc) if which == "approval" else _concrete_clear(cfg, conc)
            out["replayed"] += 1
            if tv.outcomes_differ_concretely(p, q):
                if len(out["violations"]) < 3:
                    out["violations"].append(dict(base, kind="dispatch:" + which, input=tv.jsonable_conc(conc), teal_outcome=tv.describe_outcome(p),
                                                  reference_outcome=tv.describe_outcome(q), teal=teal2[-3000:]))
            else:
                out["unconfirmed"] += 1
        if job.get("keep_teal") and which == "approval":
            out["teal"] = teal
    return out


def _concrete_clear(cfg, conc=None) -> Outcome:
    spec = clear_spec(cfg)
    o = spec[0]
    if cfg.get("clear") == "chain":
        f = int((conc or {}).get("g0.Fee", 0))
        o = spec[0] if f == 0 else (spec[1] if f == 1 else spec[2])
    return Outcome([], o.verdict, ret=o.ret, effects=o.effects)


def _detuple(x):
    if isinstance(x, tuple):
        return [_detuple(y) for y in x]
    if isinstance(x, list):
        return [_detuple(y) for y in x]
    if isinstance(x, dict):
        return {k: _detuple(v) for k, v in x.items()}
    return x
