"""TEAL-vs-TEAL equivalence job: the same recipe (or two recipes that differ only in annotations)
compiled under two settings; SymAVM runs side A, then side B in lock-step under each A path's
condition and shape; one SMT obligation per path pair (C03, C12, C18)."""
from typing import Any, Dict, List, Optional

import z3

from .avm.engine import Engine, HarnessError, Outcome
from .avm.sym import Bounds, SymAVM
from .avm.values import Bs, Ob, U, b_or
from .common import from_json, to_json
from .teal.parse import TealSyntaxError, blocking_complaints, check_program, parse
from . import tv, tvjob


def compile_side(rec, side: Dict[str, Any]):
    return tvjob.try_compile(rec, side["version"], side.get("optimize"), side.get("assemble", False))


def _values_differ_list(xs, ys):
    if len(xs) != len(ys):
        return True
    return b_or(*[tv.value_differ(x, y) for x, y in zip(xs, ys)])


def make_extra_cmp(compare: List[str], user_slots: List[int]):
    def cmp(p: Outcome, q: Outcome):
        ds = []
        if "exits" in compare:
            ex, ey = p.extra.get("exits", []), q.extra.get("exits", [])
            if len(ex) != len(ey):
                return True
            for a, b in zip(ex, ey):
                if a[0] != b[0]:
                    return True
                if a[0] == "call":
                    continue    # heights at a call include the caller's spilled slots, which legitimately differ
                else:
                    ds.append(_values_differ_list(a[2], b[2]))
        if "userslots" in compare:
            sx, sy = p.extra.get("scratch", {}), q.extra.get("scratch", {})
            for k in user_slots:
                ds.append(tv.value_differ(sx.get(k, U(0)), sy.get(k, U(0))))
        if "constloads" in compare:
            cx, cy = p.extra.get("const_loads", []), q.extra.get("const_loads", [])
            if len(cx) != len(cy):
                return True
            for a, b in zip(cx, cy):
                ds.append(tv.value_differ(a[2], b[2]))
        return b_or(*ds)
    return cmp


def user_slots_of(rec) -> List[int]:
    return sorted({d["slot"] for d in rec.get("vars", {}).values() if d.get("slot") is not None})


def _vm_kwargs(compare):
    return {"record_exits": "exits" in compare, "record_const_loads": "constloads" in compare}


def confirm(recA, recB, job, cfg, conc, extra_cmp):
    ta, st, d = compile_side(recA, job["A"])
    tb, st2, d2 = compile_side(recB, job["B"])
    if st != "ok" or st2 != "ok":
        raise HarnessError("recompilation for replay failed: %s %s" % (d, d2))
    big = Bounds(loop_k=300, call_depth=64, max_steps=200000)
    kw = _vm_kwargs(job.get("compare", []))
    pa, pb = parse(ta), parse(tb)
    p = tv.run_concrete(lambda c: SymAVM(pa, c, big, **kw).run, cfg, conc)
    q = tv.run_concrete(lambda c: SymAVM(pb, c, big, **kw).run, cfg, conc)
    if p.verdict == "cut" or q.verdict == "cut":
        return (None if p.verdict == q.verdict else True), p, q, ta, tb
    return tv.outcomes_differ_concretely(q, p, extra_cmp), p, q, ta, tb


def diff_job(job: Dict[str, Any]) -> Dict[str, Any]:
    recA = from_json(job["rec"])
    recB = from_json(job["recB"]) if job.get("recB") is not None else recA
    mode = recA.get("mode", job.get("mode", "A"))
    recA.setdefault("mode", mode)
    recB.setdefault("mode", mode)
    job = dict(job)
    job["mode"] = mode
    job["version"] = job["A"]["version"]
    out: Dict[str, Any] = {"id": job.get("id"), "family": job.get("family"), "version": job["version"], "status": "ok",
                           "violations": [], "complaints": [], "discipline": []}
    ta, st, detail = compile_side(recA, job["A"])
    tb, st2, detail2 = compile_side(recB, job["B"])
    if st != "ok" or st2 != "ok":
        # one side rejected: not a behavioural difference (acceptance is C20/C04 business) unless asymmetric crash
        out["status"] = "rejected" if "crash" not in (st, st2) else "crash"
        out["detail"] = "A:%s %s | B:%s %s" % (st, detail, st2, detail2)
        out["asymmetric"] = (st == "ok") != (st2 == "ok")
        return out
    try:
        pa, pb = parse(ta), parse(tb)
    except TealSyntaxError as e:
        out["complaints"] = ["unparsable: %s" % e]
        return out
    out["complaints"] = blocking_complaints(pa, mode) + blocking_complaints(pb, mode)
    if out["complaints"]:
        out["teal"] = ta + "\n=====\n" + tb
        return out
    out["teal_lines"] = len(pa.instrs) + len(pb.instrs)
    out["identical_text"] = ta == tb
    if job.get("stream_compare"):
        from .checks.c18 import stream_difference
        np_ = job.get("nonce_prefix")
        if isinstance(np_, dict):
            np_ = bytes.fromhex(np_["hex"])
        sd = stream_difference(pa, pb, np_)
        if sd:
            out["stream_difference"] = sd
    cfg = tvjob.make_cfg(job)
    eng = Engine(timeout_ms=job.get("timeout_ms", 10000), max_paths=job.get("max_paths", 3000))
    k, d = job.get("loop_k", 3), job.get("call_depth", 4)
    compare = job.get("compare", [])
    kw = _vm_kwargs(compare)
    extra_cmp = make_extra_cmp(compare, user_slots_of(recA))
    refs = eng.explore(SymAVM(pa, cfg, Bounds(loop_k=k, call_depth=d), **kw).run)
    runner = tv.teal_runner_for(pb, cfg, eng, Bounds(loop_k=2 * k + 2, call_depth=d + 2), **kw)
    res = tv.check_against(refs, runner, eng, extra_cmp=extra_cmp, want_sample=job.get("want_sample", False))
    out.update({"obligations": res.obligations, "discharged": res.discharged, "inconclusive": res.inconclusive,
                "ref_paths": res.ref_paths, "teal_paths": res.teal_paths, "ref_cut": res.ref_cut,
                "nonfail": res.nonfail_paths, "stats": eng.stats.as_dict(), "sample_query": res.sample_query,
                "replayed": 0, "unconfirmed": 0})
    seen = set()
    for cand in res.candidates:
        conc = tv.concretize(cand["model"], cand["shape"])
        try:
            differs, p, q, ta2, tb2 = confirm(recA, recB, job, cfg, conc, extra_cmp)
        except HarnessError as e:
            out.setdefault("harness", []).append(str(e))
            continue
        out["replayed"] += 1
        if differs:
            if len(out["violations"]) >= 2:
                continue
            out["violations"].append({
                "kind": "diff", "recipe": to_json(recA), "recipeB": to_json(recB) if recB is not recA else None,
                "A": job["A"], "B": job["B"], "mode": mode, "version": job["version"],
                "input": tv.jsonable_conc(conc), "teal_outcome": tv.describe_outcome(q), "reference_outcome": tv.describe_outcome(p),
                "exits_A": _describe_exits(p), "exits_B": _describe_exits(q),
                "teal": "== A ==\n" + ta2 + "\n== B ==\n" + tb2, "job": {k2: v for k2, v in job.items() if k2 not in ("rec", "recB")}})
        else:
            out["unconfirmed"] += 1
    if job.get("keep_teal"):
        out["teal"] = "== A ==\n" + ta + "\n== B ==\n" + tb
    return out


def _describe_exits(o: Outcome):
    res = []
    for e in o.extra.get("exits", [])[:20]:
        if e[0] == "call":
            res.append(["call", e[1], e[2]])
        else:
            res.append([e[0], e[1] if isinstance(e[1], (str, int)) else "", [tv.describe_value(v) for v in e[2]]])
    return res


def replay_file(record) -> bool:
    recA = from_json(record["recipe"])
    recB = from_json(record["recipeB"]) if record.get("recipeB") else recA
    job = dict(record.get("job", {}))
    job.update({"A": record["A"], "B": record["B"], "mode": record.get("mode", "A"), "version": record["A"]["version"]})
    cfg = tvjob.make_cfg(job)
    conc = tv.conc_from_json(record["input"])
    extra_cmp = make_extra_cmp(job.get("compare", []), user_slots_of(recA))
    differs, p, q, ta, tb = confirm(recA, recB, job, cfg, conc, extra_cmp)
    print("side A outcome:", tv.describe_outcome(p), _describe_exits(p))
    print("side B outcome:", tv.describe_outcome(q), _describe_exits(q))
    return bool(differs)
