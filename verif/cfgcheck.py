"""Static stack/type discipline of an emitted TEAL program as an SMT constraint system (C05, and
the path-termination clause of C04): all syntactic paths at once, loops unbounded.

Phase 1 (z3, linear integer arithmetic): unknown height h_i before every instruction (relative
to its routine's entry) and (A_f, R_f) per subroutine; one equation per CFG edge, lower bounds
for what an instruction reads, exit conditions at retsub/return.  UNSAT -> the unsat core names
the instructions involved.
Phase 2 (z3, Booleans): with the heights of the phase-1 model, one type variable per live stack
cell and per used scratch slot at every instruction; constraints from the independent langspec
(operand/result types, field types), equal types across joins.  UNSAT -> core.
Structural findings (branch out of a routine, fall-through into a routine, running off the end)
are reported separately."""
from typing import Any, Dict, List, Optional, Set, Tuple

import z3

from .teal import langspec as LS
from .teal.parse import Program

TERMINATORS = {"return", "retsub", "err", "b"}


class Routine:
    def __init__(self, label: Optional[str], start: int, end: int):
        self.label = label
        self.start = start
        self.end = end


def routines_of(prog: Program) -> List[Routine]:
    starts = {}
    for ins in prog.instrs:
        if ins.op == "callsub" and ins.args and ins.args[0] in prog.labels:
            starts[prog.labels[ins.args[0]]] = ins.args[0]
    cuts = sorted(starts)
    rs = []
    first = cuts[0] if cuts else len(prog.instrs)
    rs.append(Routine(None, 0, first))
    for k, s in enumerate(cuts):
        e = cuts[k + 1] if k + 1 < len(cuts) else len(prog.instrs)
        rs.append(Routine(starts[s], s, e))
    return rs


def stack_effect(ins) -> Tuple[Optional[int], Optional[int], Optional[int]]:
    """(reads, pops, pushes) with None for call/return/proto handled by the caller"""
    op, a = ins.op, ins.args
    spec = LS.OPS[op]
    if spec.pops is not None:
        return len(spec.pops), len(spec.pops), len(spec.pushes)
    if op == "dig":
        return a[0] + 1, 0, 1
    if op in ("cover", "uncover"):
        return a[0] + 1, 0, 0
    if op == "bury":
        return a[0] + 1, 1, 0
    if op == "popn":
        return a[0], a[0], 0
    if op == "dupn":
        return 1, 0, a[0]
    if op == "frame_dig":
        return 0, 0, 1
    if op == "frame_bury":
        return 1, 1, 0
    if op == "pushints":
        return 0, 0, len(a[0])
    if op == "pushbytess":
        return 0, 0, len(a[0])
    if op == "proto":
        return 0, 0, 0
    return None, None, None


def analyze(prog: Program, declared: Optional[Dict[str, Tuple[int, int]]] = None, timeout_ms: int = 20000,
            want_types: bool = True) -> Dict[str, Any]:
    """-> {"structural": [...], "heights": "sat"/"unsat"/"unknown", "height_core": [...],
           "types": ..., "type_core": [...], "AR": {label: (A, R)}, "queries": n, "solver_time": s}"""
    import time
    res: Dict[str, Any] = {"structural": [], "heights": None, "height_core": [], "types": None, "type_core": [],
                           "AR": {}, "queries": 0, "solver_time": 0.0, "instructions": len(prog.instrs)}
    declared = declared or {}
    rs = routines_of(prog)
    n = len(prog.instrs)
    rof: Dict[int, Routine] = {}
    for r in rs:
        for i in range(r.start, r.end):
            rof[i] = r
    byl = {r.label: r for r in rs}
    # ---------------- structure
    succ: Dict[int, List[int]] = {i: [] for i in range(n)}
    pending_structural: List[Tuple[int, str]] = []     # only count when the instruction is reachable
    for i, ins in enumerate(prog.instrs):
        r = rof[i]
        if ins.op in ("b", "bz", "bnz"):
            lbl = ins.args[0]
            if lbl not in prog.labels:
                res["structural"].append("line %d: branch to undefined label %s" % (ins.line, lbl))
            else:
                t = prog.labels[lbl]
                if t >= n:
                    res["structural"].append("line %d: branch to the end of the program (label %s)" % (ins.line, lbl))
                elif rof[t] is not r:
                    res["structural"].append("line %d: branch from routine %s into routine %s" % (ins.line, r.label, rof[t].label))
                else:
                    succ[i].append(t)
        if ins.op == "callsub" and ins.args[0] not in prog.labels:
            res["structural"].append("line %d: callsub to undefined label %s" % (ins.line, ins.args[0]))
        if ins.op not in TERMINATORS:
            if i + 1 >= n:
                if r.label is not None:
                    pending_structural.append((i, "line %d: subroutine %s runs off the end of the program" % (ins.line, r.label)))
                else:
                    succ[i].append(n)      # falling off the end of main: implicit return
            elif rof[i + 1] is not r:
                pending_structural.append((i, "line %d: falls through from routine %s into routine %s" % (ins.line, r.label, rof[i + 1].label)))
            else:
                succ[i].append(i + 1)
    for r in rs:
        if r.start >= r.end and r.label is None and n > 0 and r.end == 0:
            res["structural"].append("main routine is empty")
    # only instructions reachable from their routine's entry are constrained: code after a return/err that nothing
    # jumps to is dead, and a path that starts in dead code is not a path "reaching" an instruction
    reach: Set[int] = set()
    work = [r.start for r in rs if r.start < n]
    while work:
        i = work.pop()
        if i in reach or i >= n:
            continue
        reach.add(i)
        work.extend(succ[i])
    res["unreachable_instructions"] = n - len(reach)
    res["structural"] += [msg for (i, msg) in pending_structural if i in reach]
    # ---------------- phase 1: heights
    s = z3.Solver()
    s.set("timeout", timeout_ms)
    s.set("unsat_core", True)
    h = [z3.Int("h%d" % i) for i in range(n + 1)]
    A = {r.label: z3.Int("A_%s" % r.label) for r in rs if r.label is not None}
    R = {r.label: z3.Int("R_%s" % r.label) for r in rs if r.label is not None}
    hasproto: Dict[Optional[str], bool] = {}
    track = {}

    def add(name, c):
        while name in track:
            name += "'"
        p = z3.Bool(name)
        track[name] = c
        s.assert_and_track(c, p)

    for r in rs:
        if r.start < n:
            add("entry:%s" % r.label, h[r.start] == 0)
        if r.label is not None:
            add("nonneg:%s" % r.label, z3.And(A[r.label] >= 0, R[r.label] >= 0))
            first = prog.instrs[r.start] if r.start < r.end else None
            hasproto[r.label] = bool(first is not None and first.op == "proto")
            if hasproto[r.label]:
                add("proto:%s" % r.label, z3.And(A[r.label] == first.args[0], R[r.label] == first.args[1]))
            if r.label in declared:
                add("declared:%s" % r.label, z3.And(A[r.label] == declared[r.label][0], R[r.label] == declared[r.label][1]))
    for i, ins in enumerate(prog.instrs):
        if i not in reach:
            continue
        r = rof[i]
        owned = A[r.label] if r.label is not None else 0
        if r.label is not None and hasproto[r.label]:
            floor = 0       # under proto the frame base is the floor for ordinary pops; args reached by frame_dig only
        else:
            floor = -owned if r.label is not None else 0
        tag = "L%d:%s" % (ins.line, ins.op)
        op = ins.op
        if op == "callsub":
            f = ins.args[0]
            if f in A:
                add(tag + ":args", h[i] - A[f] >= floor)
                delta = R[f] - A[f]
            else:
                delta = 0
        elif op == "retsub":
            if r.label is None:
                res["structural"].append("line %d: retsub in the main routine" % ins.line)
            elif hasproto[r.label]:
                add(tag + ":results", h[i] >= R[r.label])
            else:
                add(tag + ":results", h[i] == R[r.label] - A[r.label])
            delta = 0
        elif op == "return":
            add(tag + ":value", h[i] >= 1)
            delta = 0
        elif op == "frame_dig":
            k = ins.args[0]
            if r.label is None or not hasproto.get(r.label):
                res["structural"].append("line %d: frame_dig without proto" % ins.line)
            elif k < 0:
                add(tag + ":arg", -k <= A[r.label])
            else:
                add(tag + ":cell", h[i] > k)
            delta = 1
        elif op == "frame_bury":
            k = ins.args[0]
            if r.label is None or not hasproto.get(r.label):
                res["structural"].append("line %d: frame_bury without proto" % ins.line)
            elif k < 0:
                add(tag + ":arg", -k <= A[r.label])
                add(tag + ":val", h[i] >= 1)
            else:
                add(tag + ":cell", h[i] - 1 > k)
            delta = -1
        else:
            reads, pops, pushes = stack_effect(ins)
            if reads is None:
                res["structural"].append("line %d: no stack signature for %s" % (ins.line, op))
                delta = 0
            else:
                if reads:
                    add(tag + ":needs%d" % reads, h[i] - reads >= floor)
                delta = pushes - pops
        for j in succ[i]:
            if j == n:
                add(tag + ":end-of-program", h[i] + delta == 1)
            else:
                add(tag + "->L%d" % prog.instrs[j].line, h[j] == h[i] + delta)
    t0 = time.time()
    r1 = str(s.check())
    res["solver_time"] += time.time() - t0
    res["queries"] += 1
    res["heights"] = r1
    if r1 == "unsat":
        res["height_core"] = sorted(str(c) for c in s.unsat_core())[:30]
        return res
    if r1 != "sat":
        return res
    m = s.model()
    H = [m.eval(h[i], model_completion=True).as_long() for i in range(n)]
    AR = {lbl: (m.eval(A[lbl], model_completion=True).as_long(), m.eval(R[lbl], model_completion=True).as_long()) for lbl in A}
    res["AR"] = AR
    res["max_height"] = max(H) if H else 0
    if not want_types:
        return res
    # ---------------- phase 2: types (True = uint64, False = bytes)
    res.update(_types(prog, rs, rof, succ, H, AR, hasproto, timeout_ms, reach))
    return res


def _callee_writes(prog, rs) -> Dict[str, Optional[Set[int]]]:
    """label -> set of slots the routine (transitively) may store to; None = any (stores)"""
    direct: Dict[str, Optional[Set[int]]] = {}
    calls: Dict[str, Set[str]] = {}
    for r in rs:
        if r.label is None:
            continue
        w: Optional[Set[int]] = set()
        cs = set()
        for ins in prog.instrs[r.start:r.end]:
            if ins.op == "store" and w is not None:
                w.add(ins.args[0])
            if ins.op == "stores":
                w = None
            if ins.op == "callsub":
                cs.add(ins.args[0])
        direct[r.label] = w
        calls[r.label] = cs
    changed = True
    while changed:
        changed = False
        for f in direct:
            for g in calls[f]:
                if g not in direct:
                    continue
                if direct[f] is None:
                    continue
                if direct[g] is None:
                    direct[f] = None
                    changed = True
                elif not direct[g] <= direct[f]:
                    direct[f] |= direct[g]
                    changed = True
    return direct


def _field_type(op: str, ins) -> Optional[str]:
    spec = LS.OPS[op]
    for k, imm in enumerate(spec.imms):
        if imm.startswith("f:"):
            grp = LS.field_group(imm[2:]) if imm[2:] != "txna" else LS.field_group("txn")
            name = ins.args[k]
            if name in grp:
                return grp[name][1]
    return None


def _types(prog, rs, rof, succ, H, AR, hasproto, timeout_ms, reach) -> Dict[str, Any]:
    import time
    out: Dict[str, Any] = {"types": None, "type_core": []}
    n = len(prog.instrs)
    s = z3.Solver()
    s.set("timeout", timeout_ms)
    s.set("unsat_core", True)
    slots = sorted({ins.args[0] for ins in prog.instrs if ins.op in ("load", "store")})
    dynamic_slots = any(ins.op in ("loads", "stores") for ins in prog.instrs)
    writes = _callee_writes(prog, rs)

    def base(i):
        r = rof[i]
        return -AR[r.label][0] if r.label is not None else 0

    T = {}

    def t(i, p):
        k = (i, p)
        if k not in T:
            T[k] = z3.Bool("t_%d_%d" % (i, p))
        return T[k]

    S = {}

    def sl(i, k):
        key = (i, k)
        if key not in S:
            S[key] = z3.Bool("s_%d_%d" % (i, k))
        return S[key]

    RET = {lbl: [z3.Bool("ret_%s_%d" % (lbl, j)) for j in range(AR[lbl][1])] for lbl in AR}
    cnt = [0]

    def add(name, c):
        cnt[0] += 1
        s.assert_and_track(c, z3.Bool("%s#%d" % (name, cnt[0])))

    def ty(letter):
        return {"U": True, "B": False}.get(letter)

    fresh = [0]

    def newvar():
        fresh[0] += 1
        return z3.Bool("f_%d" % fresh[0])

    # entry: main's slots start as uint64 zero
    for r in rs:
        if r.label is None and r.start < n:
            for k in slots:
                add("init-slot%d" % k, sl(r.start, k) == True)  # noqa: E712
    for i, ins in enumerate(prog.instrs):
        if i not in reach:
            continue
        op, a = ins.op, ins.args
        r = rof[i]
        hi = H[i]
        b = base(i)
        tag = "L%d:%s" % (ins.line, op)
        # output stack as list of z3 Bool (bottom..top), from input cells
        cells = [t(i, p) for p in range(b, hi)]
        slot_out = {k: sl(i, k) for k in slots}
        spec = LS.OPS[op]
        if op in ("b", "err"):
            pass
        elif op in ("bz", "bnz", "assert", "return"):
            if cells:
                add(tag + ":operand-uint64", cells[-1] == True)  # noqa: E712
                cells = cells[:-1]
        elif op == "callsub":
            f = a[0]
            if f in AR:
                na, nr = AR[f]
                cells = cells[:len(cells) - na] if na else cells
                cells = cells + RET[f]
                w = writes.get(f)
                for k in slots:
                    if w is None or k in w:
                        slot_out[k] = newvar()
        elif op == "retsub":
            if r.label is not None:
                nr = AR[r.label][1]
                if hasproto.get(r.label):
                    # results are the nr cells at the frame base
                    src = [t(i, p) for p in range(0, nr)]
                else:
                    src = cells[len(cells) - nr:] if nr else []
                for j, c in enumerate(src):
                    add(tag + ":result%d" % j, RET[r.label][j] == c)
        elif op == "proto":
            pass
        elif op == "dig":
            cells = cells + [cells[-1 - a[0]]]
        elif op == "cover":
            v = cells[-1]
            cells = cells[:-1]
            cells.insert(len(cells) - a[0], v)
        elif op == "uncover":
            v = cells.pop(len(cells) - 1 - a[0])
            cells.append(v)
        elif op == "bury":
            v = cells.pop()
            cells[len(cells) - a[0]] = v
        elif op == "popn":
            cells = cells[:len(cells) - a[0]] if a[0] else cells
        elif op == "dupn":
            cells = cells + [cells[-1]] * a[0]
        elif op == "swap":
            cells[-1], cells[-2] = cells[-2], cells[-1]
        elif op == "dup":
            cells = cells + [cells[-1]]
        elif op == "dup2":
            cells = cells + [cells[-2], cells[-1]]
        elif op == "pop":
            cells = cells[:-1]
        elif op == "select":
            add(tag + ":cond-uint64", cells[-1] == True)  # noqa: E712
            x, y = cells[-3], cells[-2]
            v = newvar()
            add(tag + ":result", z3.Or(v == x, v == y))
            cells = cells[:-3] + [v]
        elif op == "frame_dig":
            k = a[0]
            cells = cells + [t(i, k)]
        elif op == "frame_bury":
            k = a[0]
            v = cells.pop()
            if k >= 0 and k < len(cells) + b + (0 if b >= 0 else 0):
                pass
            idx = k - b
            if 0 <= idx < len(cells):
                cells[idx] = v
        elif op == "load":
            cells = cells + [slot_out[a[0]]]
        elif op == "store":
            slot_out[a[0]] = cells[-1]
            cells = cells[:-1]
        elif op == "loads":
            add(tag + ":index-uint64", cells[-1] == True)  # noqa: E712
            cells = cells[:-1] + [newvar()]
        elif op == "stores":
            add(tag + ":index-uint64", cells[-2] == True)  # noqa: E712
            cells = cells[:-2]
            for k in slots:
                slot_out[k] = newvar()
        elif op in ("pushints", "pushbytess"):
            cells = cells + [op == "pushints"] * len(a[0])
        elif op in ("==", "!="):
            add(tag + ":same-type", cells[-1] == cells[-2])
            cells = cells[:-2] + [True]
        elif spec.pops is not None:
            np_ = len(spec.pops)
            ops_ = cells[len(cells) - np_:] if np_ else []
            for letter, c in zip(spec.pops, ops_):
                tt = ty(letter)
                if tt is not None:
                    add(tag + ":operand-%s" % ("uint64" if tt else "bytes"), c == tt)
            if op == "itxn_field":
                ft = _field_type(op, ins)
                if ft is not None and ops_:
                    add(tag + ":field-%s" % a[0], ops_[0] == ty(ft))
            cells = cells[:len(cells) - np_] if np_ else cells
            pushed = []
            ft = _field_type(op, ins)
            for j, letter in enumerate(spec.pushes):
                tt = ty(letter)
                if tt is None and ft is not None and j == 0:
                    tt = ty(ft)
                if op == "setbit" and tt is None:
                    pushed.append(ops_[0])
                    continue
                pushed.append(tt if tt is not None else newvar())
            cells = cells + pushed
        else:
            pass
        for j in succ[i]:
            if j >= n:
                if cells:
                    add(tag + ":end-value-uint64", cells[-1] == True)  # noqa: E712
                continue
            bj = base(j)
            hj = H[j]
            if len(cells) != hj - bj:
                # heights were solved in phase 1; a mismatch here means the two phases disagree
                out["types"] = "error"
                out["type_core"] = ["internal: cell count mismatch at %s -> L%d (%d vs %d)" % (tag, prog.instrs[j].line, len(cells), hj - bj)]
                return out
            for p, c in zip(range(bj, hj), cells):
                add(tag + "->L%d:cell%d" % (prog.instrs[j].line, p), t(j, p) == c)
            for k in slots:
                add(tag + "->L%d:slot%d" % (prog.instrs[j].line, k), sl(j, k) == slot_out[k])
    t0 = time.time()
    r2 = str(s.check())
    out["solver_time_types"] = time.time() - t0
    out["types"] = r2
    out["type_constraints"] = cnt[0]
    if r2 == "unsat":
        out["type_core"] = sorted(str(c).split("#")[0] for c in s.unsat_core())[:30]
    return out
