"""./check <property> [--tier quick|thorough] [--replay file]"""
import importlib
import json
import os
import sys


def main(argv):
    if not argv:
        print("usage: check <Cxx> [--tier quick|thorough] [--replay file]")
        return 2
    prop = argv[0].upper()
    replay = None
    i = 1
    while i < len(argv):
        if argv[i] == "--tier":
            os.environ["VERIF_TIER"] = argv[i + 1]
            i += 2
        elif argv[i] == "--replay":
            replay = argv[i + 1]
            i += 2
        elif argv[i] == "--seed":
            os.environ["VERIF_SEED"] = argv[i + 1]
            i += 2
        else:
            print("unknown argument", argv[i])
            return 2
    mod = importlib.import_module("verif.checks.%s" % prop.lower())
    if replay:
        sys.setrecursionlimit(10000)        # as in the pool workers (long straight-line programs nest deeply inside PyTeal)
        with open(replay) as f:
            rec = json.load(f)
        fn = getattr(mod, "replay", None)
        if fn is None:
            from verif.tvjob import replay_file as fn
        if rec.get("kind") == "unassemblable" and rec.get("jobfn") and rec.get("fulljob"):
            # the emitted text could not be assembled: recompile the same job and look again
            def fn(record):
                modname, fname = record["jobfn"].rsplit(":", 1)
                r = getattr(importlib.import_module(modname), fname)(dict(record["fulljob"]))
                print("status:", r.get("status"), "complaints:", (r.get("complaints") or [])[:3])
                return bool(r.get("complaints"))
        try:
            still = fn(rec)
        except Exception as e:  # noqa
            if "recompilation for replay failed" in str(e) or "recompilation failed" in str(e):
                # the recorded program is no longer accepted by the compiler: the recorded behaviour cannot occur
                print("does not reproduce on the current tree (the program no longer compiles: %s)" % str(e)[:120])
                return 0
            import traceback
            traceback.print_exc()
            print("HARNESS-ERROR replay failed: %s: %s" % (type(e).__name__, e))
            return 2
        print("REPRODUCES" if still else "does not reproduce on the current tree")
        return 1 if still else 0
    try:
        return mod.main()
    except Exception as e:  # noqa
        import traceback
        traceback.print_exc()
        print("HARNESS-ERROR property=%s %s: %s" % (prop, type(e).__name__, e))
        return 2


if __name__ == "__main__":
    sys.exit(main(sys.argv[1:]))
