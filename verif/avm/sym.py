"""SymAVM: path-based symbolic interpreter for emitted TEAL over z3 terms.

Failure kinds: program-level failures are "err", "assert", "arith:*", "range:*", "itxn:*";
*discipline* failures (what C04/C05/C17 look for) are prefixed "D:":
  D:underflow  D:type  D:frame  D:fallthrough  D:retsub-empty  D:end-stack  D:uninit  D:label
"""
from dataclasses import dataclass, field
from typing import Any, Dict, List, Optional, Tuple

import z3

from ..teal import langspec as LS
from ..teal.parse import Program, Tmpl
from .ctx import CtxConfig, World, _tag
from .engine import Engine, HarnessError, Outcome, Path, PathEnd
from .values import (BytesSort, Bs, Ob, U, UF_BITLEN, UF_EXP, UF_EXP_FAIL, UF_OB_BITLEN, UF_OB_LEN,
                     UF_SQRT, b_and, b_not, b_or, bytes_eq, bytes_to_u64_term, cint, from_bool,
                     ite64, ite_byte, lift, norm, u64_to_bytes, uf, z8, z64, M64)

MAX_BYTES = 4096


@dataclass
class Bounds:
    loop_k: int = 3          # backward jumps per target per path
    call_depth: int = 4
    max_steps: int = 20000
    max_forked_len: int = 64  # cap on solver-enumerated result lengths


class _Frame:
    __slots__ = ("retpc", "height", "clear", "args", "returns", "label")

    def __init__(self, retpc, height, label):
        self.retpc = retpc
        self.height = height
        self.clear = False
        self.args = 0
        self.returns = 0
        self.label = label


class SymAVM:
    def __init__(self, prog: Program, cfg: CtxConfig, bounds: Optional[Bounds] = None,
                 record_exits: bool = False, entry: int = 0, init_stack=None, init_scratch=None,
                 routine_starts: Optional[set] = None, havoc_callsub=None, stop_at: Optional[int] = None,
                 record_const_loads: bool = False, entry_label: Optional[str] = None):
        self.prog = prog
        self.entry_label = entry_label
        self.cfg = cfg
        self.bounds = bounds or Bounds()
        self.record_exits = record_exits
        self.entry = entry
        self.init_stack = init_stack
        self.init_scratch = init_scratch
        self.havoc_callsub = havoc_callsub
        self.stop_at = stop_at
        self.record_const_loads = record_const_loads
        # instruction indices at which a subroutine begins (targets of callsub)
        if routine_starts is None:
            routine_starts = set()
            for ins in prog.instrs:
                if ins.op == "callsub" and ins.args and ins.args[0] in prog.labels:
                    routine_starts.add(prog.labels[ins.args[0]])
        self.routine_starts = routine_starts
        self.intc: List[Any] = []
        self.bytec: List[Any] = []

    # ------------------------------------------------------------------
    def run(self, path: Path) -> Outcome:
        prog = self.prog
        w = World(self.cfg, path)
        self.w = w
        self.path = path
        st: List[Any] = list(self.init_stack or [])
        self.st = st
        scratch: Dict[int, Any] = dict(self.init_scratch or {})
        self.scratch = scratch
        calls: List[_Frame] = []
        self.calls = calls
        if self.entry_label is not None:
            # routine-level run: the routine was "called" from a sentinel return address (= stop_at)
            calls.append(_Frame(self.stop_at, len(st), self.entry_label))
        back: Dict[int, int] = {}
        exits: List[Tuple] = []
        const_loads: List[Tuple] = []
        self.intc = []
        self.bytec = []
        pc = self.entry
        self._fell_through = False
        steps = 0
        n = len(prog.instrs)
        eng = path.eng
        while True:
            if self.stop_at is not None and pc == self.stop_at:
                return Outcome([], "return", ret=None, effects=list(path.effects),
                               extra={"stack": list(st), "scratch": dict(self.scratch), "stopped": True})
            if pc >= n:
                # ran off the end: legal only in the main routine with exactly one uint64
                if calls:
                    path.fail("D:fallthrough:end of program inside subroutine")
                if len(st) != 1:
                    path.fail("D:end-stack:%d values at end of program" % len(st))
                v = st[-1]
                if not isinstance(v, U):
                    path.fail("D:type:end of program with bytes on stack")
                return self._ret(v, exits, const_loads)
            if pc in self.routine_starts and steps > 0 and self._fell_through:
                path.fail("D:fallthrough:into routine at instr %d" % pc)
            self._fell_through = True
            ins = prog.instrs[pc]
            steps += 1
            eng.stats.steps += 1
            if steps > self.bounds.max_steps:
                path.cut("steps")
            op = ins.op
            a = ins.args
            if a is None or op not in LS.OPS:
                raise HarnessError("unparsable instruction at line %d: %s" % (ins.line, op))
            npc = pc + 1
            # ---------------- control
            if op in ("b", "bz", "bnz", "callsub"):
                lbl = a[0]
                if lbl not in prog.labels:
                    path.fail("D:label:undefined %s" % lbl)
                tgt = prog.labels[lbl]
                if op == "b":
                    take = True
                elif op == "callsub":
                    take = True
                else:
                    c = self.pop_u()
                    nzc = c.nz()
                    t = path.branch(nzc)
                    take = t if op == "bnz" else (not t)
                if op == "callsub":
                    if self.havoc_callsub is not None:
                        self.havoc_callsub(self, lbl)
                        pc = npc
                        continue
                    if len(calls) >= self.bounds.call_depth:
                        path.cut("depth")
                    calls.append(_Frame(npc, len(st), lbl))
                    if self.record_exits:
                        exits.append(("call", lbl, len(st)))
                    self._fell_through = False
                    pc = tgt
                    continue
                if take:
                    if tgt <= pc:
                        back[tgt] = back.get(tgt, 0) + 1
                        if back[tgt] > self.bounds.loop_k:
                            path.cut("loop")
                    self._fell_through = False
                    pc = tgt
                else:
                    pc = npc
                continue
            if op == "retsub":
                if not calls:
                    path.fail("D:retsub-empty:retsub with empty call stack")
                fr = calls.pop()
                delta = len(st) - fr.height
                if fr.clear:
                    expect = fr.height + fr.returns
                    if len(st) < expect:
                        path.fail("D:frame:retsub with %d values above frame, proto declared %d" % (len(st) - fr.height, fr.returns))
                    argstart = fr.height - fr.args
                    rets = st[fr.height:expect]
                    del st[argstart:]
                    st.extend(rets)
                if self.record_exits:
                    # what the routine left: net height change since its entry, and the top of the caller's stack
                    exits.append(("retsub", fr.label, [U(delta)] + (st[-1:] if st else [])))
                self._fell_through = False
                pc = fr.retpc
                continue
            if op == "return":
                v = self.pop_u()
                if self.record_exits:
                    base = calls[-1].height if calls else 0
                    exits.append(("return", len(calls), [U(len(st) - base)]))
                return self._ret(v, exits, const_loads)
            if op == "err":
                path.fail("err")
            if op == "assert":
                v = self.pop_u()
                path.fail_if(b_not(v.nz()), "assert")
                pc = npc
                continue
            if op == "proto":
                if not calls:
                    path.fail("D:frame:proto outside subroutine")
                fr = calls[-1]
                if fr.clear:
                    path.fail("D:frame:proto executed twice")
                fr.clear = True
                fr.args, fr.returns = a[0], a[1]
                if fr.args > fr.height:
                    path.fail("D:underflow:proto needs %d args, stack height %d" % (fr.args, fr.height))
                pc = npc
                continue
            # ---------------- everything else
            self.step(ins, const_loads)
            pc = npc

    def _ret(self, v: U, exits, const_loads) -> Outcome:
        extra = {"scratch": dict(self.scratch)}
        if self.record_exits:
            extra["exits"] = exits
        if self.record_const_loads:
            extra["const_loads"] = const_loads
        return Outcome([], "return", ret=v, effects=list(self.path.effects), extra=extra)

    # ------------------------------------------------------------------
    # stack helpers
    def pop(self):
        if not self.st:
            self.path.fail("D:underflow:pop from empty stack")
        if self.calls and self.calls[-1].clear is False and False:
            pass
        return self.st.pop()

    def pop_u(self) -> U:
        v = self.pop()
        if not isinstance(v, U):
            self.path.fail("D:type:expected uint64, got bytes")
        if v.uninit:
            pass
        return v

    def pop_b(self):
        v = self.pop()
        if isinstance(v, U):
            self.path.fail("D:type:expected bytes, got uint64")
        return v

    def pop_bs(self) -> Bs:
        v = self.pop_b()
        if isinstance(v, Ob):
            raise HarnessError("opaque bytes used by a length-sensitive op")
        return v

    def push(self, v):
        if len(self.st) >= 1000:
            self.path.fail("range:stack overflow")
        if isinstance(v, Bs) and len(v) > MAX_BYTES:
            self.path.fail("range:byte string longer than 4096")
        self.st.append(v)

    def need(self, n):
        if len(self.st) < n:
            self.path.fail("D:underflow:need %d values, have %d" % (n, len(self.st)))

    # symbolic index helpers ----------------------------------------------
    def conc_index(self, u: U, limit: int, what: str) -> int:
        """Concretise a uint64 that must be <= limit (fails otherwise) by forking over the
        feasible values."""
        if u.concrete:
            self.path.fail_if(u.e > limit, "range:" + what)
            return u.e
        self.path.fail_if(z3.UGT(u.e, z3.BitVecVal(limit, 64)), "range:" + what)
        conds = [u.e == z3.BitVecVal(i, 64) for i in range(limit + 1)]
        return self.path.choose(limit + 1, conds)

    def sym_slice(self, s: Bs, off: U, ln: int, what: str) -> List[Any]:
        """bytes s[off:off+ln] with symbolic off (ite chain), failing when off+ln > len(s)"""
        n = len(s)
        if off.concrete:
            self.path.fail_if(off.e + ln > n, "range:" + what)
            return s.bs[off.e:off.e + ln]
        if ln > n:
            self.path.fail("range:" + what)
        maxoff = n - ln
        self.path.fail_if(z3.UGT(off.e, z3.BitVecVal(maxoff, 64)), "range:" + what)
        out = []
        for j in range(ln):
            acc = s.bs[maxoff + j]
            for o in range(maxoff - 1, -1, -1):
                acc = ite_byte(off.e == z3.BitVecVal(o, 64), s.bs[o + j], acc)
            out.append(acc)
        return out

    # ------------------------------------------------------------------
    def step(self, ins, const_loads):
        op = ins.op
        a = ins.args
        path = self.path
        w = self.w
        st = self.st
        push = self.push
        # ---- constants
        if op in ("int", "pushint"):
            v = a[0]
            val = U(z3.BitVec(v.name, 64)) if isinstance(v, Tmpl) else U(v)
            if self.cfg.concrete is not None and isinstance(v, Tmpl):
                val = U(int(self.cfg.concrete.get(v.name, 0)))
            if self.record_const_loads:
                const_loads.append((ins.line, op, val))
            return push(val)
        if op in ("byte", "pushbytes", "addr", "method"):
            v = a[0]
            if op == "method":
                v = v[1]
            val = self._bytes_const(v)
            if self.record_const_loads:
                const_loads.append((ins.line, op, val))
            return push(val)
        if op == "intcblock":
            self.intc = list(a[0])
            return
        if op == "bytecblock":
            self.bytec = list(a[0])
            return
        if op == "intc" or op.startswith("intc_"):
            i = a[0] if op == "intc" else int(op[-1])
            if i >= len(self.intc):
                path.fail("D:const:intc %d beyond intcblock of %d" % (i, len(self.intc)))
            v = self.intc[i]
            val = U(z3.BitVec(v.name, 64)) if isinstance(v, Tmpl) else U(v)
            if self.cfg.concrete is not None and isinstance(v, Tmpl):
                val = U(int(self.cfg.concrete.get(v.name, 0)))
            if self.record_const_loads:
                const_loads.append((ins.line, op, val))
            return push(val)
        if op == "bytec" or op.startswith("bytec_"):
            i = a[0] if op == "bytec" else int(op[-1])
            if i >= len(self.bytec):
                path.fail("D:const:bytec %d beyond bytecblock of %d" % (i, len(self.bytec)))
            val = self._bytes_const(self.bytec[i])
            if self.record_const_loads:
                const_loads.append((ins.line, op, val))
            return push(val)
        # ---- stack manipulation
        if op == "pop":
            self.pop()
            return
        if op == "popn":
            self.need(a[0])
            if a[0]:
                del st[len(st) - a[0]:]
            return
        if op == "dup":
            self.need(1)
            return push(st[-1])
        if op == "dup2":
            self.need(2)
            x, y = st[-2], st[-1]
            push(x)
            return push(y)
        if op == "dupn":
            self.need(1)
            for _ in range(a[0]):
                push(st[-1])
            return
        if op == "dig":
            self.need(a[0] + 1)
            return push(st[-1 - a[0]])
        if op == "bury":
            nn = a[0]
            if nn == 0:
                path.fail("D:frame:bury 0")
            self.need(nn + 1)
            v = st.pop()
            st[len(st) - nn] = v
            return
        if op == "swap":
            self.need(2)
            st[-1], st[-2] = st[-2], st[-1]
            return
        if op == "cover":
            nn = a[0]
            self.need(nn + 1)
            v = st.pop()
            st.insert(len(st) - nn, v)
            return
        if op == "uncover":
            nn = a[0]
            self.need(nn + 1)
            v = st.pop(len(st) - 1 - nn)
            st.append(v)
            return
        if op == "select":
            c = self.pop_u()
            bv = self.pop()
            av = self.pop()
            cz = c.nz()
            if isinstance(cz, bool):
                return push(bv if cz else av)
            if isinstance(av, U) and isinstance(bv, U):
                return push(U(ite64(cz, bv.e, av.e)))
            if isinstance(av, Bs) and isinstance(bv, Bs) and len(av) == len(bv):
                return push(Bs([ite_byte(cz, y, x) for x, y in zip(av.bs, bv.bs)]))
            t = path.branch(cz)
            return push(bv if t else av)
        if op in ("frame_dig", "frame_bury"):
            if not self.calls:
                path.fail("D:frame:%s with empty call stack" % op)
            fr = self.calls[-1]
            if not fr.clear:
                path.fail("D:frame:%s without proto" % op)
            i = a[0]
            if op == "frame_bury":
                v = self.pop()
            idx = fr.height + i
            if i < 0 and -i > fr.args:
                path.fail("D:frame:%s %d beyond %d args" % (op, i, fr.args))
            if idx < 0 or idx >= len(st):
                path.fail("D:frame:%s %d outside stack (height above frame %d)" % (op, i, len(st) - fr.height))
            if op == "frame_dig":
                return push(st[idx])
            st[idx] = v
            return
        # ---- scratch
        if op == "load":
            return push(self._load(a[0]))
        if op == "store":
            v = self.pop()
            self.scratch[a[0]] = v
            return
        if op == "loads":
            i = self.pop_u()
            k = self.conc_index(i, 255, "loads slot index")
            return push(self._load(k))
        if op == "stores":
            v = self.pop()
            i = self.pop_u()
            k = self.conc_index(i, 255, "stores slot index")
            self.scratch[k] = v
            return
        # ---- arithmetic
        if op in _BINARY_U:
            b = self.pop_u()
            x = self.pop_u()
            return push(self._arith(op, x, b))
        if op == "!":
            x = self.pop_u()
            return push(from_bool(b_not(x.nz())))
        if op == "~":
            x = self.pop_u()
            return push(U((~x.e) & M64 if x.concrete else ~x.e))
        if op in ("==", "!="):
            b = self.pop()
            x = self.pop()
            if isinstance(b, U) != isinstance(x, U):
                path.fail("D:type:%s on mixed types" % op)
            eq = self._eq(x, b)
            return push(from_bool(eq if op == "==" else b_not(eq)))
        if op == "mulw":
            b = self.pop_u()
            x = self.pop_u()
            if x.concrete and b.concrete:
                p = x.e * b.e
                push(U(p >> 64))
                return push(U(p & M64))
            p = z3.ZeroExt(64, x.z()) * z3.ZeroExt(64, b.z())
            push(U(z3.Extract(127, 64, p)))
            return push(U(z3.Extract(63, 0, p)))
        if op == "addw":
            b = self.pop_u()
            x = self.pop_u()
            if x.concrete and b.concrete:
                p = x.e + b.e
                push(U(p >> 64))
                return push(U(p & M64))
            p = z3.ZeroExt(1, x.z()) + z3.ZeroExt(1, b.z())
            push(U(z3.ZeroExt(63, z3.Extract(64, 64, p))))
            return push(U(z3.Extract(63, 0, p)))
        if op == "divmodw":
            dl = self.pop_u(); dh = self.pop_u(); nl = self.pop_u(); nh = self.pop_u()
            if all(v.concrete for v in (dl, dh, nl, nh)):
                d = (dh.e << 64) | dl.e
                nn = (nh.e << 64) | nl.e
                if d == 0:
                    path.fail("arith:divmodw by zero")
                q, r = divmod(nn, d)
                push(U(q >> 64)); push(U(q & M64)); push(U(r >> 64)); return push(U(r & M64))
            d = z3.Concat(dh.z(), dl.z())
            nn = z3.Concat(nh.z(), nl.z())
            path.fail_if(d == z3.BitVecVal(0, 128), "arith:divmodw by zero")
            q = z3.UDiv(nn, d)
            r = z3.URem(nn, d)
            push(U(z3.Extract(127, 64, q))); push(U(z3.Extract(63, 0, q)))
            push(U(z3.Extract(127, 64, r))); return push(U(z3.Extract(63, 0, r)))
        if op == "divw":
            d = self.pop_u(); lo = self.pop_u(); hi = self.pop_u()
            if d.concrete and lo.concrete and hi.concrete:
                if d.e == 0:
                    path.fail("arith:divw by zero")
                q = ((hi.e << 64) | lo.e) // d.e
                if q > M64:
                    path.fail("arith:divw overflow")
                return push(U(q))
            path.fail_if(d.z() == z3.BitVecVal(0, 64), "arith:divw by zero")
            path.fail_if(z3.UGE(hi.z(), d.z()), "arith:divw overflow")
            nn = z3.Concat(hi.z(), lo.z())
            q = z3.UDiv(nn, z3.ZeroExt(64, d.z()))
            return push(U(z3.Extract(63, 0, q)))
        if op == "expw":
            b = self.pop_u(); x = self.pop_u()
            if x.concrete and b.concrete:
                if x.e == 0 and b.e == 0:
                    path.fail("arith:0^0")
                p = x.e ** b.e if b.e < 200 else (1 << 200)
                if p >= 1 << 128:
                    path.fail("arith:expw overflow")
                push(U(p >> 64)); return push(U(p & M64))
            f = uf("uf_expw_fail", [z3.BitVecSort(64)] * 2, z3.BoolSort())
            path.fail_if(f(x.z(), b.z()), "arith:expw")
            push(U(uf("uf_expw_hi", [z3.BitVecSort(64)] * 2, z3.BitVecSort(64))(x.z(), b.z())))
            return push(U(uf("uf_expw_lo", [z3.BitVecSort(64)] * 2, z3.BitVecSort(64))(x.z(), b.z())))
        if op == "sqrt":
            x = self.pop_u()
            if x.concrete:
                import math
                return push(U(math.isqrt(x.e)))
            return push(U(UF_SQRT(x.e)))
        if op == "bitlen":
            x = self.pop()
            if isinstance(x, U):
                if x.concrete:
                    return push(U(x.e.bit_length()))
                return push(U(UF_BITLEN(x.e)))
            if isinstance(x, Bs) and x.concrete:
                return push(U(int.from_bytes(x.as_bytes(), "big").bit_length()))
            return push(U(UF_OB_BITLEN(lift(x))))
        # ---- bytes
        if op == "len":
            x = self.pop_b()
            if isinstance(x, Ob):
                return push(U(UF_OB_LEN(x.t)))
            return push(U(len(x)))
        if op == "itob":
            x = self.pop_u()
            return push(Bs(u64_to_bytes(x.e, 8)))
        if op == "btoi":
            x = self.pop_bs()
            if len(x) > 8:
                path.fail("arith:btoi on more than 8 bytes")
            return push(U(bytes_to_u64_term(x.bs)))
        if op == "concat":
            b = self.pop_b(); x = self.pop_b()
            if isinstance(b, Ob) or isinstance(x, Ob):
                return push(Ob(uf("uf_concat", [BytesSort, BytesSort], BytesSort)(lift(x), lift(b))))
            if len(x) + len(b) > MAX_BYTES:
                path.fail("range:concat longer than 4096")
            return push(Bs(x.bs + b.bs))
        if op == "substring":
            x = self.pop_bs()
            s, e = a
            if e < s:
                path.fail("range:substring end before start")
            if e > len(x):
                path.fail("range:substring end beyond length")
            return push(Bs(x.bs[s:e]))
        if op == "substring3":
            e = self.pop_u(); s = self.pop_u(); x = self.pop_bs()
            return push(self._substring3(x, s, e))
        if op == "extract":
            x = self.pop_bs()
            s, l = a
            if l == 0:
                if s > len(x):
                    path.fail("range:extract start beyond length")
                return push(Bs(x.bs[s:]))
            if s + l > len(x):
                path.fail("range:extract beyond length")
            return push(Bs(x.bs[s:s + l]))
        if op == "extract3":
            l = self.pop_u(); s = self.pop_u(); x = self.pop_bs()
            return push(self._extract3(x, s, l))
        if op in ("extract_uint16", "extract_uint32", "extract_uint64"):
            s = self.pop_u(); x = self.pop_bs()
            nb = {"extract_uint16": 2, "extract_uint32": 4, "extract_uint64": 8}[op]
            bs = self.sym_slice(x, s, nb, op + " beyond length")
            return push(U(bytes_to_u64_term(bs)))
        if op == "getbyte":
            i = self.pop_u(); x = self.pop_bs()
            bs = self.sym_slice(x, i, 1, "getbyte index beyond length")
            return push(U(bytes_to_u64_term(bs)))
        if op == "setbyte":
            v = self.pop_u(); i = self.pop_u(); x = self.pop_bs()
            if v.concrete:
                if v.e > 255:
                    path.fail("range:setbyte value > 255")
            else:
                path.fail_if(z3.UGT(v.e, z3.BitVecVal(255, 64)), "range:setbyte value > 255")
            vb = norm(z3.simplify(z3.Extract(7, 0, v.e))) if not v.concrete else v.e
            n = len(x)
            if i.concrete:
                if i.e >= n:
                    path.fail("range:setbyte index beyond length")
                out = list(x.bs)
                out[i.e] = vb
                return push(Bs(out))
            if n == 0:
                path.fail("range:setbyte index beyond length")
            path.fail_if(z3.UGE(i.e, z3.BitVecVal(n, 64)), "range:setbyte index beyond length")
            return push(Bs([ite_byte(i.e == z3.BitVecVal(k, 64), vb, x.bs[k]) for k in range(n)]))
        if op == "getbit":
            i = self.pop_u(); x = self.pop()
            if isinstance(x, U):
                if i.concrete:
                    if i.e >= 64:
                        path.fail("range:getbit index beyond 63")
                    if x.concrete:
                        return push(U((x.e >> i.e) & 1))
                    return push(U(z3.ZeroExt(63, z3.Extract(i.e, i.e, x.e))))
                path.fail_if(z3.UGE(i.e, z3.BitVecVal(64, 64)), "range:getbit index beyond 63")
                return push(U(z3.LShR(x.z(), i.e) & z3.BitVecVal(1, 64)))
            if isinstance(x, Ob):
                raise HarnessError("getbit on opaque bytes")
            n = len(x)
            if i.concrete:
                if i.e >= 8 * n:
                    path.fail("range:getbit index beyond length")
                byte = x.bs[i.e // 8]
                bit = 7 - (i.e % 8)
                if isinstance(byte, int):
                    return push(U((byte >> bit) & 1))
                return push(U(z3.ZeroExt(63, z3.Extract(bit, bit, byte))))
            if n == 0:
                path.fail("range:getbit index beyond length")
            path.fail_if(z3.UGE(i.e, z3.BitVecVal(8 * n, 64)), "range:getbit index beyond length")
            acc = None
            for k in range(8 * n - 1, -1, -1):
                byte = x.bs[k // 8]
                bit = 7 - (k % 8)
                bv = ((byte >> bit) & 1) if isinstance(byte, int) else z3.ZeroExt(63, z3.Extract(bit, bit, byte))
                acc = bv if acc is None else ite64(i.e == z3.BitVecVal(k, 64), bv, acc)
            return push(U(norm(acc)))
        if op == "setbit":
            v = self.pop_u(); i = self.pop_u(); x = self.pop()
            if v.concrete:
                if v.e > 1:
                    path.fail("range:setbit value > 1")
            else:
                path.fail_if(z3.UGT(v.e, z3.BitVecVal(1, 64)), "range:setbit value > 1")
            if isinstance(x, U):
                if i.concrete and i.e >= 64:
                    path.fail("range:setbit index beyond 63")
                if not i.concrete:
                    path.fail_if(z3.UGE(i.e, z3.BitVecVal(64, 64)), "range:setbit index beyond 63")
                if i.concrete and x.concrete and v.concrete:
                    return push(U((x.e & ~(1 << i.e)) | (v.e << i.e)))
                one = z3.BitVecVal(1, 64)
                mask = one << z64(i.e)
                return push(U((x.z() & ~mask) | (z64(v.e) << z64(i.e))))
            if isinstance(x, Ob):
                raise HarnessError("setbit on opaque bytes")
            n = len(x)
            if i.concrete:
                if i.e >= 8 * n:
                    path.fail("range:setbit index beyond length")
                out = list(x.bs)
                out[i.e // 8] = _set_bit_in_byte(out[i.e // 8], 7 - (i.e % 8), v)
                return push(Bs(out))
            if n == 0:
                path.fail("range:setbit index beyond length")
            path.fail_if(z3.UGE(i.e, z3.BitVecVal(8 * n, 64)), "range:setbit index beyond length")
            out = []
            for k in range(n):
                cur = x.bs[k]
                for bit in range(8):
                    idx = 8 * k + (7 - bit)
                    cur = ite_byte(i.e == z3.BitVecVal(idx, 64), _set_bit_in_byte(x.bs[k], bit, v), cur)
                out.append(cur)
            return push(Bs(out))
        if op == "bzero":
            nn = self.pop_u()
            k = self.conc_index(nn, min(MAX_BYTES, self.bounds.max_forked_len), "bzero length") if not nn.concrete else nn.e
            if k > MAX_BYTES:
                path.fail("range:bzero longer than 4096")
            return push(Bs([0] * k))
        if op in ("replace2", "replace3"):
            if op == "replace3":
                r = self.pop_bs(); s = self.pop_u(); x = self.pop_bs()
            else:
                r = self.pop_bs(); x = self.pop_bs(); s = U(a[0])
            n, m = len(x), len(r)
            if s.concrete:
                if s.e + m > n:
                    path.fail("range:replace beyond length")
                return push(Bs(x.bs[:s.e] + r.bs + x.bs[s.e + m:]))
            if m > n:
                path.fail("range:replace beyond length")
            path.fail_if(z3.UGT(s.e, z3.BitVecVal(n - m, 64)), "range:replace beyond length")
            out = []
            for k in range(n):
                cur = x.bs[k]
                for o in range(0, n - m + 1):
                    if o <= k < o + m:
                        cur = ite_byte(s.e == z3.BitVecVal(o, 64), r.bs[k - o], cur)
                out.append(cur)
            return push(Bs(out))
        if op in _BYTE_MATH:
            b = self.pop_b(); x = self.pop_b()
            return push(self._bytemath(op, x, b))
        if op == "b~":
            x = self.pop_b()
            if isinstance(x, Ob):
                return push(Ob(uf("uf_bnot", [BytesSort], BytesSort)(x.t)))
            return push(Bs([(~v) & 0xFF if isinstance(v, int) else ~v for v in x.bs]))
        if op == "bsqrt":
            x = self.pop_b()
            return push(Ob(uf("uf_bsqrt", [BytesSort], BytesSort)(lift(x))))
        if op in _HASHES:
            x = self.pop_b()
            t = lift(x)
            if isinstance(x, Bs) and x.concrete and self.cfg.concrete is not None:
                return push(Bs(_real_hash(op, x.as_bytes())))
            return push(Bs([uf("uf_%s_%d" % (op, i), [BytesSort], z3.BitVecSort(8))(t) for i in range(32)]))
        # ---- environment
        if op == "txn":
            return push(w.txn_field(a[0]))
        if op == "txna":
            return push(w.txn_field(a[0], None, a[1]))
        if op == "txnas":
            i = self.pop_u()
            k = self.conc_index(i, 255, "txnas index")
            return push(w.txn_field(a[0], None, k))
        if op == "gtxn":
            return push(w.txn_field(a[1], a[0]))
        if op == "gtxna":
            return push(w.txn_field(a[1], a[0], a[2]))
        if op == "gtxnas":
            i = self.pop_u()
            k = self.conc_index(i, 255, "gtxnas index")
            return push(w.txn_field(a[1], a[0], k))
        if op == "gtxns":
            g = self.pop_u()
            k = self.conc_index(g, 15, "gtxns group index")
            return push(w.txn_field(a[0], k))
        if op == "gtxnsa":
            g = self.pop_u()
            k = self.conc_index(g, 15, "gtxnsa group index")
            return push(w.txn_field(a[0], k, a[1]))
        if op == "gtxnsas":
            i = self.pop_u(); g = self.pop_u()
            k = self.conc_index(g, 15, "gtxnsas group index")
            j = self.conc_index(i, 255, "gtxnsas index")
            return push(w.txn_field(a[0], k, j))
        if op == "global":
            return push(w.global_field(a[0]))
        if op == "arg" or op.startswith("arg_"):
            i = a[0] if op == "arg" else int(op[-1])
            return push(w.arg(i))
        if op == "args":
            i = self.pop_u()
            k = self.conc_index(i, 255, "args index")
            return push(w.arg(k))
        if op == "log":
            x = self.pop_b()
            w.log(x)
            return
        if op == "app_global_get":
            k = self.pop_b()
            return push(w.global_get(k))
        if op == "app_global_get_ex":
            k = self.pop_b(); app = self.pop_u()
            v, ex = w.global_get_ex(app, k)
            push(v); return push(ex)
        if op == "app_global_put":
            v = self.pop(); k = self.pop_b()
            w.global_put(k, v)
            return
        if op == "app_global_del":
            k = self.pop_b()
            w.global_del(k)
            return
        if op == "app_local_get":
            k = self.pop_b(); acct = self.pop()
            return push(w.local_get(acct, k))
        if op == "app_local_get_ex":
            k = self.pop_b(); app = self.pop_u(); acct = self.pop()
            v, ex = w.local_get_ex(acct, app, k)
            push(v); return push(ex)
        if op == "app_local_put":
            v = self.pop(); k = self.pop_b(); acct = self.pop()
            w.local_put(acct, k, v)
            return
        if op == "app_local_del":
            k = self.pop_b(); acct = self.pop()
            w.local_del(acct, k)
            return
        if op in ("asset_holding_get", "asset_params_get", "app_params_get", "acct_params_get"):
            grp = LS.field_group(LS.OPS[op].imms[0][2:])
            ty = grp[a[0]][1]
            nargs = len(LS.OPS[op].pops)
            args = [self.pop() for _ in range(nargs)][::-1]
            v, ex = w.maybe(op, a[0], ty, args)
            # value is zero of its type when absent
            push(v); return push(ex)
        if op in ("balance", "min_balance"):
            acct = self.pop()
            return push(w.uquery(op, [acct]))
        if op == "app_opted_in":
            app = self.pop_u(); acct = self.pop()
            v = w.uvar("app_opted_in(%s,%s)" % (_tag(acct), _tag(app)), 1)
            return push(v)
        if op == "itxn_begin":
            return w.itxn_begin()
        if op == "itxn_next":
            return w.itxn_next()
        if op == "itxn_submit":
            return w.itxn_submit()
        if op == "itxn_field":
            v = self.pop()
            fspec = LS.TXN_FIELDS[a[0]]
            if (fspec[1] == "U") != isinstance(v, U):
                path.fail("D:type:itxn_field %s" % a[0])
            return w.itxn_field(a[0], v)
        if op == "itxn":
            return push(w.itxn_read(a[0]))
        if op == "itxna":
            return push(w.itxn_read(a[0], a[1]))
        if op == "gitxn":
            return push(w.itxn_read(a[1], None, a[0]))
        if op == "gitxna":
            return push(w.itxn_read(a[1], a[2], a[0]))
        if op in ("gaid", "gaids", "gload", "gloads", "gloadss"):
            spec = LS.OPS[op]
            args = [self.pop() for _ in range(len(spec.pops))][::-1]
            name = "%s(%s;%s)" % (op, ",".join(str(x) for x in a), ",".join(_tag(x) for x in args))
            return push(w.uvar(name))
        raise HarnessError("SymAVM: unsupported opcode %s (line %d)" % (op, ins.line))

    # ------------------------------------------------------------------
    def _bytes_const(self, v):
        if isinstance(v, Tmpl):
            if self.cfg.concrete is not None:
                if v.kind == "addr" or v.name.startswith("TMPL_ADDR"):
                    return Bs([int(self.cfg.concrete.get("%s#%d" % (v.name, i), 0)) for i in range(32)])
                return Bs(list(self.cfg.concrete.get(v.name, b"")))
            if v.kind == "addr" or v.name.startswith("TMPL_ADDR"):
                # (family convention: address templates are named TMPL_ADDR*, so the assembled
                # form `pushbytes TMPL_ADDRx` denotes the same 32 unknown bytes)
                return Bs([z3.BitVec("%s#%d" % (v.name, i), 8) for i in range(32)])
            # template bytes: unknown length; model as opaque constant
            return Ob(z3.Const(v.name, BytesSort))
        return Bs(list(v))

    def _load(self, k: int):
        if k in self.scratch:
            v = self.scratch[k]
            return v
        if getattr(self, "havoc_gen", 0):
            # slot clobbered by a havoc'd callee and not rewritten since: arbitrary value
            v = self.w.uvar("hv%d.slot%d" % (self.havoc_gen, k))
            self.scratch[k] = v
            return v
        if self.cfg.uninit_tracking:
            v = U(0)
            v.uninit = True
            self.path.effects.append(("uninit-read", k))
            return v
        return U(0)

    def _eq(self, x, y):
        if isinstance(x, U):
            if x.concrete and y.concrete:
                return x.e == y.e
            if (not x.concrete) and (not y.concrete) and z3.eq(x.e, y.e):
                return True
            return x.z() == y.z()
        if isinstance(x, Ob) or isinstance(y, Ob):
            return lift(x) == lift(y)
        return bytes_eq(x.bs, y.bs)

    def _arith(self, op, x: U, y: U) -> U:
        path = self.path
        if x.concrete and y.concrete:
            a, b = x.e, y.e
            if op == "+":
                if a + b > M64: path.fail("arith:+ overflow")
                return U(a + b)
            if op == "-":
                if b > a: path.fail("arith:- underflow")
                return U(a - b)
            if op == "*":
                if a * b > M64: path.fail("arith:* overflow")
                return U(a * b)
            if op == "/":
                if b == 0: path.fail("arith:/ by zero")
                return U(a // b)
            if op == "%":
                if b == 0: path.fail("arith:% by zero")
                return U(a % b)
            if op == "<": return U(int(a < b))
            if op == ">": return U(int(a > b))
            if op == "<=": return U(int(a <= b))
            if op == ">=": return U(int(a >= b))
            if op == "&&": return U(int(a != 0 and b != 0))
            if op == "||": return U(int(a != 0 or b != 0))
            if op == "|": return U(a | b)
            if op == "&": return U(a & b)
            if op == "^": return U(a ^ b)
            if op == "shl":
                if b >= 64: path.fail("arith:shl by 64 or more")
                return U((a << b) & M64)
            if op == "shr":
                if b >= 64: path.fail("arith:shr by 64 or more")
                return U(a >> b)
            if op == "exp":
                if a == 0 and b == 0: path.fail("arith:0^0")
                p = a ** b if (b < 64 or a < 2) else (1 << 64)
                if p > M64: path.fail("arith:exp overflow")
                return U(p)
        a, b = x.z(), y.z()
        if op == "+":
            path.fail_if(z3.ULT(a + b, a), "arith:+ overflow")
            return U(a + b)
        if op == "-":
            path.fail_if(z3.ULT(a, b), "arith:- underflow")
            return U(a - b)
        if op == "*":
            path.fail_if(z3.Not(z3.BVMulNoOverflow(a, b, False)), "arith:* overflow")
            return U(a * b)
        if op == "/":
            path.fail_if(b == z3.BitVecVal(0, 64), "arith:/ by zero")
            return U(z3.UDiv(a, b))
        if op == "%":
            path.fail_if(b == z3.BitVecVal(0, 64), "arith:% by zero")
            return U(z3.URem(a, b))
        if op == "<": return from_bool(z3.ULT(a, b))
        if op == ">": return from_bool(z3.UGT(a, b))
        if op == "<=": return from_bool(z3.ULE(a, b))
        if op == ">=": return from_bool(z3.UGE(a, b))
        if op == "&&": return from_bool(b_and(x.nz(), y.nz()))
        if op == "||": return from_bool(b_or(x.nz(), y.nz()))
        if op == "|": return U(a | b)
        if op == "&": return U(a & b)
        if op == "^": return U(a ^ b)
        if op == "shl":
            path.fail_if(z3.UGE(b, z3.BitVecVal(64, 64)), "arith:shl by 64 or more")
            return U(a << b)
        if op == "shr":
            path.fail_if(z3.UGE(b, z3.BitVecVal(64, 64)), "arith:shr by 64 or more")
            return U(z3.LShR(a, b))
        if op == "exp":
            if y.concrete and y.e <= 8:
                # expand: repeated multiplication with overflow checks
                if y.e == 0:
                    path.fail_if(a == z3.BitVecVal(0, 64), "arith:0^0")
                    return U(1)
                acc = a
                for _ in range(y.e - 1):
                    path.fail_if(z3.Not(z3.BVMulNoOverflow(acc, a, False)), "arith:exp overflow")
                    acc = acc * a
                return U(acc)
            path.fail_if(z3.And(a == z3.BitVecVal(0, 64), b == z3.BitVecVal(0, 64)), "arith:0^0")
            path.fail_if(UF_EXP_FAIL(a, b), "arith:exp overflow")
            return U(UF_EXP(a, b))
        raise HarnessError("arith op " + op)

    def _substring3(self, x: Bs, s: U, e: U) -> Bs:
        path = self.path
        n = len(x)
        if s.concrete and e.concrete:
            if e.e < s.e:
                path.fail("range:substring end before start")
            if e.e > n:
                path.fail("range:substring end beyond length")
            return Bs(x.bs[s.e:e.e])
        # fail conditions without wrap-around
        sz, ez = s.z(), e.z()
        path.fail_if(z3.ULT(ez, sz), "range:substring end before start")
        path.fail_if(z3.UGT(ez, z3.BitVecVal(n, 64)), "range:substring end beyond length")
        # result length e-s symbolic: fork on feasible lengths
        ln = self.conc_index(U(z3.simplify(ez - sz)), n, "substring length")
        return Bs(self.sym_slice(x, s, ln, "substring beyond length"))

    def _extract3(self, x: Bs, s: U, l: U) -> Bs:
        path = self.path
        n = len(x)
        if s.concrete and l.concrete:
            if s.e + l.e > n:
                path.fail("range:extract beyond length")
            return Bs(x.bs[s.e:s.e + l.e])
        if l.concrete:
            return Bs(self.sym_slice(x, s, l.e, "extract beyond length"))
        path.fail_if(z3.UGT(l.e, z3.BitVecVal(n, 64)), "range:extract beyond length")
        ln = self.conc_index(l, n, "extract length")
        return Bs(self.sym_slice(x, s, ln, "extract beyond length"))

    def _bytemath(self, op, x, y):
        path = self.path
        if isinstance(x, Bs) and isinstance(y, Bs) and x.concrete and y.concrete:
            if len(x) > 64 or len(y) > 64:
                path.fail("range:byte math operand longer than 64")
            a = int.from_bytes(x.as_bytes(), "big")
            b = int.from_bytes(y.as_bytes(), "big")
            if op in ("b|", "b&", "b^"):
                n = max(len(x), len(y))
                xa = a; ya = b
                r = {"b|": xa | ya, "b&": xa & ya, "b^": xa ^ ya}[op]
                return Bs(list(r.to_bytes(n, "big")))
            if op in ("b<", "b>", "b<=", "b>=", "b==", "b!="):
                r = {"b<": a < b, "b>": a > b, "b<=": a <= b, "b>=": a >= b, "b==": a == b, "b!=": a != b}[op]
                return U(int(r))
            if op == "b+": r = a + b
            elif op == "b-":
                if b > a: path.fail("arith:b- underflow")
                r = a - b
            elif op == "b*": r = a * b
            elif op == "b/":
                if b == 0: path.fail("arith:b/ by zero")
                r = a // b
            elif op == "b%":
                if b == 0: path.fail("arith:b% by zero")
                r = a % b
            return Bs(list(r.to_bytes((r.bit_length() + 7) // 8, "big")))
        if isinstance(x, Bs) and isinstance(y, Bs):
            if len(x) > 64 or len(y) > 64:
                path.fail("range:byte math operand longer than 64")
            if op in ("b|", "b&", "b^"):
                n = max(len(x), len(y))
                xs = [0] * (n - len(x)) + x.bs
                ys = [0] * (n - len(y)) + y.bs
                out = []
                for p, q in zip(xs, ys):
                    if isinstance(p, int) and isinstance(q, int):
                        out.append({"b|": p | q, "b&": p & q, "b^": p ^ q}[op])
                    else:
                        pz, qz = z8(p), z8(q)
                        out.append({"b|": pz | qz, "b&": pz & qz, "b^": pz ^ qz}[op])
                return Bs(out)
            if op in ("b<", "b>", "b<=", "b>=", "b==", "b!="):
                n = max(len(x), len(y), 1)
                xs = [0] * (n - len(x)) + x.bs
                ys = [0] * (n - len(y)) + y.bs
                xa = z3.Concat(*[z8(v) for v in xs]) if n > 1 else z8(xs[0])
                ya = z3.Concat(*[z8(v) for v in ys]) if n > 1 else z8(ys[0])
                r = {"b<": z3.ULT(xa, ya), "b>": z3.UGT(xa, ya), "b<=": z3.ULE(xa, ya),
                     "b>=": z3.UGE(xa, ya), "b==": xa == ya, "b!=": xa != ya}[op]
                return from_bool(r)
        # value-dependent result length: uninterpreted
        xt, yt = lift(x), lift(y)
        name = "uf_" + {"b+": "badd", "b-": "bsub", "b*": "bmul", "b/": "bdiv", "b%": "bmod",
                        "b|": "bor", "b&": "band", "b^": "bxor", "b<": "blt", "b>": "bgt",
                        "b<=": "ble", "b>=": "bge", "b==": "beq", "b!=": "bne"}[op]
        if op in ("b<", "b>", "b<=", "b>=", "b==", "b!="):
            return from_bool(uf(name, [BytesSort, BytesSort], z3.BoolSort())(xt, yt))
        if op in ("b-", "b/", "b%"):
            path.fail_if(uf(name + "_fail", [BytesSort, BytesSort], z3.BoolSort())(xt, yt), "arith:" + op)
        return Ob(uf(name, [BytesSort, BytesSort], BytesSort)(xt, yt))


_BINARY_U = {"+", "-", "*", "/", "%", "<", ">", "<=", ">=", "&&", "||", "|", "&", "^", "shl", "shr", "exp"}
_BYTE_MATH = {"b+", "b-", "b*", "b/", "b%", "b|", "b&", "b^", "b<", "b>", "b<=", "b>=", "b==", "b!="}
_HASHES = {"sha256", "keccak256", "sha512_256", "sha3_256"}


def _real_hash(op: str, data: bytes) -> bytes:
    import hashlib
    if op == "sha256":
        return hashlib.sha256(data).digest()
    if op == "sha3_256":
        return hashlib.sha3_256(data).digest()
    if op == "sha512_256":
        from Cryptodome.Hash import SHA512
        h = SHA512.new(truncate="256"); h.update(data)
        return h.digest()
    from Cryptodome.Hash import keccak
    h = keccak.new(digest_bits=256); h.update(data)
    return h.digest()


def _set_bit_in_byte(byte, bit: int, v: U):
    """byte with bit `bit` (0 = least significant) set to v (0/1)"""
    if isinstance(byte, int) and v.concrete:
        return (byte & ~(1 << bit) & 0xFF) | (v.e << bit)
    bz = z8(byte)
    vb = z3.Extract(7, 0, z64(v.e))
    return (bz & z3.BitVecVal((~(1 << bit)) & 0xFF, 8)) | (vb << z3.BitVecVal(bit, 8))


class Ops(SymAVM):
    """AVM primitive semantics as functions (used by the reference evaluators): the operands
    are pushed on a private stack, one instruction is executed, the results are popped."""

    def __init__(self, cfg: CtxConfig, path: Path, world: World, bounds: Optional[Bounds] = None):
        self.prog = None
        self.cfg = cfg
        self.bounds = bounds or Bounds()
        self.record_const_loads = False
        self.record_exits = False
        self.path = path
        self.w = world
        self.st = []
        self.scratch = {}
        self.calls = []
        self.intc = []
        self.bytec = []

    def apply(self, op: str, imms, *operands):
        from ..teal.parse import Instr
        self.st = list(operands)
        self.step(Instr(op=op, args=list(imms), raw=[], line=0), [])
        res = self.st
        self.st = []
        return res

    def apply1(self, op: str, imms, *operands):
        r = self.apply(op, imms, *operands)
        if len(r) != 1:
            raise HarnessError("apply1(%s): %d results" % (op, len(r)))
        return r[0]


def run_program(prog: Program, cfg: CtxConfig, eng: Engine, bounds: Optional[Bounds] = None,
                assumptions=(), shape=None, **kw) -> List[Outcome]:
    vm = SymAVM(prog, cfg, bounds, **kw)
    return eng.explore(vm.run, assumptions=list(assumptions), shape=shape)
