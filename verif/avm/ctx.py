"""Transaction-context / ledger model shared by SymAVM and the reference evaluators.

Every environment read creates (or re-uses, by canonical name) a symbolic variable, so the
two sides of a comparison see the same inputs.  Byte-string inputs have a concrete length
chosen by an explicit, recorded fork over the configured length options (Path.shape).
Ledger invariants the AVM guarantees are *assumed* and listed in ASSUMPTIONS.
"""
from dataclasses import dataclass, field
from typing import Any, Dict, List, Optional, Tuple

import z3

from ..teal import langspec as LS
from .engine import HarnessError, Path
from .values import (BytesSort, Bs, Ob, U, b_and, b_not, b_or, bytes_eq, from_bool, lift, norm,
                     uf, z64, z8)

ASSUMPTIONS = [
    "OnCompletion <= 5; TypeEnum of the current transaction is appl (6) in application mode",
    "GroupIndex < GroupSize <= 16; NumAppArgs <= 16; NumAccounts <= 4; NumAssets, NumApplications <= 8",
    "array field reads beyond the element count fail",
    "address-typed fields are 32 bytes; TxID/GroupID/Lease are 32 bytes",
    "scratch slots start as uint64 0",
    "state keys / box names must be concrete byte strings (programs with symbolic keys are skipped)",
    "opcode budget, fees and min-balance are not modelled",
    "inner transaction effects on the ledger are not modelled; only the submitted group is recorded",
    "hash / signature / EC / VRF / json_ref / base64_decode ops are uninterpreted functions",
]

ADDR_FIELDS = {"Sender", "Receiver", "CloseRemainderTo", "AssetSender", "AssetReceiver", "AssetCloseTo",
               "RekeyTo", "ConfigAssetManager", "ConfigAssetReserve", "ConfigAssetFreeze",
               "ConfigAssetClawback", "FreezeAssetAccount", "Accounts", "VotePK", "SelectionPK",
               "TxID", "Lease", "ConfigAssetMetadataHash"}
GLOBAL_LEN = {"ZeroAddress": 32, "CreatorAddress": 32, "CurrentApplicationAddress": 32, "GroupID": 32,
              "CallerApplicationAddress": 32, "GenesisHash": 32}
ARRAY_COUNT = {"ApplicationArgs": ("NumAppArgs", 16), "Accounts": ("NumAccounts", 4),
               "Assets": ("NumAssets", 8), "Applications": ("NumApplications", 8),
               "Logs": ("NumLogs", 32), "ApprovalProgramPages": ("NumApprovalProgramPages", 4),
               "ClearStateProgramPages": ("NumClearStateProgramPages", 4)}


@dataclass
class CtxConfig:
    mode: str = "A"                       # "A" application, "S" signature
    version: int = 6
    default_lens: Tuple[int, ...] = (0, 1, 2, 8)
    lens: Dict[str, Tuple[int, ...]] = field(default_factory=dict)   # canonical name -> options
    group_index_options: Tuple[int, ...] = (0,)
    group_size: Optional[int] = None      # None: symbolic (> GroupIndex, <= 16)
    state_kinds: Tuple[str, ...] = ("absent", "uint", "bytes")
    uninit_tracking: bool = False
    concrete: Optional[Dict[str, Any]] = None   # replay: name -> int / bytes
    presets: Dict[str, Any] = field(default_factory=dict)   # name -> list of byte terms (input fixed to a term, e.g. an ARC-4 encoding)


class World:
    """Per-path instance of the environment."""

    def __init__(self, cfg: CtxConfig, path: Path):
        self.cfg = cfg
        self.path = path
        self.gstate: Dict[bytes, Any] = {}     # key -> current value (U/Bs) or None (deleted)
        self.lstate: Dict[Tuple[str, bytes], Any] = {}
        self.itxn_cur: Optional[List[Tuple[str, Any]]] = None
        self.itxn_group: List[List[Tuple[str, Any]]] = []
        self.itxn_submits = 0
        self.last_group_size = 0
        self.log_count = 0
        self._assumed = set()

    # --- variables --------------------------------------------------------
    def _conc(self, name):
        c = self.cfg.concrete
        if c is None:
            return None
        return c.get(name)

    def uvar(self, name: str, bound: Optional[int] = None) -> U:
        c = self.cfg.concrete
        if c is not None:
            return U(int(c.get(name, 0)))
        v = z3.BitVec(name, 64)
        if bound is not None and name not in self._assumed:
            self._assumed.add(name)
            self.path.assume(z3.ULE(v, z3.BitVecVal(bound, 64)))
        return U(v)

    def bvar(self, name: str, fixed_len: Optional[int] = None) -> Bs:
        c = self.cfg.concrete
        if c is not None:
            val = c.get(name, b"\x00" * (fixed_len or 0))
            return Bs(list(val))
        if name in self.cfg.presets:
            return Bs(list(self.cfg.presets[name]))
        if fixed_len is not None:
            n = fixed_len
        else:
            key = "len:" + name
            if key in self.path.shape:
                n = self.path.shape[key]
            else:
                opts = self.cfg.lens.get(name)
                if opts is None:
                    base = name.split("[")[0].split(".")[-1]
                    opts = self.cfg.lens.get(base, self.cfg.default_lens)
                k = self.path.choose(len(opts))
                n = opts[k]
                self.path.shape[key] = n
        return Bs([z3.BitVec("%s#%d" % (name, i), 8) for i in range(n)])

    # --- group ------------------------------------------------------------
    def group_index(self) -> int:
        if self.cfg.concrete is not None:
            return int(self.cfg.concrete.get("GroupIndex", 0))
        if "GroupIndex" in self.path.shape:
            return self.path.shape["GroupIndex"]
        opts = self.cfg.group_index_options
        k = self.path.choose(len(opts))
        self.path.shape["GroupIndex"] = opts[k]
        return opts[k]

    def group_size(self) -> U:
        if self.cfg.group_size is not None:
            return U(self.cfg.group_size)
        gi = self.group_index()
        v = self.uvar("GroupSize")
        if not v.concrete and "GroupSize" not in self._assumed:
            self._assumed.add("GroupSize")
            self.path.assume(z3.And(z3.UGT(v.e, z3.BitVecVal(gi, 64)), z3.ULE(v.e, z3.BitVecVal(16, 64))))
        return v

    # --- transaction fields -----------------------------------------------
    def txn_field(self, fieldname: str, g: Optional[int] = None, idx: Optional[int] = None,
                  inner: Optional[str] = None):
        """Field of group transaction g (None = current). idx for array fields (concrete)."""
        spec = LS.TXN_FIELDS.get(fieldname)
        if spec is None:
            raise HarnessError("unknown txn field %s" % fieldname)
        minv, ty, arr = spec
        if inner is not None:
            prefix = inner
        else:
            if g is None:
                g = self.group_index()
            else:
                # reading a group member requires it to exist
                gs = self.group_size()
                self.path.fail_if(b_not(_ult(g, gs)), "range:gtxn index beyond group")
            prefix = "g%d" % g
        cur = inner is None and g == self.group_index()
        if fieldname == "GroupIndex" and inner is None:
            return U(g)
        if fieldname == "TypeEnum" and cur and self.cfg.mode == "A":
            return U(6)
        if fieldname == "Type" and cur and self.cfg.mode == "A":
            return Bs(b"appl")
        if arr:
            if idx is None:
                raise HarnessError("array field %s without index" % fieldname)
            cname, cmax = ARRAY_COUNT[fieldname]
            cnt = self.uvar("%s.%s" % (prefix, cname), cmax)
            if fieldname in ("Accounts", "Applications"):
                # index 0 is the sender / the current app; valid indices 0..count
                self.path.fail_if(b_not(_ule(idx, cnt)), "range:%s index beyond count" % fieldname)
                if idx == 0:
                    if fieldname == "Accounts":
                        return self.txn_field("Sender", g, None, inner)
                    return self.txn_field("ApplicationID", g, None, inner)
            else:
                self.path.fail_if(b_not(_ult(idx, cnt)), "range:%s index beyond count" % fieldname)
            name = "%s.%s[%d]" % (prefix, fieldname, idx)
        else:
            name = "%s.%s" % (prefix, fieldname)
        if ty == "U":
            bound = None
            if fieldname == "OnCompletion":
                bound = 5
            elif fieldname in ("NumAppArgs", "NumAccounts", "NumAssets", "NumApplications", "NumLogs",
                               "NumApprovalProgramPages", "NumClearStateProgramPages"):
                bound = {v[0]: v[1] for v in ARRAY_COUNT.values()}[fieldname]
            elif fieldname == "TypeEnum":
                bound = 6
            return self.uvar(name, bound)
        fl = 32 if fieldname in ADDR_FIELDS else None
        return self.bvar(name, fl)

    def global_field(self, fieldname: str):
        spec = LS.GLOBAL_FIELDS.get(fieldname)
        if spec is None:
            raise HarnessError("unknown global field %s" % fieldname)
        if fieldname == "GroupSize":
            return self.group_size()
        if fieldname == "ZeroAddress":
            return Bs(bytes(32))
        if fieldname == "LogicSigVersion":
            return self.uvar("global.LogicSigVersion")
        if spec[1] == "U":
            return self.uvar("global." + fieldname)
        return self.bvar("global." + fieldname, GLOBAL_LEN.get(fieldname))

    def arg(self, i: int) -> Bs:
        cnt = self.uvar("NumArgs", 255)
        self.path.fail_if(b_not(_ult(i, cnt)), "range:arg index beyond count")
        return self.bvar("arg[%d]" % i)

    # --- application state --------------------------------------------------
    def _initial_state(self, name: str):
        """initial (exists, value) of a state cell: fork over absent / uint / bytes"""
        c = self.cfg.concrete
        if c is not None:
            v = c.get(name)
            if v is None:
                return None
            return U(v) if isinstance(v, int) else Bs(list(v))
        key = "kind:" + name
        if key in self.path.shape:
            kind = self.path.shape[key]
        else:
            kinds = self.cfg.state_kinds
            kind = kinds[self.path.choose(len(kinds))]
            self.path.shape[key] = kind
        if kind == "absent":
            return None
        if kind == "uint":
            return self.uvar(name + ".u")
        return self.bvar(name + ".b")

    @staticmethod
    def _ckey(key) -> bytes:
        if not isinstance(key, Bs) or not key.concrete:
            raise HarnessError("symbolic state key")
        return key.as_bytes()

    def _is_current_app(self, app: U) -> bool:
        """only app id 0 (= current application) is modelled as shared with app_global_get"""
        return app.concrete and app.e == 0

    def global_get(self, key):
        k = self._ckey(key)
        if k not in self.gstate:
            self.gstate[k] = self._initial_state("gs[%s]" % k.hex())
        v = self.gstate[k]
        return U(0) if v is None else v

    def global_get_ex(self, app: U, key):
        """-> (value, exists U)"""
        k = self._ckey(key)
        if self._is_current_app(app):
            if k not in self.gstate:
                self.gstate[k] = self._initial_state("gs[%s]" % k.hex())
            v = self.gstate[k]
        else:
            tag = _tag(app)
            v = self._initial_state("gsx[%s][%s]" % (tag, k.hex()))
        if v is None:
            return U(0), U(0)
        return v, U(1)

    def global_put(self, key, val):
        k = self._ckey(key)
        self.gstate[k] = val
        self.path.effects.append(("gput", k, val))

    def global_del(self, key):
        k = self._ckey(key)
        self.gstate[k] = None
        self.path.effects.append(("gdel", k))

    def _acct_tag(self, acct) -> str:
        return _tag(acct)

    def local_get(self, acct, key):
        k = self._ckey(key)
        a = self._acct_tag(acct)
        if (a, k) not in self.lstate:
            self.lstate[(a, k)] = self._initial_state("ls[%s][%s]" % (a, k.hex()))
        v = self.lstate[(a, k)]
        return U(0) if v is None else v

    def local_get_ex(self, acct, app: U, key):
        k = self._ckey(key)
        a = self._acct_tag(acct)
        if self._is_current_app(app):
            if (a, k) not in self.lstate:
                self.lstate[(a, k)] = self._initial_state("ls[%s][%s]" % (a, k.hex()))
            v = self.lstate[(a, k)]
        else:
            v = self._initial_state("lsx[%s][%s][%s]" % (a, _tag(app), k.hex()))
        if v is None:
            return U(0), U(0)
        return v, U(1)

    def local_put(self, acct, key, val):
        k = self._ckey(key)
        a = self._acct_tag(acct)
        self.lstate[(a, k)] = val
        self.path.effects.append(("lput", a, k, val))

    def local_del(self, acct, key):
        k = self._ckey(key)
        a = self._acct_tag(acct)
        self.lstate[(a, k)] = None
        self.path.effects.append(("ldel", a, k))

    # --- logs -----------------------------------------------------------------
    def log(self, v):
        self.log_count += 1
        self.path.fail_if(self.log_count > 32, "range:too many log calls")
        self.path.effects.append(("log", v))

    # --- "maybe" ops: uninterpreted by syntactic arguments -----------------------
    def maybe(self, op: str, fieldname: str, ty: str, args: List[Any]):
        """-> (value, exists) ; value is 0 when absent. ty in U/B."""
        tag = "%s.%s(%s)" % (op, fieldname, ",".join(_tag(a) for a in args))
        ex = self.uvar(tag + ".exists", 1)
        if ty == "U":
            v = self.uvar(tag + ".val")
        else:
            v = self.bvar(tag + ".val", 32 if ("Addr" in fieldname or fieldname in (
                "AssetManager", "AssetReserve", "AssetFreeze", "AssetClawback", "AssetCreator",
                "AppCreator", "AppAddress", "AssetMetadataHash")) else None)
        if self.cfg.concrete is not None:
            return v, ex
        return v, ex

    def uquery(self, op: str, args: List[Any]) -> U:
        return self.uvar("%s(%s)" % (op, ",".join(_tag(a) for a in args)))

    # --- inner transactions ----------------------------------------------------------
    def itxn_begin(self):
        self.path.fail_if(self.itxn_cur is not None, "itxn:itxn_begin without itxn_submit")
        self.itxn_group = []
        self.itxn_cur = []

    def itxn_field(self, fieldname: str, val):
        self.path.fail_if(self.itxn_cur is None, "itxn:itxn_field without itxn_begin")
        self.itxn_cur.append((fieldname, val))

    def itxn_next(self):
        self.path.fail_if(self.itxn_cur is None, "itxn:itxn_next without itxn_begin")
        self.itxn_group.append(self.itxn_cur)
        self.itxn_cur = []
        self.path.fail_if(len(self.itxn_group) >= 16, "itxn:too many inner transactions")

    def itxn_submit(self):
        self.path.fail_if(self.itxn_cur is None, "itxn:itxn_submit without itxn_begin")
        self.itxn_group.append(self.itxn_cur)
        self.itxn_cur = None
        self.itxn_submits += 1
        self.last_group_size = len(self.itxn_group)
        self.path.effects.append(("itxn_submit", [list(t) for t in self.itxn_group]))

    def itxn_read(self, fieldname: str, idx: Optional[int] = None, g: Optional[int] = None):
        self.path.fail_if(self.itxn_submits == 0, "itxn:no inner transaction available")
        if g is None:
            g = self.last_group_size - 1
        else:
            self.path.fail_if(g >= self.last_group_size, "range:gitxn index beyond group")
        return self.txn_field(fieldname, None, idx, inner="itxn%d.%d" % (self.itxn_submits, g))


def _ult(a, b):
    """a < b for a: int, b: U"""
    if isinstance(a, U):
        a = a.e
    be = b.e if isinstance(b, U) else b
    if isinstance(a, int) and isinstance(be, int):
        return a < be
    return z3.ULT(z64(a), z64(be))


def _ule(a, b):
    if isinstance(a, U):
        a = a.e
    be = b.e if isinstance(b, U) else b
    if isinstance(a, int) and isinstance(be, int):
        return a <= be
    return z3.ULE(z64(a), z64(be))


def _tag(v) -> str:
    """syntactic tag of a value used to name uninterpreted environment answers"""
    if isinstance(v, U):
        if v.concrete:
            return "u%d" % v.e
        return "u{%s}" % z3.simplify(v.e).sexpr()
    if isinstance(v, Bs):
        if v.concrete:
            return "b" + v.as_bytes().hex()
        return "b{%s}" % ",".join(str(x) if isinstance(x, int) else z3.simplify(x).sexpr() for x in v.bs)
    if isinstance(v, Ob):
        return "o{%s}" % v.t.sexpr()
    return str(v)
