"""Value domain of SymAVM: uint64 and byte strings over z3 terms, with Python-level constant
folding (a Python int stands for a concrete value; z3 terms only where something is symbolic).

U(e)   : uint64, e is a Python int in [0, 2^64) or a z3 BitVec(64); optional .b = z3 Bool with
         e == ite(b, 1, 0) (keeps path conditions small)
Bs(bs) : byte string with CONCRETE length: list whose items are Python ints (0..255) or z3 BitVec(8)
Ob(t)  : opaque byte string (value-dependent length, e.g. results of byte-math): z3 term of the
         uninterpreted sort BytesSort; only usable by byte-math, comparison, log and len (as UF)
"""
from typing import Any, List, Optional, Union

import z3

M64 = (1 << 64) - 1

BytesSort = z3.DeclareSort("Bytes")


class U:
    __slots__ = ("e", "b", "uninit")

    def __init__(self, e, b=None):
        if isinstance(e, bool):
            e = int(e)
        self.e = e
        self.b = b
        self.uninit = False

    @property
    def concrete(self) -> bool:
        return isinstance(self.e, int)

    def z(self):
        return z3.BitVecVal(self.e, 64) if isinstance(self.e, int) else self.e

    def nz(self):
        """z3 Bool / Python bool: value != 0"""
        if isinstance(self.e, int):
            return self.e != 0
        if self.b is not None:
            return self.b
        return self.e != 0

    def __repr__(self):
        return "U(%s)" % (self.e,)


class Bs:
    __slots__ = ("bs",)

    def __init__(self, bs):
        if isinstance(bs, (bytes, bytearray)):
            bs = list(bs)
        self.bs = bs

    def __len__(self):
        return len(self.bs)

    @property
    def concrete(self) -> bool:
        return all(isinstance(x, int) for x in self.bs)

    def as_bytes(self) -> bytes:
        return bytes(self.bs)

    def zbytes(self):
        return [z3.BitVecVal(x, 8) if isinstance(x, int) else x for x in self.bs]

    def __repr__(self):
        if self.concrete:
            return "Bs(%r)" % (bytes(self.bs),)
        return "Bs(len=%d)" % len(self.bs)


class Ob:
    __slots__ = ("t",)

    def __init__(self, t):
        self.t = t

    def __repr__(self):
        return "Ob(%s)" % (self.t,)


def from_bool(b) -> U:
    if isinstance(b, bool):
        return U(int(b))
    b = z3.simplify(b)
    if z3.is_true(b):
        return U(1)
    if z3.is_false(b):
        return U(0)
    return U(z3.If(b, z3.BitVecVal(1, 64), z3.BitVecVal(0, 64)), b)


def cint(e) -> Optional[int]:
    if isinstance(e, int):
        return e
    if z3.is_bv_value(e):
        return e.as_long()
    return None


def norm(e):
    """fold a z3 BitVec term to a Python int when it is a numeral"""
    if isinstance(e, int):
        return e
    if z3.is_bv_value(e):
        return e.as_long()
    return e


def z64(e):
    return z3.BitVecVal(e, 64) if isinstance(e, int) else e


def z8(e):
    return z3.BitVecVal(e, 8) if isinstance(e, int) else e


def bytes_to_u64_term(bs: List[Any]):
    """big-endian bytes (len <= 8) -> uint64 (int or z3 term)"""
    if all(isinstance(x, int) for x in bs):
        return int.from_bytes(bytes(bs), "big") if bs else 0
    if not bs:
        return 0
    t = z3.Concat(*[z8(x) for x in bs]) if len(bs) > 1 else z8(bs[0])
    if len(bs) < 8:
        t = z3.ZeroExt(64 - 8 * len(bs), t)
    return t


def u64_to_bytes(e, n: int = 8) -> List[Any]:
    """uint64 -> n big-endian bytes (lowest n bytes)"""
    if isinstance(e, int):
        return list((e & ((1 << (8 * n)) - 1)).to_bytes(n, "big"))
    out = []
    for i in range(n):
        hi = 8 * (n - i) - 1
        out.append(norm(z3.simplify(z3.Extract(hi, hi - 7, e))))
    return out


def bytes_eq(a: List[Any], b: List[Any]):
    """z3 Bool / Python bool: equal byte lists"""
    if len(a) != len(b):
        return False
    conj = []
    for x, y in zip(a, b):
        if isinstance(x, int) and isinstance(y, int):
            if x != y:
                return False
            continue
        if (not isinstance(x, int)) and (not isinstance(y, int)) and z3.eq(x, y):
            continue
        conj.append(z8(x) == z8(y))
    if not conj:
        return True
    return z3.And(*conj) if len(conj) > 1 else conj[0]


def ite_byte(c, x, y):
    if isinstance(c, bool):
        return x if c else y
    if isinstance(x, int) and isinstance(y, int) and x == y:
        return x
    return z3.If(c, z8(x), z8(y))


def ite64(c, x, y):
    if isinstance(c, bool):
        return x if c else y
    if isinstance(x, int) and isinstance(y, int) and x == y:
        return x
    return z3.If(c, z64(x), z64(y))


def b_and(*cs):
    out = []
    for c in cs:
        if isinstance(c, bool):
            if not c:
                return False
            continue
        out.append(c)
    if not out:
        return True
    return z3.And(*out) if len(out) > 1 else out[0]


def b_or(*cs):
    out = []
    for c in cs:
        if isinstance(c, bool):
            if c:
                return True
            continue
        out.append(c)
    if not out:
        return False
    return z3.Or(*out) if len(out) > 1 else out[0]


def b_not(c):
    if isinstance(c, bool):
        return not c
    return z3.Not(c)


# ---------------------------------------------------------------------------
# uninterpreted functions (stubs); all listed in the evidence as such

_BV64 = z3.BitVecSort(64)
UF_EXP = z3.Function("uf_exp", _BV64, _BV64, _BV64)
UF_EXP_FAIL = z3.Function("uf_exp_overflows", _BV64, _BV64, z3.BoolSort())
UF_SQRT = z3.Function("uf_sqrt", _BV64, _BV64)
UF_BITLEN = z3.Function("uf_bitlen", _BV64, _BV64)
UF_OB_LEN = z3.Function("uf_ob_len", BytesSort, _BV64)
UF_OB_BITLEN = z3.Function("uf_ob_bitlen", BytesSort, _BV64)

_mk_cache = {}


def lift(v) -> Any:
    """Bs/Ob -> term of BytesSort"""
    if isinstance(v, Ob):
        return v.t
    n = len(v.bs)
    f = _mk_cache.get(n)
    if f is None:
        f = z3.Function("mkbytes_%d" % n, *([z3.BitVecSort(8)] * n + [BytesSort])) if n else z3.Const("mkbytes_0", BytesSort)
        _mk_cache[n] = f
    if n == 0:
        return f
    return f(*v.zbytes())


_uf_cache = {}


def uf(name: str, arg_sorts, res_sort):
    key = (name, tuple(str(s) for s in arg_sorts), str(res_sort))
    f = _uf_cache.get(key)
    if f is None:
        f = z3.Function(name, *(list(arg_sorts) + [res_sort]))
        _uf_cache[key] = f
    return f
