"""Path exploration engine shared by SymAVM (emitted TEAL) and the reference evaluators.

Exploration is DFS over *decision prefixes* with re-execution: a path is identified by the
list of decisions taken at its fork points; when a path meets a new fork it takes the
first feasible alternative and schedules the others.  No interpreter state is ever cloned.
Feasibility of every alternative is decided by z3 on the current path condition.
"""
import time
from dataclasses import dataclass, field
from typing import Any, Callable, Dict, List, Optional, Tuple

import z3


class PathEnd(Exception):
    """Raised to terminate the current path with an already-built outcome (or none)."""

    def __init__(self, outcome=None):
        self.outcome = outcome


class HarnessError(Exception):
    """The machinery cannot decide (unsupported construct, inconsistent model...)."""


@dataclass
class Outcome:
    pc: List[Any]                     # path condition (list of z3 Bool)
    verdict: str                      # "return" | "fail" | "cut"
    kind: str = ""                    # for fail: err/assert/arith/range/... or discipline kinds; for cut: which bound
    ret: Any = None                   # uint64 value for "return"
    effects: List[Tuple] = field(default_factory=list)
    extra: Dict[str, Any] = field(default_factory=dict)   # stacks at routine exits, final scratch, ...
    shape: Dict[str, Any] = field(default_factory=dict)   # length/shape decisions of the context
    decisions: Tuple = ()

    def is_discipline(self) -> bool:
        return self.verdict == "fail" and self.kind.startswith("D:")


class Stats:
    def __init__(self):
        self.solver_calls = 0
        self.solver_time = 0.0
        self.unknown = 0
        self.forks = 0
        self.steps = 0
        self.paths = 0

    def add(self, other: "Stats"):
        for k in ("solver_calls", "solver_time", "unknown", "forks", "steps", "paths"):
            setattr(self, k, getattr(self, k) + getattr(other, k))

    def as_dict(self):
        return {k: (round(getattr(self, k), 4) if k == "solver_time" else getattr(self, k))
                for k in ("solver_calls", "solver_time", "unknown", "forks", "steps", "paths")}


class Engine:
    def __init__(self, timeout_ms: int = 10000, max_paths: int = 4000):
        self.solver = z3.Solver()
        self.solver.set("timeout", timeout_ms)
        self.timeout_ms = timeout_ms
        self.max_paths = max_paths
        self.stats = Stats()

    # --- solver helpers -------------------------------------------------
    def check(self, *extra) -> str:
        """'sat' | 'unsat' | 'unknown' for (current solver stack AND extra)."""
        t0 = time.time()
        r = self.solver.check(*extra)
        self.stats.solver_calls += 1
        self.stats.solver_time += time.time() - t0
        s = str(r)
        if s == "unknown":
            self.stats.unknown += 1
        return s

    def explore(self, run_fn: Callable[["Path"], Any], assumptions: List[Any] = (),
                shape: Optional[Dict[str, Any]] = None) -> List[Outcome]:
        """run_fn(path) executes one path and returns an Outcome (or raises PathEnd)."""
        outcomes: List[Outcome] = []
        work: List[Tuple] = [()]
        while work:
            prefix = work.pop()
            if self.stats.paths >= self.max_paths:
                raise HarnessError("path budget exceeded (%d)" % self.max_paths)
            self.stats.paths += 1
            self.solver.push()
            path = Path(self, prefix, list(assumptions), dict(shape or {}), outcomes)
            for a in assumptions:
                self.solver.add(a)
            try:
                try:
                    out = run_fn(path)
                except PathEnd as pe:
                    out = pe.outcome
                if out is not None:
                    out.pc = list(path.pc)
                    out.shape = dict(path.shape)
                    out.decisions = tuple(path.taken)
                    outcomes.append(out)
            finally:
                self.solver.pop()
            work.extend(path.scheduled)
        return outcomes


class Path:
    def __init__(self, eng: Engine, prefix: Tuple, pc: List[Any], shape: Dict[str, Any],
                 outcomes: List[Outcome]):
        self.eng = eng
        self.prefix = prefix
        self.ptr = 0
        self.taken: List[Any] = []
        self.pc = pc
        self.shape = shape            # context shape decisions (name -> concrete choice)
        self.scheduled: List[Tuple] = []
        self.outcomes = outcomes
        self.effects: List[Tuple] = []

    @property
    def replaying(self) -> bool:
        return self.ptr < len(self.prefix)

    def assume(self, cond):
        self.pc.append(cond)
        self.eng.solver.add(cond)

    # --- forks -----------------------------------------------------------
    def branch(self, cond) -> bool:
        """Fork on a z3 Bool (or Python bool)."""
        if isinstance(cond, bool):
            return cond
        cond = z3.simplify(cond)
        if z3.is_true(cond):
            return True
        if z3.is_false(cond):
            return False
        if self.replaying:
            d = self.prefix[self.ptr]
            self.ptr += 1
            self.taken.append(d)
            self.assume(cond if d else z3.Not(cond))
            return bool(d)
        t = self.eng.check(cond)
        f = self.eng.check(z3.Not(cond))
        # unknown counts as feasible (the obligations stay conditional on the path condition)
        tf = t != "unsat"
        ff = f != "unsat"
        if tf and ff:
            self.eng.stats.forks += 1
            self.scheduled.append(tuple(self.taken) + (False,))
            d = True
        elif tf:
            d = True
        elif ff:
            d = False
        else:
            raise PathEnd(None)   # path condition itself infeasible
        self.ptr += 1
        self.taken.append(d)
        self.assume(cond if d else z3.Not(cond))
        return d

    def choose(self, n: int, conds: Optional[List[Any]] = None) -> int:
        """Nondeterministic choice among n alternatives; conds[i] (optional) is the constraint
        that goes with alternative i (infeasible alternatives are pruned)."""
        if n <= 0:
            raise PathEnd(None)
        if n == 1 and conds is None:
            return 0
        if self.replaying:
            d = self.prefix[self.ptr]
            self.ptr += 1
            self.taken.append(d)
            if conds is not None:
                self.assume(conds[d])
            return d
        feas = []
        for i in range(n):
            if conds is None:
                feas.append(i)
            else:
                c = conds[i]
                if isinstance(c, bool):
                    if c:
                        feas.append(i)
                    continue
                if self.eng.check(c) != "unsat":
                    feas.append(i)
        if not feas:
            raise PathEnd(None)
        for i in feas[1:]:
            self.scheduled.append(tuple(self.taken) + (i,))
        if len(feas) > 1:
            self.eng.stats.forks += len(feas) - 1
        d = feas[0]
        self.ptr += 1
        self.taken.append(d)
        if conds is not None and not isinstance(conds[d], bool):
            self.assume(conds[d])
        return d

    def fail_if(self, cond, kind: str, extra: Optional[Dict] = None):
        """The current operation fails when cond holds.  Records a failing outcome for the
        feasible part and continues under NOT cond."""
        if isinstance(cond, bool):
            if cond:
                raise PathEnd(self._fail_outcome(kind, extra))
            return
        cond = z3.simplify(cond)
        if z3.is_false(cond):
            return
        if z3.is_true(cond):
            raise PathEnd(self._fail_outcome(kind, extra))
        if self.replaying:
            # already recorded by the path that scheduled this prefix
            self.assume(z3.Not(cond))
            return
        if self.eng.check(cond) != "unsat":
            o = self._fail_outcome(kind, extra)
            o.pc = list(self.pc) + [cond]
            o.shape = dict(self.shape)
            o.decisions = tuple(self.taken) + ("F",)
            self.outcomes.append(o)
        if self.eng.check(z3.Not(cond)) == "unsat":
            raise PathEnd(None)
        self.assume(z3.Not(cond))

    def _fail_outcome(self, kind, extra=None) -> Outcome:
        return Outcome(pc=[], verdict="fail", kind=kind, effects=list(self.effects),
                       extra=dict(extra or {}))

    def fail(self, kind: str, extra=None):
        if self.replaying:
            # cannot happen: a definite failure ends the path, nothing is scheduled after it
            pass
        raise PathEnd(self._fail_outcome(kind, extra))

    def cut(self, kind: str):
        raise PathEnd(Outcome(pc=[], verdict="cut", kind=kind, effects=list(self.effects)))
