"""Independent TEAL v2..v10 language table (written from the public TEAL specification,
NOT derived from pyteal/ir/ops.py).

op -> OpSpec(min_version, modes, immediates, pops, pushes)
  modes: "SA" (both), "A" (application only), "S" (signature only)
  immediates: list of kinds
      u8        unsigned 8-bit integer
      i8        signed 8-bit integer (frame_dig / frame_bury)
      label     branch / callsub target
      int       `int` pseudo-op argument (uint64 literal or named constant) / pushint
      bytes     byte-string literal (one or two tokens: `base64 AA==`, `0x..`, "str")
      addr      address literal
      method    method signature string literal
      intblock / byteblock   variable-length constant blocks
      f:<group> field name of the given group
  pops / pushes: strings over {U (uint64), B (bytes), A (any)}; for ops with data-dependent
      shapes (dupn, popn, proto, callsub, retsub, ...) they are None and handled specially.
"""
from dataclasses import dataclass
from typing import Dict, List, Optional, Tuple


@dataclass(frozen=True)
class OpSpec:
    name: str
    minv: int
    modes: str
    imms: Tuple[str, ...]
    pops: Optional[str]
    pushes: Optional[str]


OPS: Dict[str, OpSpec] = {}


def _op(name, minv, modes, imms, pops, pushes):
    assert name not in OPS, name
    OPS[name] = OpSpec(name, minv, modes, tuple(imms), pops, pushes)


SA, A_, S_ = "SA", "A", "S"

# --- v1/v2 core
_op("err", 1, SA, [], "", "")
_op("sha256", 1, SA, [], "B", "B")
_op("keccak256", 1, SA, [], "B", "B")
_op("sha512_256", 1, SA, [], "B", "B")
_op("ed25519verify", 1, SA, [], "BBB", "U")
for _n in ["+", "-", "/", "*", "<", ">", "<=", ">=", "&&", "||", "%", "|", "&", "^"]:
    _op(_n, 1, SA, [], "UU", "U")
_op("==", 1, SA, [], "AA", "U")
_op("!=", 1, SA, [], "AA", "U")
_op("!", 1, SA, [], "U", "U")
_op("len", 1, SA, [], "B", "U")
_op("itob", 1, SA, [], "U", "B")
_op("btoi", 1, SA, [], "B", "U")
_op("~", 1, SA, [], "U", "U")
_op("mulw", 1, SA, [], "UU", "UU")
_op("addw", 2, SA, [], "UU", "UU")
_op("intcblock", 1, SA, ["intblock"], "", "")
_op("intc", 1, SA, ["u8"], "", "U")
for _i in range(4):
    _op("intc_%d" % _i, 1, SA, [], "", "U")
_op("bytecblock", 1, SA, ["byteblock"], "", "")
_op("bytec", 1, SA, ["u8"], "", "B")
for _i in range(4):
    _op("bytec_%d" % _i, 1, SA, [], "", "B")
# assembler pseudo-ops
_op("int", 1, SA, ["int"], "", "U")
_op("byte", 1, SA, ["bytes"], "", "B")
_op("addr", 1, SA, ["addr"], "", "B")
_op("method", 1, SA, ["method"], "", "B")
_op("arg", 1, S_, ["u8"], "", "B")
for _i in range(4):
    _op("arg_%d" % _i, 1, S_, [], "", "B")
_op("txn", 1, SA, ["f:txn"], "", "A")
_op("global", 1, SA, ["f:global"], "", "A")
_op("gtxn", 1, SA, ["u8", "f:txn"], "", "A")
_op("load", 1, SA, ["u8"], "", "A")
_op("store", 1, SA, ["u8"], "A", "")
_op("txna", 2, SA, ["f:txna", "u8"], "", "A")
_op("gtxna", 2, SA, ["u8", "f:txna", "u8"], "", "A")
_op("bnz", 1, SA, ["label"], "U", "")
_op("bz", 2, SA, ["label"], "U", "")
_op("b", 2, SA, ["label"], "", "")
_op("return", 2, SA, [], "U", "")
_op("pop", 1, SA, [], "A", "")
_op("dup", 1, SA, [], "A", "AA")
_op("dup2", 2, SA, [], "AA", "AAAA")
_op("concat", 2, SA, [], "BB", "B")
_op("substring", 2, SA, ["u8", "u8"], "B", "B")
_op("substring3", 2, SA, [], "BUU", "B")
_op("balance", 2, A_, [], "A", "U")
_op("app_opted_in", 2, A_, [], "AU", "U")
_op("app_local_get", 2, A_, [], "AB", "A")
_op("app_local_get_ex", 2, A_, [], "AUB", "AU")
_op("app_global_get", 2, A_, [], "B", "A")
_op("app_global_get_ex", 2, A_, [], "UB", "AU")
_op("app_local_put", 2, A_, [], "ABA", "")
_op("app_global_put", 2, A_, [], "BA", "")
_op("app_local_del", 2, A_, [], "AB", "")
_op("app_global_del", 2, A_, [], "B", "")
_op("asset_holding_get", 2, A_, ["f:asset_holding"], "AU", "AU")
_op("asset_params_get", 2, A_, ["f:asset_params"], "U", "AU")
# --- v3
_op("gtxns", 3, SA, ["f:txn"], "U", "A")
_op("gtxnsa", 3, SA, ["f:txna", "u8"], "U", "A")
_op("assert", 3, SA, [], "U", "")
_op("dig", 3, SA, ["u8"], None, None)
_op("swap", 3, SA, [], "AA", "AA")
_op("select", 3, SA, [], "AAU", "A")
_op("getbit", 3, SA, [], "AU", "U")
_op("setbit", 3, SA, [], "AUU", "A")
_op("getbyte", 3, SA, [], "BU", "U")
_op("setbyte", 3, SA, [], "BUU", "B")
_op("min_balance", 3, A_, [], "A", "U")
_op("pushbytes", 3, SA, ["bytes"], "", "B")
_op("pushint", 3, SA, ["int"], "", "U")
# --- v4
_op("shl", 4, SA, [], "UU", "U")
_op("shr", 4, SA, [], "UU", "U")
_op("sqrt", 4, SA, [], "U", "U")
_op("bitlen", 4, SA, [], "A", "U")
_op("exp", 4, SA, [], "UU", "U")
_op("divmodw", 4, SA, [], "UUUU", "UUUU")
_op("expw", 4, SA, [], "UU", "UU")
for _n in ["b+", "b-", "b/", "b*", "b%", "b|", "b&", "b^"]:
    _op(_n, 4, SA, [], "BB", "B")
for _n in ["b<", "b>", "b<=", "b>=", "b==", "b!="]:
    _op(_n, 4, SA, [], "BB", "U")
_op("b~", 4, SA, [], "B", "B")
_op("bzero", 4, SA, [], "U", "B")
_op("gload", 4, A_, ["u8", "u8"], "", "A")
_op("gloads", 4, A_, ["u8"], "U", "A")
_op("gaid", 4, A_, ["u8"], "", "U")
_op("gaids", 4, A_, [], "U", "U")
_op("callsub", 4, SA, ["label"], None, None)
_op("retsub", 4, SA, [], None, None)
# --- v5
_op("ecdsa_verify", 5, SA, ["f:ecdsa"], "BBBBB", "U")
_op("ecdsa_pk_decompress", 5, SA, ["f:ecdsa"], "B", "BB")
_op("ecdsa_pk_recover", 5, SA, ["f:ecdsa"], "BUBB", "BB")
_op("loads", 5, SA, [], "U", "A")
_op("stores", 5, SA, [], "UA", "")
_op("cover", 5, SA, ["u8"], None, None)
_op("uncover", 5, SA, ["u8"], None, None)
_op("extract", 5, SA, ["u8", "u8"], "B", "B")
_op("extract3", 5, SA, [], "BUU", "B")
_op("extract_uint16", 5, SA, [], "BU", "U")
_op("extract_uint32", 5, SA, [], "BU", "U")
_op("extract_uint64", 5, SA, [], "BU", "U")
_op("app_params_get", 5, A_, ["f:app_params"], "U", "AU")
_op("log", 5, A_, [], "B", "")
_op("itxn_begin", 5, A_, [], "", "")
_op("itxn_field", 5, A_, ["f:itxn_field"], "A", "")
_op("itxn_submit", 5, A_, [], "", "")
_op("itxn", 5, A_, ["f:txn"], "", "A")
_op("itxna", 5, A_, ["f:txna", "u8"], "", "A")
_op("txnas", 5, SA, ["f:txna"], "U", "A")
_op("gtxnas", 5, SA, ["u8", "f:txna"], "U", "A")
_op("gtxnsas", 5, SA, ["f:txna"], "UU", "A")
_op("args", 5, S_, [], "U", "B")
# --- v6
_op("bsqrt", 6, SA, [], "B", "B")
_op("divw", 6, SA, [], "UUU", "U")
_op("itxn_next", 6, A_, [], "", "")
_op("itxnas", 6, A_, ["f:txna"], "U", "A")
_op("gitxn", 6, A_, ["u8", "f:txn"], "", "A")
_op("gitxna", 6, A_, ["u8", "f:txna", "u8"], "", "A")
_op("gitxnas", 6, A_, ["u8", "f:txna"], "U", "A")
_op("gloadss", 6, A_, [], "UU", "A")
_op("acct_params_get", 6, A_, ["f:acct_params"], "A", "AU")
# --- v7
_op("replace2", 7, SA, ["u8"], "BB", "B")
_op("replace3", 7, SA, [], "BUB", "B")
_op("base64_decode", 7, SA, ["f:base64"], "B", "B")
_op("json_ref", 7, SA, ["f:json_ref"], "BB", "A")
_op("ed25519verify_bare", 7, SA, [], "BBB", "U")
_op("sha3_256", 7, SA, [], "B", "B")
_op("vrf_verify", 7, SA, ["f:vrf"], "BBB", "BU")
_op("block", 7, SA, ["f:block"], "U", "A")
# --- v8
_op("box_create", 8, A_, [], "BU", "U")
_op("box_extract", 8, A_, [], "BUU", "B")
_op("box_replace", 8, A_, [], "BUB", "")
_op("box_del", 8, A_, [], "B", "U")
_op("box_len", 8, A_, [], "B", "UU")
_op("box_get", 8, A_, [], "B", "BU")
_op("box_put", 8, A_, [], "BB", "")
_op("popn", 8, SA, ["u8"], None, None)
_op("dupn", 8, SA, ["u8"], None, None)
_op("bury", 8, SA, ["u8"], None, None)
_op("frame_dig", 8, SA, ["i8"], None, None)
_op("frame_bury", 8, SA, ["i8"], None, None)
_op("proto", 8, SA, ["u8", "u8"], None, None)
_op("pushbytess", 8, SA, ["byteblock"], None, None)
_op("pushints", 8, SA, ["intblock"], None, None)
_op("switch", 8, SA, ["labels"], "U", "")
_op("match", 8, SA, ["labels"], None, None)
# --- v10
_op("box_splice", 10, A_, [], "BUUB", "")
_op("box_resize", 10, A_, [], "BU", "")
_op("ec_add", 10, SA, ["f:ec"], "BB", "B")
_op("ec_scalar_mul", 10, SA, ["f:ec"], "BB", "B")
_op("ec_pairing_check", 10, SA, ["f:ec"], "BB", "U")
_op("ec_multi_scalar_mul", 10, SA, ["f:ec"], "BB", "B")
_op("ec_subgroup_check", 10, SA, ["f:ec"], "B", "U")
_op("ec_map_to", 10, SA, ["f:ec"], "B", "B")

# ---------------------------------------------------------------------------
# Field groups: name -> (min_version, type, is_array)

U, B = "U", "B"

TXN_FIELDS: Dict[str, Tuple[int, str, bool]] = {}


def _tf(names, minv, ty, arr=False):
    for n in names.split():
        TXN_FIELDS[n] = (minv, ty, arr)


_tf("Sender Note Lease Receiver CloseRemainderTo VotePK SelectionPK Type AssetSender AssetReceiver AssetCloseTo TxID", 1, B)
_tf("Fee FirstValid LastValid Amount VoteFirst VoteLast VoteKeyDilution TypeEnum XferAsset AssetAmount GroupIndex", 1, U)
_tf("FirstValidTime", 7, U)
_tf("ApplicationID OnCompletion NumAppArgs NumAccounts ConfigAsset ConfigAssetTotal ConfigAssetDecimals ConfigAssetDefaultFrozen FreezeAsset FreezeAssetFrozen", 2, U)
_tf("ApprovalProgram ClearStateProgram RekeyTo ConfigAssetUnitName ConfigAssetName ConfigAssetURL ConfigAssetMetadataHash ConfigAssetManager ConfigAssetReserve ConfigAssetFreeze ConfigAssetClawback FreezeAssetAccount", 2, B)
_tf("ApplicationArgs Accounts", 2, B, True)
_tf("Assets Applications", 3, U, True)
_tf("NumAssets NumApplications GlobalNumUint GlobalNumByteSlice LocalNumUint LocalNumByteSlice", 3, U)
_tf("ExtraProgramPages", 4, U)
_tf("Nonparticipation NumLogs CreatedAssetID CreatedApplicationID", 5, U)
_tf("Logs", 5, B, True)
_tf("LastLog StateProofPK", 6, B)
_tf("ApprovalProgramPages ClearStateProgramPages", 7, B, True)
_tf("NumApprovalProgramPages NumClearStateProgramPages", 7, U)

GLOBAL_FIELDS: Dict[str, Tuple[int, str]] = {
    "MinTxnFee": (1, U), "MinBalance": (1, U), "MaxTxnLife": (1, U), "ZeroAddress": (1, B),
    "GroupSize": (1, U), "LogicSigVersion": (2, U), "Round": (2, U), "LatestTimestamp": (2, U),
    "CurrentApplicationID": (2, U), "CreatorAddress": (3, B),
    "CurrentApplicationAddress": (5, B), "GroupID": (5, B),
    "OpcodeBudget": (6, U), "CallerApplicationID": (6, U), "CallerApplicationAddress": (6, B),
    "AssetCreateMinBalance": (10, U), "AssetOptInMinBalance": (10, U), "GenesisHash": (10, B),
}
# global fields that the AVM refuses in LogicSig mode at evaluation time (assembler accepts them)
GLOBAL_APP_ONLY = {"Round", "LatestTimestamp", "CurrentApplicationID", "CreatorAddress",
                   "CurrentApplicationAddress", "OpcodeBudget", "CallerApplicationID",
                   "CallerApplicationAddress", "AssetCreateMinBalance", "AssetOptInMinBalance"}

ASSET_HOLDING_FIELDS = {"AssetBalance": (2, U), "AssetFrozen": (2, U)}
ASSET_PARAMS_FIELDS = {
    "AssetTotal": (2, U), "AssetDecimals": (2, U), "AssetDefaultFrozen": (2, U),
    "AssetUnitName": (2, B), "AssetName": (2, B), "AssetURL": (2, B), "AssetMetadataHash": (2, B),
    "AssetManager": (2, B), "AssetReserve": (2, B), "AssetFreeze": (2, B), "AssetClawback": (2, B),
    "AssetCreator": (5, B),
}
APP_PARAMS_FIELDS = {
    "AppApprovalProgram": (5, B), "AppClearStateProgram": (5, B), "AppGlobalNumUint": (5, U),
    "AppGlobalNumByteSlice": (5, U), "AppLocalNumUint": (5, U), "AppLocalNumByteSlice": (5, U),
    "AppExtraProgramPages": (5, U), "AppCreator": (5, B), "AppAddress": (5, B),
}
ACCT_PARAMS_FIELDS = {
    "AcctBalance": (6, U), "AcctMinBalance": (6, U), "AcctAuthAddr": (6, B),
    "AcctTotalNumUint": (8, U), "AcctTotalNumByteSlice": (8, U), "AcctTotalExtraAppPages": (8, U),
    "AcctTotalAppsCreated": (8, U), "AcctTotalAppsOptedIn": (8, U), "AcctTotalAssetsCreated": (8, U),
    "AcctTotalAssets": (8, U), "AcctTotalBoxes": (8, U), "AcctTotalBoxBytes": (8, U),
}
ECDSA_FIELDS = {"Secp256k1": (5, None), "Secp256r1": (7, None)}
BASE64_FIELDS = {"URLEncoding": (7, None), "StdEncoding": (7, None)}
JSON_REF_FIELDS = {"JSONString": (7, B), "JSONUint64": (7, U), "JSONObject": (7, B)}
VRF_FIELDS = {"VrfAlgorand": (7, None)}
BLOCK_FIELDS = {"BlkSeed": (7, B), "BlkTimestamp": (7, U)}
EC_FIELDS = {"BN254g1": (10, None), "BN254g2": (10, None), "BLS12_381g1": (10, None), "BLS12_381g2": (10, None)}

# fields settable with itxn_field: the txn fields of the creatable transaction types
ITXN_NOT_SETTABLE = {"FirstValid", "LastValid", "FirstValidTime", "Lease", "GroupIndex", "TxID",
                     "NumAppArgs", "NumAccounts", "NumAssets", "NumApplications", "Logs", "NumLogs",
                     "CreatedAssetID", "CreatedApplicationID", "LastLog",
                     "NumApprovalProgramPages", "NumClearStateProgramPages"}
# version at which each field became settable via itxn_field (v5: pay/axfer/acfg/afrz; v6: keyreg/appl)
ITXN_V6 = {"VotePK", "SelectionPK", "VoteFirst", "VoteLast", "VoteKeyDilution", "Nonparticipation",
           "StateProofPK", "ApplicationID", "OnCompletion", "ApplicationArgs", "Accounts",
           "ApprovalProgram", "ClearStateProgram", "Assets", "Applications", "GlobalNumUint",
           "GlobalNumByteSlice", "LocalNumUint", "LocalNumByteSlice", "ExtraProgramPages", "Note", "RekeyTo"}


def field_group(group: str):
    """-> dict name -> (minv, ty[, is_array])"""
    if group == "txn":
        return {k: v for k, v in TXN_FIELDS.items()}
    if group == "txna":
        return {k: v for k, v in TXN_FIELDS.items() if v[2]}
    if group == "itxn_field":
        out = {}
        for k, (mv, ty, arr) in TXN_FIELDS.items():
            if k in ITXN_NOT_SETTABLE:
                continue
            # The TEAL specification makes the ITXN_V6 fields settable only from v6 on; nothing in the
            # sandbox can confirm that table, so the legality verdict uses v5 for all of them and the
            # difference is reported as an observation (see itxn_field_advisory), not as a violation.
            out[k] = (max(mv, 5), ty, arr)
        return out
    return {
        "global": GLOBAL_FIELDS, "asset_holding": ASSET_HOLDING_FIELDS,
        "asset_params": ASSET_PARAMS_FIELDS, "app_params": APP_PARAMS_FIELDS,
        "acct_params": ACCT_PARAMS_FIELDS, "ecdsa": ECDSA_FIELDS, "base64": BASE64_FIELDS,
        "json_ref": JSON_REF_FIELDS, "vrf": VRF_FIELDS, "block": BLOCK_FIELDS, "ec": EC_FIELDS,
    }[group]


def itxn_field_advisory(name: str) -> int:
    """version from which the specification lists the field as settable by itxn_field"""
    return max(TXN_FIELDS[name][0], 6 if name in ITXN_V6 else 5)


# named integer constants accepted by the `int` pseudo-op
NAMED_INTS = {
    "NoOp": 0, "OptIn": 1, "CloseOut": 2, "ClearState": 3, "UpdateApplication": 4, "DeleteApplication": 5,
    "unknown": 0, "pay": 1, "keyreg": 2, "acfg": 3, "axfer": 4, "afrz": 5, "appl": 6,
}

MAX_VERSION = 10
