"""TEAL tokenizer / parser following the assembler's line grammar, plus a legality check
against the independent langspec table.  Nothing here imports pyteal."""
import base64
import binascii
import re
from dataclasses import dataclass, field
from typing import Dict, List, Optional, Tuple, Union

from . import langspec as LS


class TealSyntaxError(Exception):
    pass


def _is_space(c: str) -> bool:
    return c in " \t\r\n\v\f"


def tokens_from_line(line: str) -> List[str]:
    """Mirror of the assembler's tokensFromLine: whitespace separated tokens; a token that
    starts with '"' (at line start or after whitespace) runs to the next '"' not preceded by
    a backslash; `//` outside a string / base64(...) starts a comment; `;` outside a string
    is its own token (statement separator)."""
    tokens: List[str] = []
    n = len(line)
    i = 0
    while i < n and _is_space(line[i]):
        i += 1
    start = i
    in_string = False
    in_b64 = False
    while i < n:
        c = line[i]
        if not _is_space(c):
            if c == '"':
                if not in_string:
                    if i == 0 or _is_space(line[i - 1]):
                        in_string = True
                else:
                    if not in_b64 and line[i - 1] != "\\":
                        in_string = False
            elif c == "/":
                if i < n - 1 and line[i + 1] == "/" and not in_b64 and not in_string:
                    if start != i:
                        tokens.append(line[start:i])
                    return tokens
            elif c == "(":
                prefix = line[start:i]
                if prefix in ("base64", "b64"):
                    in_b64 = True
            elif c == ")":
                if in_b64:
                    in_b64 = False
            elif c == ";":
                if not in_string and not in_b64:
                    if start != i:
                        tokens.append(line[start:i])
                    tokens.append(";")
                    i += 1
                    start = i
                    continue
            i += 1
            continue
        # whitespace
        if not in_string:
            tok = line[start:i]
            if tok != "":
                tokens.append(tok)
            if not in_b64:
                in_b64 = tok in ("base64", "b64")
            else:
                in_b64 = False
            while i < n and _is_space(line[i]):
                i += 1
            start = i
            continue
        i += 1
    if start < n:
        tokens.append(line[start:n])
    return tokens


def parse_string_literal(tok: str) -> bytes:
    """Assembler's parseStringLiteral: '"' ... '"' with escapes \\n \\r \\t \\\\ \\" \\xHH."""
    if len(tok) < 2 or tok[0] != '"' or tok[-1] != '"':
        raise TealSyntaxError("no quotes: %r" % tok)
    body = tok[1:-1].encode("utf-8")
    out = bytearray()
    i = 0
    n = len(body)
    while i < n:
        c = body[i]
        if c == 0x5C:  # backslash
            if i + 1 >= n:
                raise TealSyntaxError("non-terminated escape sequence: %r" % tok)
            d = chr(body[i + 1])
            if d == "n":
                out.append(10)
            elif d == "r":
                out.append(13)
            elif d == "t":
                out.append(9)
            elif d == "\\":
                out.append(0x5C)
            elif d == '"':
                out.append(0x22)
            elif d == "x":
                hx = body[i + 2:i + 4]
                if len(hx) != 2 or not re.fullmatch(rb"[0-9a-fA-F]{2}", hx):
                    raise TealSyntaxError("bad hex escape: %r" % tok)
                out.append(int(hx, 16))
                i += 4
                continue
            else:
                raise TealSyntaxError("invalid escape sequence \\%s in %r" % (d, tok))
            i += 2
            continue
        if c == 0x22:
            raise TealSyntaxError("unescaped quote inside literal: %r" % tok)
        out.append(c)
        i += 1
    return bytes(out)


_B32_ALPH = "ABCDEFGHIJKLMNOPQRSTUVWXYZ234567"


def decode_base32(s: str) -> bytes:
    t = s.rstrip("=")
    if any(ch not in _B32_ALPH for ch in t):
        raise TealSyntaxError("bad base32: %r" % s)
    pad = (-len(t)) % 8
    if pad in (7, 5, 2):  # impossible lengths
        raise TealSyntaxError("bad base32 length: %r" % s)
    try:
        return base64.b32decode(t + "=" * pad)
    except (binascii.Error, ValueError) as e:
        raise TealSyntaxError("bad base32: %r (%s)" % (s, e))


def decode_base64(s: str) -> bytes:
    try:
        if re.fullmatch(r"[A-Za-z0-9+/]*={0,2}", s) is None:
            # url alphabet is also accepted by the assembler
            if re.fullmatch(r"[A-Za-z0-9_-]*={0,2}", s) is None:
                raise TealSyntaxError("bad base64: %r" % s)
            return base64.urlsafe_b64decode(s)
        return base64.b64decode(s, validate=True)
    except (binascii.Error, ValueError) as e:
        raise TealSyntaxError("bad base64: %r (%s)" % (s, e))


def decode_hex(s: str) -> bytes:
    if not s.startswith("0x") and not s.startswith("0X"):
        raise TealSyntaxError("bad hex: %r" % s)
    try:
        return bytes.fromhex(s[2:])
    except ValueError:
        raise TealSyntaxError("bad hex: %r" % s)


@dataclass(frozen=True)
class Tmpl:
    """A template placeholder standing for an unknown constant."""
    name: str
    kind: str  # "int" | "bytes" | "addr"


def parse_bytes_args(args: List[str]) -> Tuple[Union[bytes, Tmpl], int]:
    """Decode one byte-literal starting at args[0]; returns (value, tokens consumed)."""
    if not args:
        raise TealSyntaxError("missing byte literal")
    a = args[0]
    if a in ("base32", "b32", "base64", "b64"):
        if len(args) < 2:
            raise TealSyntaxError("missing payload after %s" % a)
        return (decode_base32(args[1]) if a in ("base32", "b32") else decode_base64(args[1])), 2
    for p in ("base32(", "b32("):
        if a.startswith(p):
            if not a.endswith(")"):
                raise TealSyntaxError("unterminated %s" % a)
            return decode_base32(a[len(p):-1]), 1
    for p in ("base64(", "b64("):
        if a.startswith(p):
            if not a.endswith(")"):
                raise TealSyntaxError("unterminated %s" % a)
            return decode_base64(a[len(p):-1]), 1
    if a.startswith("0x") or a.startswith("0X"):
        return decode_hex(a), 1
    if a.startswith('"'):
        return parse_string_literal(a), 1
    if a.startswith("TMPL_"):
        return Tmpl(a, "bytes"), 1
    raise TealSyntaxError("byte arg did not parse: %r" % a)


def parse_int_arg(a: str) -> Union[int, Tmpl]:
    if a in LS.NAMED_INTS:
        return LS.NAMED_INTS[a]
    if a.startswith("TMPL_"):
        return Tmpl(a, "int")
    try:
        if a.startswith("0x") or a.startswith("0X"):
            v = int(a[2:], 16)
        elif len(a) > 1 and a[0] == "0":
            v = int(a[1:], 8)
        else:
            if not re.fullmatch(r"[0-9]+", a):
                raise ValueError(a)
            v = int(a, 10)
    except ValueError:
        raise TealSyntaxError("bad int literal %r" % a)
    if not (0 <= v < 2 ** 64):
        raise TealSyntaxError("int literal out of range %r" % a)
    return v


_ADDR_RE = re.compile(r"[A-Z2-7]{58}")


def decode_addr(a: str, checksum: bool = True) -> Union[bytes, Tmpl]:
    if a.startswith("TMPL_"):
        return Tmpl(a, "addr")
    if not _ADDR_RE.fullmatch(a):
        raise TealSyntaxError("bad address %r" % a)
    raw = base64.b32decode(a + "======")
    if len(raw) != 36:
        raise TealSyntaxError("bad address length %r" % a)
    if checksum:
        from Cryptodome.Hash import SHA512
        h = SHA512.new(truncate="256")
        h.update(raw[:32])
        if h.digest()[-4:] != raw[32:]:
            raise TealSyntaxError("bad address checksum %r" % a)
        # the last character must be canonical too
        if base64.b32encode(raw).decode().rstrip("=") != a:
            raise TealSyntaxError("non-canonical address %r" % a)
    return raw[:32]


def method_selector(sig: str) -> bytes:
    from Cryptodome.Hash import SHA512
    h = SHA512.new(truncate="256")
    h.update(sig.encode("utf-8"))
    return h.digest()[:4]


@dataclass
class Instr:
    op: str
    args: List[object]          # decoded immediates
    raw: List[str]              # raw tokens after the opcode
    line: int                   # 1-based source line
    idx: int = -1


@dataclass
class Program:
    version: int
    instrs: List[Instr]
    labels: Dict[str, int]                  # label -> index of the next instruction
    label_lines: Dict[str, List[int]]       # label -> all definition lines (for duplicates)
    complaints: List[str] = field(default_factory=list)
    text: str = ""
    typetrack_off: bool = False

    def target(self, label: str) -> int:
        return self.labels[label]


_LABEL_RE = re.compile(r"^[^\s:;\"]+:$")


def parse(text: str, strict_addr_checksum: bool = True) -> Program:
    """Parse TEAL text.  Raises TealSyntaxError only for things that make the program
    unusable; legality problems are collected in Program.complaints by check_program."""
    lines = text.split("\n")
    version = None
    instrs: List[Instr] = []
    labels: Dict[str, int] = {}
    label_lines: Dict[str, List[int]] = {}
    complaints: List[str] = []
    typetrack_off = False
    seen_code = False
    for ln, line in enumerate(lines, 1):
        toks = tokens_from_line(line)
        if not toks:
            continue
        # split statements at ';'
        stmts: List[List[str]] = [[]]
        for t in toks:
            if t == ";":
                stmts.append([])
            else:
                stmts[-1].append(t)
        for st in stmts:
            if not st:
                continue
            head = st[0]
            if head == "#pragma":
                if len(st) >= 3 and st[1] == "version":
                    if seen_code or version is not None:
                        complaints.append("line %d: #pragma version not first" % ln)
                    try:
                        version = int(st[2])
                    except ValueError:
                        raise TealSyntaxError("line %d: bad pragma version %r" % (ln, st[2]))
                elif len(st) >= 3 and st[1] == "typetrack":
                    typetrack_off = st[2] == "false"
                else:
                    complaints.append("line %d: unknown pragma %r" % (ln, st))
                continue
            seen_code = True
            if _LABEL_RE.match(head) and head[:-1] not in LS.OPS:
                name = head[:-1]
                label_lines.setdefault(name, []).append(ln)
                if name in labels:
                    complaints.append("line %d: duplicate label %s" % (ln, name))
                labels[name] = len(instrs)
                rest = st[1:]
                if not rest:
                    continue
                st = rest
                head = st[0]
            ins = Instr(op=head, args=[], raw=st[1:], line=ln, idx=len(instrs))
            instrs.append(ins)
    if version is None:
        version = 1
        complaints.append("missing #pragma version")
    prog = Program(version=version, instrs=instrs, labels=labels, label_lines=label_lines,
                   complaints=complaints, text=text, typetrack_off=typetrack_off)
    _decode_immediates(prog, strict_addr_checksum)
    return prog


def _decode_immediates(prog: Program, strict_addr_checksum: bool) -> None:
    for ins in prog.instrs:
        spec = LS.OPS.get(ins.op)
        if spec is None:
            prog.complaints.append("line %d: unknown opcode %r" % (ins.line, ins.op))
            continue
        raw = list(ins.raw)
        args: List[object] = []
        try:
            for kind in spec.imms:
                if kind in ("u8", "i8"):
                    if not raw:
                        raise TealSyntaxError("missing immediate")
                    t = raw.pop(0)
                    if not re.fullmatch(r"-?[0-9]+", t):
                        raise TealSyntaxError("bad integer immediate %r" % t)
                    v = int(t)
                    lo, hi = (0, 255) if kind == "u8" else (-128, 127)
                    if not (lo <= v <= hi):
                        raise TealSyntaxError("immediate %d out of range [%d,%d]" % (v, lo, hi))
                    args.append(v)
                elif kind == "label":
                    if not raw:
                        raise TealSyntaxError("missing label")
                    args.append(raw.pop(0))
                elif kind == "labels":
                    args.append(list(raw))
                    raw = []
                elif kind == "int":
                    if not raw:
                        raise TealSyntaxError("missing int")
                    args.append(parse_int_arg(raw.pop(0)))
                elif kind == "bytes":
                    v, n = parse_bytes_args(raw)
                    raw = raw[n:]
                    args.append(v)
                elif kind == "addr":
                    if not raw:
                        raise TealSyntaxError("missing address")
                    args.append(decode_addr(raw.pop(0), strict_addr_checksum))
                elif kind == "method":
                    if not raw:
                        raise TealSyntaxError("missing method signature")
                    t = raw.pop(0)
                    sig = parse_string_literal(t).decode("utf-8")
                    args.append((sig, method_selector(sig)))
                elif kind == "intblock":
                    vals = [parse_int_arg(t) for t in raw]
                    raw = []
                    args.append(vals)
                elif kind == "byteblock":
                    vals = []
                    while raw:
                        v, n = parse_bytes_args(raw)
                        raw = raw[n:]
                        vals.append(v)
                    args.append(vals)
                elif kind.startswith("f:"):
                    if not raw:
                        raise TealSyntaxError("missing field name")
                    args.append(raw.pop(0))
                else:
                    raise AssertionError(kind)
            if raw:
                raise TealSyntaxError("extra tokens %r" % raw)
        except TealSyntaxError as e:
            prog.complaints.append("line %d: %s %s: %s" % (ins.line, ins.op, " ".join(ins.raw), e))
            args = None  # type: ignore
        ins.args = args  # type: ignore


def blocking_complaints(prog: Program, mode: str) -> List[str]:
    """the subset of check_program's complaints that make symbolic execution of the text impossible
    (unknown opcode, undecodable immediate, undefined label, leaked placeholder).  Version / mode /
    backward-branch legality is C04's business and does not stop the other checks from executing the program."""
    out = []
    for c in check_program(prog, mode):
        if ("needs version" in c) or ("not available in mode" in c) or ("#pragma version" in c and "not first" not in c):
            continue
        out.append(c)
    return out


def check_program(prog: Program, mode: str) -> List[str]:
    """Legality of an emitted program at its #pragma version in `mode` ("S" or "A").
    Returns the list of complaints (empty = the assembler would accept it)."""
    out = list(prog.complaints)
    v = prog.version
    first = [t for t in (tokens_from_line(l) for l in prog.text.split("\n")) if t]
    if not first or first[0][:2] != ["#pragma", "version"]:
        out.append("program does not open with #pragma version")
    if not (1 <= v <= LS.MAX_VERSION):
        out.append("unsupported version %d" % v)
    for ins in prog.instrs:
        spec = LS.OPS.get(ins.op)
        if spec is None or ins.args is None:
            continue
        if spec.minv > v:
            out.append("line %d: %s needs version %d (program is %d)" % (ins.line, ins.op, spec.minv, v))
        if mode not in spec.modes:
            out.append("line %d: %s not available in mode %s" % (ins.line, ins.op, mode))
        for kind, a in zip(spec.imms, ins.args):
            if kind == "label":
                if a not in prog.labels:
                    out.append("line %d: undefined label %r" % (ins.line, a))
                elif v < 4 and ins.op != "callsub" and prog.labels[a] <= ins.idx:
                    out.append("line %d: backward branch to %s needs version 4 (program is %d)" % (ins.line, a, v))
            elif kind == "labels":
                for l in a:
                    if l not in prog.labels:
                        out.append("line %d: undefined label %r" % (ins.line, l))
            elif kind.startswith("f:"):
                grp = LS.field_group(kind[2:])
                if a not in grp:
                    out.append("line %d: %s unknown field %r" % (ins.line, ins.op, a))
                else:
                    fv = grp[a][0]
                    if fv > v:
                        out.append("line %d: %s field %s needs version %d (program is %d)" % (ins.line, ins.op, a, fv, v))
            elif kind in ("intblock", "byteblock"):
                pass
        if ins.op in ("txn", "gtxn", "gtxns", "itxn", "gitxn"):
            # array fields through the scalar form are accepted only with an index (assembler rewrites);
            # pyteal never emits that form, so flag it
            f = ins.args[-1]
            if f in LS.TXN_FIELDS and LS.TXN_FIELDS[f][2]:
                out.append("line %d: %s on array field %s" % (ins.line, ins.op, f))
    # placeholders that must not survive
    for m in re.finditer(r"(slot|subroutine)#?\s*<|ScratchSlot|SubroutineDefinition|LabelReference|<pyteal", prog.text):
        out.append("placeholder leaked into TEAL: %r" % m.group(0))
    return out
