"""Input-side features of a violating case, used to match narrow known-finding signatures.
Features are computed from the *input* (recipe / shape / options), never from the outcome."""
from typing import Any, Dict, List


def _walk(e, fn, ctx=()):
    if not isinstance(e, tuple) or not e:
        return
    if isinstance(e[0], str):
        fn(e, ctx)
        for i, c in enumerate(e[1:], 1):
            _walk(c, fn, ctx + ((e[0], i),))
    else:
        for c in e:
            _walk(c, fn, ctx)


_OPERAND_FORMS = {"Bin", "Nary", "Tern", "Un", "Suffix", "Call", "Store", "GPut", "LPut", "ItxnField", "PStore"}


def recipe_features(rec: Dict[str, Any], violation: Dict[str, Any] = None) -> List[str]:
    feats = set()

    def scan(body, where):
        def fn(e, ctx):
            if e[0] in ("Return", "Approve", "Reject"):
                # pending operands: some enclosing operator form has already-evaluated siblings to the left
                pending = False
                for (form, idx) in ctx:
                    if form in ("Bin", "Nary", "Tern", "Call") and idx >= 3:
                        pending = True
                    if form in ("GPut", "LPut", "Suffix") and idx >= 2:
                        pending = True
                    if form in ("Bin", "Nary", "Tern") and idx >= 2 and form != "Un":
                        # first operand position of an operator: nothing pending from this form
                        pass
                if pending and where == "sub" and e[0] == "Return":
                    feats.add("return-inside-pending-operand-in-subroutine")
        _walk(body, fn)

    scan(rec.get("main"), "main")
    for sd in rec.get("subs", {}).values():
        scan(sd["body"], "sub")
    return sorted(feats)
