"""Input-side features of a violating case, used to match narrow known-finding signatures.
Features are computed from the *input* (recipe / shape / options), never from the outcome."""
from typing import Any, Dict, List


def _walk(e, fn, ctx=()):
    if not isinstance(e, tuple) or not e:
        return
    if isinstance(e[0], str):
        fn(e, ctx)
        for i, c in enumerate(e[1:], 1):
            _walk(c, fn, ctx + ((e[0], i),))
    else:
        for c in e:
            _walk(c, fn, ctx)


_OPERAND_FORMS = {"Bin", "Nary", "Tern", "Un", "Suffix", "Call", "Store", "GPut", "LPut", "ItxnField", "PStore"}


def recipe_features(rec: Dict[str, Any], violation: Dict[str, Any] = None) -> List[str]:
    feats = set()

    def scan(body, where):
        def fn(e, ctx):
            if e[0] in ("Return", "Approve", "Reject"):
                # pending operands: some enclosing operator form has already-evaluated siblings to the left
                pending = False
                for (form, idx) in ctx:
                    if form in ("Bin", "Nary", "Tern", "Call") and idx >= 3:
                        pending = True
                    if form in ("GPut", "LPut", "Suffix") and idx >= 2:
                        pending = True
                    if form in ("Bin", "Nary", "Tern") and idx >= 2 and form != "Un":
                        # first operand position of an operator: nothing pending from this form
                        pass
                if pending and where == "sub" and e[0] == "Return":
                    feats.add("return-inside-pending-operand-in-subroutine")
        _walk(body, fn)

    scan(rec.get("main"), "main")
    for sd in rec.get("subs", {}).values():
        scan(sd["body"], "sub")
    return sorted(feats)


def unoptimised_teal_features(teal_text: str):
    """features of the optimiser's INPUT program (the unoptimised emitted TEAL): a slot that the
    optimiser will cancel (exactly one load in its routine, directly after a store of the same
    slot) although the routine stores to it elsewhere as well"""
    from .teal.parse import parse
    feats = set()
    try:
        prog = parse(teal_text)
    except Exception:
        return feats
    starts = sorted({prog.labels[i.args[0]] for i in prog.instrs if i.op == "callsub" and i.args and i.args[0] in prog.labels})
    bounds = [0] + starts + [len(prog.instrs)]
    for a, b in zip(bounds, bounds[1:]):
        ins = prog.instrs[a:b]
        slots = {i.args[0] for i in ins if i.op in ("load", "store") and i.args}
        for s in slots:
            loads = [k for k, i in enumerate(ins) if i.op == "load" and i.args[0] == s]
            stores = [k for k, i in enumerate(ins) if i.op == "store" and i.args[0] == s]
            if len(loads) == 1 and len(stores) >= 2 and loads[0] > 0 and ins[loads[0] - 1].op == "store" \
                    and ins[loads[0] - 1].args[0] == s:
                feats.add("optimizer-cancels-slot-with-extra-store")
    return feats


def legality_features(rec: Dict[str, Any], version: int) -> List[str]:
    """input-side features for C04 known findings (recipe + requested version only)"""
    from .teal import langspec as LS
    feats = set()
    has_loop = [False]
    nested_cond = [False]
    new_itxn_field = [False]
    CONDS = ("If", "IfChain", "Cond")

    def walk(e, in_cond_arm):
        if isinstance(e, (list, tuple)):
            if e and isinstance(e[0], str):
                k = e[0]
                if k in ("While", "For"):
                    has_loop[0] = True
                if k in CONDS and in_cond_arm:
                    nested_cond[0] = True
                if k == "ItxnField" and e[1] in LS.TXN_FIELDS and LS.TXN_FIELDS[e[1]][0] > version:
                    new_itxn_field[0] = True
                for c in e[1:]:
                    walk(c, in_cond_arm or k in CONDS)
            else:
                for c in e:
                    walk(c, in_cond_arm)

    walk(rec.get("main"), False)
    for sd in rec.get("subs", {}).values():
        walk(sd["body"], False)
    if version < 4 and has_loop[0]:
        feats.add("loop-below-v4")
    if version < 4 and nested_cond[0] and not has_loop[0]:
        feats.add("nested-conditional-below-v4")
    if new_itxn_field[0]:
        feats.add("itxn-field-newer-than-version")
    return sorted(feats)
