"""Self-validation of the machinery (not a property check; `./check SELFTEST`).

1. The repository's own behavioural expectations - the pure-Python expected values of
   tests/integration/graviton_test.py (exp, square, square_byref, swap, string_mult, oldfac,
   slow_fibonacci; those tests need algod and cannot run offline) - are pushed through the
   interpreter used for replay: the subroutines are taken from the test file's source, wrapped
   like tests/blackbox.py does (arguments from application arguments, result logged and
   returned), compiled with the real compiler and executed on the concrete AVM.
2. Every .teal file under tests/ and examples/ must be accepted by the independent front-end.
3. The ARC-4 model must equal algosdk.abi on random values of every curated type shape."""
import ast
import glob
import os
import random
import sys
import textwrap

from ..avm.ctx import CtxConfig
from ..avm.sym import Bounds, SymAVM
from ..teal.parse import TealSyntaxError, blocking_complaints, parse
from .. import tv

REPO = os.environ.get("VERIF_PYTEAL_TREE") or "/repo"


def graviton_subroutines():
    import pyteal as pt
    src = open(os.path.join(REPO, "tests/integration/graviton_test.py")).read()
    mod = ast.parse(src)
    want = {"exp", "square_byref", "square", "swap", "string_mult", "oldfac", "slow_fibonacci"}
    g = {"pt": pt}
    for node in mod.body:
        if isinstance(node, ast.FunctionDef) and node.name in want:
            node.decorator_list = [d for d in node.decorator_list if "Blackbox" not in ast.dump(d)]
            code = compile(ast.Module(body=[node], type_ignores=[]), "graviton_test.py", "exec")
            exec(code, g)
    return {k: g[k] for k in want}


def fac(n):
    return 1 if n < 2 else n * fac(n - 1)


def fib(n):
    a, b = 0, 1
    for _ in range(n):
        a, b = b, a + b
    return a


def run(teal, args):
    prog = parse(teal)
    cs = blocking_complaints(prog, "A")
    if cs:
        return ("front-end", cs[0])
    cfg = CtxConfig(mode="A", version=6)
    conc = {"g0.NumAppArgs": len(args), "GroupIndex": 0}
    for i, a in enumerate(args):
        conc["g0.ApplicationArgs[%d]" % i] = a if isinstance(a, bytes) else int(a).to_bytes(8, "big")
    o = tv.run_concrete(lambda c: SymAVM(prog, c, Bounds(loop_k=100000, call_depth=2000, max_steps=2000000)).run, cfg, conc)
    logs = [bytes(e[1].bs) for e in o.effects if e[0] == "log"]
    return (o.verdict, o.kind, o.ret.e if o.ret is not None else None, logs[-1] if logs else None, o.extra.get("scratch", {}))


def main():
    import pyteal as pt
    from ..recipe.build import reset_pyteal_state
    sys.setrecursionlimit(20000)
    subs = graviton_subroutines()
    failures = []
    n = 0

    def compile_(ast_):
        reset_pyteal_state()
        try:
            return pt.compileTeal(ast_, pt.Mode.Application, version=6)
        finally:
            reset_pyteal_state()

    def arg_u(i):
        return pt.Btoi(pt.Txn.application_args[i])

    # exp
    r = pt.ScratchVar(pt.TealType.uint64)
    res = run(compile_(pt.Seq(r.store(subs["exp"]()), pt.Log(pt.Itob(r.load())), r.load())), [])
    n += 1
    if res[:4] != ("return", "", 1024, (1024).to_bytes(8, "big")):
        failures.append(("exp", res[:4]))
    # square: i*i, rejects for 0
    teal = compile_(pt.Seq(r.store(subs["square"](arg_u(0))), pt.Log(pt.Itob(r.load())), r.load()))
    for i in range(100):
        res = run(teal, [i])
        n += 1
        if res[:4] != ("return", "", i * i, (i * i).to_bytes(8, "big")):
            failures.append(("square", i, res[:4]))
    # square_byref: x holds x^2 afterwards
    x = pt.ScratchVar(pt.TealType.uint64)
    teal = compile_(pt.Seq(x.store(arg_u(0)), subs["square_byref"](x), pt.Log(pt.Itob(x.load())), pt.Int(1337)))
    for i in range(100):
        res = run(teal, [i])
        n += 1
        if res[:4] != ("return", "", 1337, (i * i).to_bytes(8, "big")):
            failures.append(("square_byref", i, res[:4]))
    # swap
    a, b = pt.ScratchVar(pt.TealType.anytype), pt.ScratchVar(pt.TealType.anytype)
    teal = compile_(pt.Seq(a.store(pt.Txn.application_args[0]), b.store(pt.Txn.application_args[1]), subs["swap"](a, b),
                           pt.Log(pt.Concat(a.load(), pt.Bytes("|"), b.load())), pt.Int(1337)))
    for u, v in ((b"1", b"2"), (b"one", b"2"), (b"", b"two"), (b"one", b"two")):
        res = run(teal, [u, v])
        n += 1
        if res[:4] != ("return", "", 1337, v + b"|" + u):
            failures.append(("swap", u, v, res[:4]))
    # string_mult(s, n) = s * n ; result length as return value
    s = pt.ScratchVar(pt.TealType.bytes)
    out = pt.ScratchVar(pt.TealType.bytes)
    teal = compile_(pt.Seq(s.store(pt.Txn.application_args[0]), out.store(subs["string_mult"](s, arg_u(1))), pt.Log(out.load()), pt.Len(out.load())))
    for i in range(0, 100, 3):
        res = run(teal, [b"xyzw", i])
        n += 1
        # logs are limited to 1024 bytes per call: 4*i <= 1024
        if 4 * i <= 1024 and res[:4] != ("return", "", 4 * i, b"xyzw" * i):
            failures.append(("string_mult", i, res[:4]))
    # oldfac: n! ; overflows (fails) from 21
    teal = compile_(pt.Seq(r.store(subs["oldfac"](arg_u(0))), pt.Log(pt.Itob(r.load())), r.load()))
    for i in range(25):
        res = run(teal, [i])
        n += 1
        if i < 21:
            if res[:4] != ("return", "", fac(i), fac(i).to_bytes(8, "big")):
                failures.append(("oldfac", i, res[:4]))
        elif not (res[0] == "fail" and "overflow" in res[1]):
            failures.append(("oldfac", i, res[:4]))
    # slow_fibonacci
    teal = compile_(pt.Seq(r.store(subs["slow_fibonacci"](arg_u(0))), pt.Log(pt.Itob(r.load())), r.load()))
    for i in range(17):
        res = run(teal, [i])
        n += 1
        if res[:4] != ("return", "", fib(i), fib(i).to_bytes(8, "big")):
            failures.append(("slow_fibonacci", i, res[:4]))
    print("graviton expectations: %d runs, %d mismatches" % (n, len(failures)))
    for f in failures[:10]:
        print("  MISMATCH", f)
    # 2. golden TEAL files
    bad = []
    files = sorted(glob.glob(os.path.join(REPO, "tests/**/*.teal"), recursive=True) + glob.glob(os.path.join(REPO, "examples/**/*.teal"), recursive=True))
    for f in files:
        try:
            p = parse(open(f).read())
            mode = "S" if any(i.op.startswith("arg") for i in p.instrs) and not any(i.op in ("log", "app_global_put", "itxn_begin", "app_global_get", "app_local_put") for i in p.instrs) else "A"
            cs = blocking_complaints(p, mode)
            if cs:
                bad.append((f, cs[0]))
        except TealSyntaxError as e:
            bad.append((f, str(e)))
    print("golden TEAL files: %d parsed, %d rejected by the front-end" % (len(files), len(bad)))
    for b in bad[:10]:
        print("  REJECTED", b)
    # 3. ARC-4 model vs algosdk
    from ..arc4 import gen_shapes as G, model as M, types as T
    rng = random.Random(7)

    def rand_value(t):
        k = t[0]
        if k == "bool":
            return rng.random() < 0.5
        if k == "byte":
            return rng.randrange(256)
        if k == "uint":
            return rng.choice([0, 1, (1 << t[1]) - 1, rng.randrange(1 << t[1])])
        if k == "address":
            return [rng.randrange(256) for _ in range(32)]
        if k in ("string", "dbytes"):
            return [rng.randrange(256) for _ in range(rng.randrange(5))]
        if k == "darray":
            return [rand_value(t[1]) for _ in range(rng.randrange(4))]
        if k == "sarray":
            return [rand_value(t[1]) for _ in range(t[2])]
        return [rand_value(m) for m in t[1]]
    mism = 0
    cnt = 0
    for t in G.shapes("thorough", 3):
        for _ in range(20):
            v = rand_value(t)
            cnt += 1
            if bytes(M.enc(t, v)) != M.sdk_encode(t, v):
                mism += 1
                if mism < 5:
                    print("  ARC4 MISMATCH", T.T_str(t), v)
    print("ARC-4 model vs algosdk.abi: %d values, %d mismatches" % (cnt, mism))
    ok = not failures and not bad and not mism
    print("SELFTEST %s" % ("OK" if ok else "FAILED"))
    return 0 if ok else 2


if __name__ == "__main__":
    sys.exit(main())
