"""C02 - subroutine calls behave as function calls, including recursion.

(a) whole-program translation validation (as C01) of recipes with routines, under every
    calling-convention option;  (b) spill/restore Hoare contract of every recursive call site,
    from an arbitrary stack and arbitrary slot contents (verif/checks/spill.py)."""
import sys

from ..common import Report, run_jobs, seed, tier, to_json
from ..recipe import gen_subs
from .c01 import summarize

PROP = "C02"


def build_jobs(t: str, sd: int):
    jobs = []
    thorough = t != "quick"
    versions = list(range(4, 11)) if thorough else [4, 5, 6, 8, 10]
    for v in versions:
        fams = gen_subs.sub_family("A", v, thorough)
        if thorough:
            fams += gen_subs.abi_sub_family("A", v)
            fams += gen_subs.random_sub_family("A", v, sd, 25)
        elif v in (6, 8):
            fams += gen_subs.abi_sub_family("A", v)
            fams += gen_subs.random_sub_family("A", v, sd, 8)
        for (name, rec, opts) in fams:
            for oi, opt in enumerate(gen_subs.sub_options(v, thorough)):
                if oi > 0 and not thorough and "abi-fact" in name:
                    continue     # (building a recursive ABIReturnSubroutine costs seconds, see recipe/build.py)
                j = {"id": "%s@v%d/o%d" % (name, v, oi), "family": name.split(":")[0] + ":" + name.split(":")[1].split("-")[0],
                     "rec": to_json(rec), "version": v, "mode": "A", "optimize": opt,
                     "loop_k": 3 if thorough else 2, "call_depth": 4 if thorough else 3,
                     "lens": (0, 1, 2), "record_exits": False}
                j.update(opts)
                jobs.append(j)
    for j in jobs[:: max(1, len(jobs) // 5)]:
        j["want_sample"] = True
        j["keep_teal"] = True
    return jobs


def main() -> int:
    t, sd = tier(), seed()
    rep = Report(PROP)
    jobs = build_jobs(t, sd)
    results = run_jobs("verif.tvjob:tv_recipe_job", jobs)
    mjobs = []
    for j in jobs:
        if j["id"].startswith("sub:") and not j.get("no_modular") and not j["id"].startswith("sub:trail"):
            mj = dict(j)
            mj["id"] = "modular:" + j["id"]
            mj["loop_k"] = 3
            mjobs.append(mj)
    mres = run_jobs("verif.modular:modular_job", mjobs)
    mres = [r for r in mres if r.get("status") != "skipped"]
    extra = {"modular_routine_checks": sum(r.get("routines", 0) for r in mres),
             "modular_explanation": "each routine entered with symbolic arguments above a symbolic caller cell, every call havoc'd "
                                    "(arbitrary results; arbitrary contents of all scratch slots when the callee can re-enter): one "
                                    "inductive step that holds for any recursion depth"}
    results = list(results) + mres
    jobs = jobs + mjobs
    return summarize(rep, jobs, results, PROP, "translation_validation",
                     "recipes with routines (self/mutual recursion, arities 0..4, by-value/by-reference parameters, result kinds "
                     "none/uint64/bytes, nested call sites, Return positions, locals) x versions 4..10 x option settings; "
                     "non-trivial = at least one non-failing path", extra_cov=extra)


def replay(record) -> bool:
    if record.get("kind") == "modular":
        from ..modular import replay_file
    else:
        from ..tvjob import replay_file
    return replay_file(record)


if __name__ == "__main__":
    sys.exit(main())
