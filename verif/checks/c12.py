"""C12 - assembleConstants changes how constants load, not their values.

Each recipe is compiled with assembleConstants False and True; SymAVM runs both programs over the
same symbolic context (template constants are symbolic); z3 decides (a) site by site, in
execution order on every path, that the value pushed by each constant-load instruction is the
same in both programs (pseudo-ops decoded by the independent front-end vs pushint/pushbytes/
intc*/bytec* resolved through the emitted blocks) and (b) whole-program equivalence.  An
emitted constant-block index that the assembler cannot encode is reported as a violation."""
import sys

from ..common import Report, from_json, run_jobs, seed, tier, to_json
from ..recipe import gen, gen_const
from .c01 import summarize

PROP = "C12"


def build_jobs(t: str, sd: int):
    thorough = t != "quick"
    jobs = []
    versions = list(range(3, 11)) if thorough else [3, 5, 8, 10]
    for vi, v in enumerate(versions):
        fam = gen_const.const_family("A", v, sd, thorough)
        if thorough:
            for extra in range(1, 8):
                fam += [x for x in gen_const.const_family("A", v, sd * 100 + extra, True) if x[0].startswith(("const:int:", "const:bytes:freq"))]
        if thorough and v in (3, 6, 9):
            fam += gen_const.const_family("S", v, sd, False)
        if v in (versions[0], versions[-1]) or thorough:
            for n in (255, 256, 257):
                fam.append(gen_const.boundary_family("A", v, n, "int"))
                fam.append(gen_const.boundary_family("A", v, n, "bytes"))
        if thorough or v == 8:
            fam += gen.control_family("A", v, False)[vi % 4::4] + gen.operator_sweep("A", v, False)[vi % 3::3]
        for (name, rec, opts) in fam:
            j = {"id": "%s@v%d" % (name, v), "family": ":".join(name.split(":")[:2]), "rec": to_json(rec),
                 "A": {"version": v, "optimize": None, "assemble": False}, "B": {"version": v, "optimize": None, "assemble": True},
                 "mode": rec.get("mode", "A"), "loop_k": 4, "call_depth": 3, "lens": (0, 1, 2),
                 "compare": ["constloads"]}
            j.update(opts)
            jobs.append(j)
    for j in jobs[:: max(1, len(jobs) // 5)]:
        j["want_sample"] = True
        j["keep_teal"] = True
    return jobs


def complaints_to_violations(results, jobs):
    """an emitted program the assembler would reject (e.g. intc 299) is a violation of C12, not a
    harness problem"""
    byid = {j["id"]: j for j in jobs}
    for r in results:
        if r.get("complaints") and r.get("status") == "ok":
            j = byid.get(r.get("id"), {})
            r["violations"] = [{"kind": "front-end", "recipe": j.get("rec"), "A": j.get("A"), "B": j.get("B"), "mode": j.get("mode", "A"),
                                "version": r.get("version"), "complaints": r["complaints"][:5], "teal": (r.get("teal") or "")[-3000:],
                                "job": {k: v for k, v in j.items() if k not in ("rec", "recB")}}]
            r["complaints"] = []
            for k in ("obligations", "discharged", "inconclusive", "ref_paths", "teal_paths", "ref_cut", "replayed", "unconfirmed"):
                r.setdefault(k, 0)
            r["replayed"] = 1
    return results


def features_fn(v):
    fs = set()
    if v.get("kind") == "front-end":
        for c in v.get("complaints", []):
            if "intc" in c or "bytec" in c:
                fs.add("constant-block-index-above-255")
    return fs


def main() -> int:
    t, sd = tier(), seed()
    rep = Report(PROP)
    jobs = build_jobs(t, sd)
    results = complaints_to_violations(run_jobs("verif.diffjob:diff_job", jobs), jobs)
    return summarize(rep, jobs, results, PROP, "translation_validation",
                     "constant multisets by pattern (frequency vectors x magnitude classes x spellings of byte constants; equal values under "
                     "different spellings; enums; templates; the pushint/block boundary; 255/256/257 distinct repeated constants) plus control "
                     "skeletons and operator programs, each compiled with assembleConstants off and on", features_fn=features_fn)


def replay(record) -> bool:
    if record.get("kind") == "front-end":
        from ..diffjob import compile_side
        from ..teal.parse import check_program, parse
        rec = from_json(record["recipe"])
        tb, st, d = compile_side(rec, record["B"])
        if st != "ok":
            print("no longer compiles:", d)
            return False
        cs = check_program(parse(tb), record.get("mode", "A"))
        print("front-end complaints:", cs[:5])
        return bool(cs)
    from ..diffjob import replay_file
    return replay_file(record)


if __name__ == "__main__":
    sys.exit(main())
