"""C06 - ABI values assembled in PyTeal encode exactly per ARC-4.

For each type shape and length vector a program builds the value FROM ITS PARTS with set(...) -
leaves set from symbolic inputs (one packed application argument) - and logs value.encode();
SymAVM turns the emitted TEAL into byte terms and z3 proves them equal to the ARC-4 model's
encoding for every value (and that out-of-range integer expressions make the program fail).
Both storage back-ends (main routine = scratch, subroutine at v8+ = frame variables).  Python
literal leaves (boundary values, long strings, out-of-range ints) are checked concretely;
descriptor facts (signature string, dynamic-ness, static length) are compared with algosdk."""
import sys

from ..common import Report, run_jobs, seed, tier, to_json
from ..arc4 import gen_shapes as G, types as T, model as M
from .c01 import summarize

PROP = "C06"


def descriptor_job(job):
    from ..arc4.abijob import tt
    t = tt(job["type"])
    out = {"id": job["id"], "family": "descriptor", "version": 0, "status": "ok", "violations": [], "complaints": [],
           "obligations": 1, "discharged": 0, "inconclusive": 0, "ref_paths": 0, "teal_paths": 0, "ref_cut": 0, "nonfail": 1, "replayed": 1, "unconfirmed": 0}
    try:
        spec = T.to_spec(t)
        sdk = T.to_sdk(t)
        facts = {"str": (str(spec), str(sdk)), "dynamic": (spec.is_dynamic(), sdk.is_dynamic())}
        if not sdk.is_dynamic():
            facts["static_len"] = (spec.byte_length_static(), sdk.byte_len())
            facts["static_len_model"] = (T.static_len(t), sdk.byte_len())
        # the other two ways PyTeal obtains a type descriptor: from the reference codec's type object and from signature text
        import pyteal as pt
        if t[0] != "ntuple" and "ntuple" not in str(t):
            via_sdk = pt.abi.type_spec_from_algosdk(sdk)
            facts["str_from_algosdk"] = (str(via_sdk), str(sdk))
            facts["dynamic_from_algosdk"] = (via_sdk.is_dynamic(), sdk.is_dynamic())
            if not sdk.is_dynamic():
                facts["static_len_from_algosdk"] = (via_sdk.byte_length_static(), sdk.byte_len())
            args, ret = pt.abi.type_specs_from_signature("m(%s,uint64)%s" % (sdk, sdk))
            facts["str_from_signature"] = ((str(args[0]), str(args[1]), str(ret)), (str(sdk), "uint64", str(sdk)))
        bad = {k: v for k, v in facts.items() if v[0] != v[1]}
        if bad:
            out["violations"].append({"kind": "descriptor", "type": T.T_str(t), "job": job, "mismatch": to_json(bad)})
        else:
            out["discharged"] = 1
    except Exception as e:  # noqa
        out["status"] = "crash"
        out["detail"] = "%s: %s" % (type(e).__name__, e)
    return out


def literal_values(t, lens, which: str):
    """boundary literal trees: 'min', 'max', 'over' (one integer leaf just out of range)"""
    from ..arc4.model import LenPlan
    plan = LenPlan(lens)
    over_done = [False]

    def walk(t):
        k = t[0]
        if k == "bool":
            return which != "min"
        if k in ("byte", "uint"):
            bits = 8 if k == "byte" else t[1]
            if which == "over" and not over_done[0]:
                over_done[0] = True
                return 1 << bits
            return 0 if which == "min" else (1 << bits) - 1
        if k == "address":
            return [0 if which == "min" else 255] * 32
        if k in ("string", "dbytes"):
            n = plan.next()
            return [(65 + i) % 256 for i in range(n)]
        if k == "darray":
            n = plan.next()
            return [walk(t[1]) for _ in range(n)]
        if k == "sarray":
            return [walk(t[1]) for _ in range(t[2])]
        return [walk(m) for m in t[1]]
    v = walk(t)
    if which == "over" and not over_done[0]:
        return None
    return v


def _annotatable(t):
    """PyTeal can spell the type as a Python annotation (needed for an ABIReturnSubroutine output; tuples of more
    than a handful of members have no annotation class)"""
    try:
        T.to_spec(t).annotation_type()
        return True
    except TypeError:
        return False


def build_jobs(t_, sd):
    thorough = t_ != "quick"
    jobs = []
    versions = [5, 6, 7, 8, 9, 10] if thorough else [5, 6, 8, 10]
    shapes = G.shapes(t_, sd)
    for si, t in enumerate(shapes):
        jobs.append({"id": "desc:%s" % T.T_str(t), "type": to_json(t), "fn": "descriptor"})
        for lv in G.len_vectors(t, t_, sd):
            if G.size_of(t, lv) > (90 if thorough else 60):
                continue
            for vi, v in enumerate(versions):
                if not thorough and (si + vi) % 2 and v not in (6, 8):
                    continue
                backends = [("main", None)]
                if v >= 8:
                    backends.append(("sub", None))
                    if thorough:
                        backends.append(("sub", {"frame_pointers": False}))
                elif thorough or v == 6:
                    backends.append(("sub", None))
                if (v >= 8 or (thorough and v == 6)) and _annotatable(t):
                    backends.append(("abiret", None))
                for be, opt in backends:
                    jobs.append({"id": "enc:%s:%s@v%d/%s%s" % (T.T_str(t), lv, v, be, "" if opt is None else "-nofp"), "family": "encode:" + be,
                                 "type": to_json(t), "lens": lv, "version": v, "backend": be, "optimize": opt, "fn": "encode"})
            # Python literals (no input dimension): min / max / one out-of-range integer
            for which in ("min", "max", "over"):
                lit = literal_values(t, lv, which)
                if lit is None or (not thorough and which == "min"):
                    continue
                for v in ([6, 8] if not thorough else [5, 8, 10]):
                    jobs.append({"id": "lit-%s:%s:%s@v%d" % (which, T.T_str(t), lv, v), "family": "literal:" + which, "type": to_json(t), "lens": lv,
                                 "version": v, "backend": "main" if v < 8 else "sub", "literal": to_json(lit), "fn": "encode"})
    # values with about 128 parts, assembled inside a subroutine: one frame holds at most 128 locals (the output of an
    # ABIReturnSubroutine is one of them); the rest must go to scratch slots
    for t in (("sarray", ("bool",), 122), ("sarray", ("bool",), 123), ("sarray", ("bool",), 124), ("sarray", ("bool",), 130), ("sarray", G.U64, 124)):
        for v in ((8, 10) if thorough else (8,)):
            for be, opt in (("sub", None), ("abiret", None)) + ((("abiret", {"frame_pointers": False}),) if thorough else ()):
                jobs.append({"id": "enc-many-parts:%s@v%d/%s%s" % (T.T_str(t), v, be, "" if opt is None else "-nofp"), "family": "encode:" + be,
                             "type": to_json(t), "lens": [], "version": v, "backend": be, "optimize": opt, "fn": "encode", "timeout_ms": 60000})
    # integer leaves given as Int(<literal>) expressions at the width boundaries: 2^N - 1 must encode, 2^N and 2^N + 1 must make the program fail
    for bits in (8, 16, 32):
        for delta, nm in ((-1, "max"), (0, "pow"), (1, "pow1")):
            val = (1 << bits) + delta
            for t in (("uint", bits), G.tup(("uint", bits), G.U64), ("sarray", ("uint", bits), 2)):
                lit = val if t[0] == "uint" else ([val, 7] if t[0] == "tuple" else [1, val])
                for v in ((6, 8) if not thorough else (5, 6, 8, 10)):
                    for be in ("main", "sub"):
                        jobs.append({"id": "intexpr-%s:%s@v%d/%s" % (nm, T.T_str(t), v, be), "family": "literal:int-expr", "type": to_json(t), "lens": [0], "version": v,
                                     "backend": be, "literal": to_json(lit), "int_exprs": True, "fn": "encode"})
    # integer and bool leaves set from value-preserving expressions of several AST classes (binary, n-ary, Seq, If): what a leaf
    # receives must not depend on how the expression is written
    for t in (G.BOOL, G.tup(G.BOOL, G.BOOL, G.BOOL, G.U8), ("sarray", G.BOOL, 9), ("darray", G.BOOL), G.tup(G.U8, G.U16, G.U32, G.U64, G.BOOL),
              ("sarray", G.U16, 3), G.tup(G.BOOL, G.STR, G.BOOL)):
        for lv in G.len_vectors(t, t_, sd)[:2]:
            for v in ((6, 8) if not thorough else (5, 6, 8, 10)):
                for be in ("main", "sub"):
                    jobs.append({"id": "exprforms:%s:%s@v%d/%s" % (T.T_str(t), lv, v, be), "family": "encode:expr-forms", "type": to_json(t), "lens": lv, "version": v,
                                 "backend": be, "expr_forms": True, "fn": "encode"})
    # an ABI integer set from another ABI integer (every pair of widths): whatever PyTeal accepts must not truncate silently
    for tb in (8, 16, 32, 64):
        for sb in (8, 16, 32, 64):
            for v in ((6, 8) if not thorough else (5, 6, 8, 10)):
                for be in ("main", "sub"):
                    jobs.append({"id": "copy:uint%d<-uint%d@v%d/%s" % (tb, sb, v, be), "family": "copy", "target_bits": tb, "source_bits": sb, "version": v,
                                 "backend": be, "fn": "copy", "type": to_json(("uint", tb)), "lens": []})
    # long literal strings / byte arrays around the one-byte boundary of the length prefix
    for n in (254, 255, 256, 300, 1000):
        for t in (G.STR, G.DB, G.tup(G.U8, G.STR)):
            lit = [(i * 7) % 256 for i in range(n)] if t[0] != "tuple" else [7, [(i * 7) % 256 for i in range(n)]]
            jobs.append({"id": "lit-long:%s:%d" % (T.T_str(t), n), "family": "literal:long", "type": to_json(t), "lens": [n], "version": 6, "backend": "main",
                         "literal": to_json(lit), "fn": "encode"})
    for j in jobs[:: max(1, len(jobs) // 5)]:
        j["want_sample"] = True
        j["keep_teal"] = True
    return jobs


def dispatch(job):
    if job.get("fn") == "descriptor":
        return descriptor_job(job)
    if job.get("fn") == "copy":
        from ..arc4.abijob import copy_job
        return copy_job(job)
    from ..arc4.abijob import encode_job
    return encode_job(job)


def main():
    t, sd = tier(), seed()
    rep = Report(PROP)
    jobs = build_jobs(t, sd)
    results = run_jobs("verif.checks.c06:dispatch", jobs, chunksize=4)
    return summarize(rep, jobs, results, PROP, "model_checking",
                     "type shapes (curated: every leaf, arrays, bool runs of 1/2/7/8/9/16/17, split bool runs, dynamic members in every position, "
                     "nesting to depth 2; pairwise leaves; random to depth 3 in the thorough tier) x length vectors of the dynamic parts x versions "
                     "x storage back-ends; leaves set from symbolic expressions (all values) and from Python literals (boundary values); descriptor facts vs algosdk",
                     extra_cov={"functions_encoded": "emitted TEAL of value-assembly programs (pyteal/ast/abi/*.py set/encode paths) under SymAVM; oracle verif/arc4/model.py (validated against algosdk.abi)"},
                     features_fn=lambda v: v.get("features", []))


def replay(record):
    from ..arc4.abijob import encode_job
    job = dict(record["job"])
    if record.get("kind") == "descriptor":
        return bool(descriptor_job(job)["violations"])
    if job.get("fn") == "copy":
        from ..arc4.abijob import copy_job
        r = copy_job(job)
    else:
        r = encode_job(job)
    print([(v.get("what"), v.get("teal_outcome"), v.get("reference_outcome")) for v in r["violations"]][:2])
    return bool(r["violations"])


if __name__ == "__main__":
    sys.exit(main())
