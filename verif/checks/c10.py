"""C10 - every variable is its own storage cell; slot limits are enforced.

Marker programs: n variables (automatic, explicitly numbered, dynamically indexed; in main, in
subroutines, shared) are each stored a distinct marker derived from a symbolic input and loaded
back; translation validation against the recipe semantics (one cell per variable) shows for all
inputs that every load returns its own variable's marker, that index() is the requested id and
that a DynamicScratchVar reaches the variable it points to.  Programs needing more than 256 slots
or requesting one id twice must be rejected.  ABI values as frame locals (incl. 127/128/129/140
locals in one subroutine) are checked with a dedicated builder."""
import sys

from ..common import Report, from_json, run_jobs, seed, tier, to_json
from ..recipe import gen_slots
from .c01 import summarize

PROP = "C10"


def slot_job(job):
    from ..tvjob import tv_recipe_job
    r = tv_recipe_job(job)
    must_reject = job["needed"] > 256 or job["dup"]
    r["must_reject"] = must_reject
    if must_reject and r["status"] == "ok":
        r.setdefault("violations", []).append({"kind": "accepted-beyond-limit" if job["needed"] > 256 else "accepted-duplicate-id",
                                               "recipe": job["rec"], "version": job["version"], "optimize": job.get("optimize"), "mode": "A",
                                               "needed": job["needed"], "job": {k: v for k, v in job.items() if k != "rec"}})
        r["replayed"] = r.get("replayed", 0) + 1
    if not must_reject and r["status"] == "rejected":
        r["unexpected_rejection"] = 1
    return r


def frame_job(job):
    """n ABI uint64 values as locals of ONE subroutine (frame variables under frame pointers): every
    value must read back its own marker"""
    import pyteal as pt
    import z3
    from ..arc4.abijob import _common, _finish, _try, _concrete_run, _expected_outcome
    from ..arc4 import programs as P
    from ..avm.ctx import CtxConfig
    from ..avm.engine import Engine, Outcome
    from ..avm.sym import Bounds
    from ..avm.values import Bs, U, u64_to_bytes
    from .. import tv
    n = job["n"]

    def build():
        def body(output=None):
            xs = [pt.abi.Uint64() for _ in range(n)]
            st = [x.set(pt.Txn.fee() ^ pt.Int(i)) for i, x in enumerate(xs)]
            for c in range(0, n, 100):
                st.append(pt.Log(pt.Concat(*[pt.Itob(x.get()) for x in xs[c:c + 100][::-1]])) if len(xs[c:c + 100]) > 1 else pt.Log(pt.Itob(xs[c].get())))
            if output is not None:
                st.append(output.set(xs[-1]))
            return pt.Seq(*st)
        if job.get("abi_output"):
            # the locals of an ABIReturnSubroutine share the frame with its output (frame cell 0)
            @pt.ABIReturnSubroutine
            def many_locals_out(*, output: pt.abi.Uint64):
                return body(output)
            res = pt.abi.Uint64()
            return P.compile_abi(pt.Seq(many_locals_out().store_into(res), pt.Approve()), job["version"], job.get("optimize"))

        @pt.Subroutine(pt.TealType.none)
        def many_locals():
            return body()
        return P.compile_abi(pt.Seq(many_locals(), pt.Approve()), job["version"], job.get("optimize"))

    out, prog, teal = _common(job, build)
    if prog is None:
        return out
    cfg = CtxConfig(mode="A", version=job["version"])
    eng = Engine(timeout_ms=20000, max_paths=200)
    fee = z3.BitVec("g0.Fee", 64)
    nof = z3.BoolVal(True)
    effects = []
    for c in range(0, n, 100):
        bs = []
        for i in list(range(c, min(n, c + 100)))[::-1]:
            bs += u64_to_bytes(fee ^ z3.BitVecVal(i, 64), 8)
        effects.append(("log", Bs(bs)))
    refs = [Outcome([], "return", ret=U(1), effects=effects, shape={"GroupIndex": 0})]
    runner = tv.teal_runner_for(prog, cfg, eng, Bounds(loop_k=2, call_depth=4, max_steps=50000))
    res = tv.check_against(refs, runner, eng, want_sample=job.get("want_sample", False))
    _finish(out, job, res, eng)
    for cand in res.candidates:
        conc = tv.concretize(cand["model"], cand["shape"])
        teal2, st2, _ = _try(build)
        p = _concrete_run(teal2, cfg, conc)
        out["replayed"] += 1
        f = int(conc.get("g0.Fee", 0))
        q = Outcome([], "return", ret=U(1), effects=[("log", Bs(list(b"".join((f ^ i).to_bytes(8, "big") for i in list(range(c, min(n, c + 100)))[::-1]))))
                                                      for c in range(0, n, 100)])
        if tv.outcomes_differ_concretely(p, q):
            out["violations"].append({"kind": "frame-locals", "n": n, "job": job, "input": tv.jsonable_conc(conc),
                                      "teal_outcome": tv.describe_outcome(p), "reference_outcome": tv.describe_outcome(q)})
            break
        out["unconfirmed"] += 1
    return out


def dispatch(job):
    if job.get("fn") == "frame":
        return frame_job(job)
    return slot_job(job)


def build_jobs(t, sd):
    thorough = t != "quick"
    jobs = []
    for v in ([5, 6, 8, 10] if not thorough else [3, 4, 5, 6, 7, 8, 9, 10]):
        fam = gen_slots.slot_family("A", v, thorough)
        if v < 4:
            fam = [x for x in fam if not x[1].get("subs")]
        elif v >= 5:
            fam += gen_slots.byref_forward_family("A", v)
            fam += gen_slots.index_only_family("A", v)
        for (name, rec, needed, dup) in fam:
            opts = [None]
            if (thorough or "n2:" in name or "n10:" in name or "skip" in name) and v >= 8:
                opts += [{"frame_pointers": False}, {"scratch_slots": False}]
            elif thorough or v == 6:
                opts += [{"scratch_slots": True}]
            for oi, opt in enumerate(opts):
                jobs.append({"id": "%s@v%d/o%d" % (name, v, oi), "family": ":".join(name.split(":")[:2]), "rec": to_json(rec), "version": v, "mode": "A",
                             "optimize": opt, "needed": needed, "dup": dup, "loop_k": 2, "call_depth": 3, "max_paths": 200})
    for v in ([8, 10] if not thorough else [8, 9, 10]):
        for n in (1, 2, 126, 127, 128, 129, 140, 200):
            for opt in (None, {"frame_pointers": False}):
                jobs.append({"id": "frame-locals:n%d@v%d%s" % (n, v, "" if opt is None else "/nofp"), "family": "frame-locals", "fn": "frame", "n": n,
                             "version": v, "optimize": opt})
                jobs.append({"id": "frame-locals-abi-output:n%d@v%d%s" % (n, v, "" if opt is None else "/nofp"), "family": "frame-locals", "fn": "frame", "n": n,
                             "version": v, "optimize": opt, "abi_output": True})
    jobs.sort(key=lambda j: -(j.get("needed") or j.get("n") or 0))
    for j in jobs[:: max(1, len(jobs) // 5)]:
        j["want_sample"] = True
        j["keep_teal"] = True
    return jobs


def main():
    t, sd = tier(), seed()
    rep = Report(PROP)
    jobs = build_jobs(t, sd)
    results = run_jobs("verif.checks.c10:dispatch", jobs, chunksize=2)
    unexpected = [r["id"] for r in results if r.get("unexpected_rejection")]
    must = sum(1 for r in results if r.get("must_reject"))
    return summarize(rep, jobs, results, PROP, "model_checking",
                     "marker programs: n in {1,2,3,10,127,128,200,254,255,256,257,300} automatic variables x explicit ids (none, 0, 1, 5, 128, 254/255, colliding, dense, "
                     "below the number of automatic ones) x placement (main, split over main and a subroutine, explicit shared) x dynamic indexing x options; "
                     "n ABI values as locals of one subroutine (1..200, around 127/128)",
                     extra_cov={"programs_that_must_be_rejected": must, "rejections_of_programs_within_the_limit": unexpected[:20]},
                     features_fn=lambda v: v.get("features", []))


def replay(record):
    if record.get("kind") == "frame-locals":
        return bool(frame_job(dict(record["job"]))["violations"])
    if record.get("kind", "").startswith("accepted-"):
        job = dict(record["job"])
        job["rec"] = record["recipe"]
        return any(v.get("kind", "").startswith("accepted-") for v in slot_job(job).get("violations", []))
    from ..tvjob import replay_file
    return replay_file(record)


if __name__ == "__main__":
    sys.exit(main())
