"""C05 - emitted code keeps stack and type discipline on every path.

Static part: the height/arity/type constraint systems of verif/cfgcheck.py over the CFG of every
emitted program (all syntactic paths, loops unbounded), decided by z3.
Dynamic part: SymAVM explores all feasible paths within the bounds; a feasible discipline failure
(stack underflow, wrong operand type, bad frame index, fall-through, retsub with empty call stack)
is a violation with a concrete input, replayed on the concrete interpreter."""
import re
import sys
from collections import Counter

from ..avm.ctx import ASSUMPTIONS
from ..avm.engine import Engine, HarnessError
from ..avm.sym import Bounds, SymAVM
from ..common import Report, from_json, run_jobs, seed, tier, to_json, write_evidence
from ..recipe import gen, gen_const, gen_fields, gen_ill, gen_opt, gen_slots, gen_subs
from ..teal.parse import TealSyntaxError, check_program, parse
from .. import cfgcheck, features, tv, tvjob

PROP = "C05"


def declared_arities(prog, rec):
    out = {}
    byname = {}
    for name, sd in rec.get("subs", {}).items():
        byname[re.sub(r"[^A-Za-z0-9]", "", sd.get("name") or sd.get("pyname") or name)] = sd
    for lbl in prog.labels:
        m = re.match(r"^(.*)_(\d+)$", lbl)
        if m and m.group(1) in byname:
            sd = byname[m.group(1)]
            out[lbl] = (len(sd["params"]), 0 if sd["ret"] == "n" else 1)
    return out


def discipline_job(job):
    rec = from_json(job["rec"])
    rec.setdefault("mode", job.get("mode", "A"))
    out = {"id": job["id"], "family": job.get("family"), "version": job["version"], "status": "ok", "violations": [],
           "static": None, "paths": 0, "dpaths": 0, "replayed": 0, "unconfirmed": 0}
    teal, st, detail = tvjob.try_compile(rec, job["version"], job.get("optimize"), job.get("assemble", False))
    out["status"], out["detail"] = st, detail
    if st != "ok":
        return out
    try:
        prog = parse(teal)
    except TealSyntaxError as e:
        out["violations"].append({"kind": "unparsable", "detail": str(e), "recipe": to_json(rec), "teal": teal})
        return out
    r = cfgcheck.analyze(prog, declared_arities(prog, rec), timeout_ms=job.get("timeout_ms", 20000))
    out["static"] = {k: r.get(k) for k in ("heights", "types", "queries", "solver_time", "solver_time_types", "type_constraints", "instructions", "max_height")}
    out["AR"] = {k: list(v) for k, v in r.get("AR", {}).items()}
    base = {"recipe": to_json(rec), "version": job["version"], "optimize": job.get("optimize"), "assemble": job.get("assemble", False),
            "mode": rec["mode"], "teal": teal, "job": {k: v for k, v in job.items() if k != "rec"}}
    if r["structural"]:
        out["violations"].append(dict(base, kind="structural", detail=r["structural"][:5]))
    if r["heights"] == "unsat":
        out["violations"].append(dict(base, kind="static-height", detail=r["height_core"]))
    elif r["heights"] != "sat":
        out["inconclusive"] = 1
    if r["types"] == "unsat":
        out["violations"].append(dict(base, kind="static-type", detail=r["type_core"]))
    elif r["types"] not in ("sat", None):
        out["inconclusive"] = out.get("inconclusive", 0) + 1
    if job.get("sample"):
        out["sample"] = {"teal": teal[:1200], "AR": out["AR"], "static": out["static"]}
    # dynamic part
    if job.get("dynamic", True):
        cfg = tvjob.make_cfg(job)
        eng = Engine(timeout_ms=job.get("timeout_ms", 10000), max_paths=job.get("max_paths", 2000))
        try:
            outs = eng.explore(SymAVM(prog, cfg, Bounds(loop_k=job.get("loop_k", 2), call_depth=job.get("call_depth", 3))).run)
        except HarnessError as e:
            out["harness"] = [str(e)]
            outs = []
        out["paths"] = len(outs)
        out["stats"] = eng.stats.as_dict()
        seen = set()
        for o in outs:
            if not (o.verdict == "fail" and o.kind.startswith("D:")):
                continue
            out["dpaths"] += 1
            key = o.kind.split(":")[1]
            if key in seen:
                continue
            seen.add(key)
            if eng.check(*o.pc) != "sat":
                continue
            conc = tv.concretize(eng.solver.model(), o.shape)
            big = Bounds(loop_k=300, call_depth=64, max_steps=200000)
            teal2, st2, _ = tvjob.try_compile(rec, job["version"], job.get("optimize"), job.get("assemble", False))
            p = tv.run_concrete(lambda c: SymAVM(parse(teal2), c, big).run, cfg, conc)
            out["replayed"] += 1
            if p.verdict == "fail" and p.kind.startswith("D:"):
                out["violations"].append(dict(base, kind="dynamic", detail=p.kind, input=tv.jsonable_conc(conc)))
            else:
                out["unconfirmed"] += 1
    if out["violations"] and (job.get("optimize") or {}).get("scratch_slots") is not False:
        t0, st0, _ = tvjob.try_compile(rec, job["version"], dict(job.get("optimize") or {}, scratch_slots=False), job.get("assemble", False))
        if st0 == "ok":
            for v in out["violations"]:
                v["teal_unoptimised"] = t0
    return out


def build_jobs(t, sd):
    thorough = t != "quick"
    jobs = []
    versions = list(range(2, 11)) if thorough else [2, 4, 6, 8, 10]
    for vi, v in enumerate(versions):
        for mode in ("A", "S") if (thorough or v in (2, 6)) else ("A",):
            # (quick: every second control skeleton, the offset rotating with the version so that every skeleton is used)
            fams = gen.control_family(mode, v, thorough)[(0 if thorough else vi % 2):: (1 if thorough else 2)]
            fams += gen.operator_sweep(mode, v, thorough)
            fams += gen.env_family(mode, v)
            fams += gen_fields.field_probes(mode, v)
            fams += gen_fields.maybe_probes(mode, v)
            if v >= 4:
                fams += gen_subs.sub_family(mode, v, thorough)
                if mode == "A" and (thorough or v in (6, 8)):
                    fams += [x for x in gen_subs.abi_sub_family(mode, v) if thorough or "abi-fact" not in x[0]]
            if v >= 3 and mode == "A":
                fams += gen_opt.opt_family(mode, v, False)[(vi % (2 if thorough else 7)):: (2 if thorough else 7)]
                fams += gen_const.const_family(mode, v, sd, False)[::3]
            # source programs that break a typing rule: nothing is demanded when they are rejected, but an
            # accepted one must be as disciplined as any other program
            fams += gen_ill.ill_family(mode, v)
            if mode == "A" and (thorough or v in (4, 8, 10)):
                # differently typed variables, some explicitly numbered: a shared slot would hand a consumer the wrong type
                fams += gen_slots.typed_slot_family(mode, v)
            if thorough:
                fams += gen.random_family(mode, v, sd, 30)
            for (name, rec, opts) in fams:
                for oi, opt in enumerate(gen_subs.sub_options(v, thorough)):
                    if name.startswith("field:") and oi > 0:
                        continue
                    j = {"id": "%s@v%d%s/o%d" % (name, v, mode, oi), "family": ":".join(name.split(":")[:2]), "rec": to_json(rec),
                         "version": v, "mode": mode, "optimize": opt, "loop_k": 2, "call_depth": 3, "lens": (0, 1, 3),
                         "dynamic": not name.startswith("field:")}
                    j.update(opts)
                    jobs.append(j)
    for j in jobs[:: max(1, len(jobs) // 4)]:
        j["sample"] = True
    return jobs


def feats(v):
    fs = set(features.recipe_features(from_json(v["recipe"]), v))
    if v.get("teal_unoptimised"):
        fs |= features.unoptimised_teal_features(v["teal_unoptimised"])
    return fs


def main():
    t, sd = tier(), seed()
    rep = Report(PROP)
    jobs = build_jobs(t, sd)
    results = run_jobs("verif.checks.c05:discipline_job", jobs)
    st = Counter()
    agg = Counter()
    samples, crashes = [], []
    solver_time = 0.0
    for r in results:
        if "harness_error" in r:
            rep.harness_error("%s: %s" % (r.get("_job"), r["harness_error"]))
            continue
        if r.get("timed_out"):
            agg["inconclusive"] += 1
            continue
        st[r["status"]] += 1
        if r["status"] == "crash":
            crashes.append({"id": r["id"], "detail": r["detail"]})
        if r["status"] != "ok":
            continue
        s = r.get("static") or {}
        agg["static_queries"] += s.get("queries", 0) + (1 if s.get("types") else 0)
        agg["height_sat"] += s.get("heights") == "sat"
        agg["type_sat"] += s.get("types") == "sat"
        agg["instructions"] += s.get("instructions", 0)
        agg["type_constraints"] += s.get("type_constraints", 0) or 0
        solver_time += (s.get("solver_time") or 0) + (s.get("solver_time_types") or 0)
        agg["inconclusive"] += r.get("inconclusive", 0)
        agg["paths"] += r.get("paths", 0)
        agg["dpaths"] += r.get("dpaths", 0)
        agg["replayed"] += r.get("replayed", 0)
        agg["unconfirmed"] += r.get("unconfirmed", 0)
        for k, v in (r.get("stats") or {}).items():
            agg["s_" + k] += v
        for h in r.get("harness", []):
            agg["dynamic_skipped"] += 1
        if r.get("sample") and len(samples) < 4:
            samples.append(dict(r["sample"], id=r["id"]))
        for v in r["violations"]:
            rep.violation(v, feats(v) if v.get("recipe") else [])
    solver_time += agg["s_solver_time"]
    cov = {
        "states": agg["instructions"] + agg["s_steps"], "transitions": agg["type_constraints"] + agg["s_forks"],
        "traces_validated_against_impl": agg["replayed"], "samples": samples or [{"id": "none"}],
        "evaluations": len(jobs), "distinct_nontrivial": st["ok"],
        "rule": "one (recipe, version, mode, options) instance per evaluation; non-trivial = compiled successfully and analysed",
        "programs": st["ok"], "obligations": agg["static_queries"] + agg["paths"], "discharged": agg["height_sat"] + agg["type_sat"] + agg["paths"] - agg["dpaths"],
        "inconclusive": agg["inconclusive"] + agg["unconfirmed"],
        "static_height_systems_sat": agg["height_sat"], "static_type_systems_sat": agg["type_sat"],
        "feasible_paths_explored": agg["paths"], "feasible_discipline_failures": agg["dpaths"],
        "dynamic_exploration_skipped": agg["dynamic_skipped"],
        "solver_time_s": round(solver_time, 2), "solver": "z3 " + __import__("z3").get_version_string(),
        "compile_status": dict(st), "compiler_crashes": crashes[:30], "known_findings_hit": dict(rep.known_hits),
        "bounds": {"static": "all syntactic paths, loops unbounded", "dynamic": "loop K=2, call depth 3, byte lengths (0,1,3)"},
        "functions_encoded": "CFG of the emitted TEAL of every program (verif/cfgcheck.py: heights/arity in LIA, cell and slot types as Booleans); SymAVM for feasible paths",
    }
    if st["ok"] == 0 or len(crashes) > 0.1 * len(jobs):
        rep.harness_error("cannot explore: %d ok, %d crashes" % (st["ok"], len(crashes)))
    write_evidence(PROP, "model_checking", cov, ASSUMPTIONS + [
        "declared arities (A,R) of recipe routines are taken from the recipe; under proto from the proto line",
        "slot types are tracked flow-sensitively; a callee may change the type of any slot it (transitively) stores to",
        "programs using the raw ScratchSlot.store() escape hatch are not generated"], rep.wall(), len(rep.violations))
    return rep.finish(inconclusive=agg["inconclusive"] + agg["unconfirmed"], obligations=max(1, agg["static_queries"] + agg["paths"]))


def replay(record):
    rec = from_json(record["recipe"])
    job = dict(record.get("job", {}))
    job["rec"] = to_json(rec)
    job["sample"] = False
    r = discipline_job(job)
    kinds = [v["kind"] for v in r.get("violations", [])]
    print("violations on the current tree:", [(v["kind"], v.get("detail")) for v in r.get("violations", [])][:4])
    return record.get("kind") in kinds


if __name__ == "__main__":
    sys.exit(main())
