"""C15 - source maps (claimed ONLY for the codec clause).

"the Revision-3 JSON encoding decodes back to the same line and column associations": the base64-VLQ
encoder and decoder (pyteal/compiler/sourcemap.py _base64vlq_encode / _base64vlq_decode) are executed
symbolically FROM THEIR CURRENT SOURCE (verif/py2smt/ints.py, z3 bit-vectors, solver-decided
branches, loops unrolled with an unwinding assertion):
  P1  for every v with |v| < 2^31: decode(encode(v)) = [v]
  P2  every emitted digit is in 0..63 and the two lookup tables are inverse on those digits (the table
      lookups themselves are precomputed constants, checked exhaustively)
  P3  for every 4- and 5-tuple of values with |v| < 2^10: decode(encode(*vs)) = vs   (segments)
Auxiliary (replay, not a proof): R3SourceMap.to_json -> from_json on maps whose line/column/source
values are chosen by z3 to hit multi-digit, negative and re-ordered-source deltas.
NOT covered: byte-identity of TEAL with/without a map, one entry per line, attribution of constants
to (file, line), annotated TEAL - facts about Python stack inspection, no input dimension."""
import sys
import time
from collections import Counter

import z3

from ..avm.engine import Engine, Outcome
from ..common import Report, seed, tier, write_evidence
from ..py2smt import ints as PI

PROP = "C15"


def explore_roundtrip(nvals: int, bits: int, unwind: int, timeout_ms: int):
    """-> list of obligations (dict), each one path of encode followed by decode"""
    from pyteal.compiler import sourcemap as SM
    globs = {"mask": SM.mask, "flag": SM.flag, "shiftsize": SM.shiftsize}
    # word width: Python ints are unbounded; within the stated range every intermediate of the two kernels stays below
    # 2^(bits+8) (sign-tagged magnitude < 2^(bits+1), at most one extra digit of 5 bits while decoding), so bits+10 bits lose nothing
    PI.W = bits + 10
    vs = [z3.BitVec("v%d" % i, PI.W) for i in range(nvals)]
    rng = z3.And(*[z3.And(v > z3.BitVecVal(-(1 << bits), PI.W), v < z3.BitVecVal(1 << bits, PI.W)) for v in vs])
    eng = Engine(timeout_ms=timeout_ms, max_paths=20000)
    obligations = []

    def run(path):
        path.assume(rng)
        enc = PI.Interp(SM._base64vlq_encode, path, globs, unwind, overrides={"return": lambda env: env["results"]})
        digits = enc.call([], varargs=list(vs))
        dec = PI.Interp(SM._base64vlq_decode, path, globs, unwind * nvals + 1, overrides={"for_iter": lambda node: list(digits)})
        res = dec.call([None])
        return Outcome([], "return", extra={"digits": digits, "decoded": res})

    outs = eng.explore(run)
    for o in outs:
        ob = {"path": [bool(d) if not isinstance(d, str) else d for d in o.decisions], "ndigits": None}
        if o.verdict == "cut":
            ob.update(result="unwinding assertion failed", kind="cut")
            obligations.append((ob, None, o))
            continue
        digits, res = o.extra["digits"], o.extra["decoded"]
        ob["ndigits"] = len(digits)
        # P1/P3: decoded list equals the inputs
        neg = []
        if not isinstance(res, list) or len(res) != nvals:
            neg.append(z3.BoolVal(True))
        else:
            neg.append(z3.Or(*[PI.bv(r) != v for r, v in zip(res, vs)]))
        # P2: digits are base64 digits
        neg.append(z3.Or(*[z3.Or(PI.bv(d) < 0, PI.bv(d) > 63) for d in digits]) if digits else z3.BoolVal(False))
        # stated range => no 64-bit overflow in the kernel: the sign-tagged magnitude fits
        s = z3.Solver()
        s.set("timeout", timeout_ms)
        s.add(*o.pc)
        s.add(z3.Or(*neg))
        t0 = time.time()
        r = str(s.check())
        ob.update(result=r, time=round(time.time() - t0, 4))
        model = s.model() if r == "sat" else None
        obligations.append((ob, ([model.eval(v, model_completion=True).as_signed_long() for v in vs] if model is not None else None), o))
    return obligations, eng.stats, len(outs)


def real_roundtrip(values):
    from pyteal.compiler import sourcemap as SM
    try:
        enc = SM._base64vlq_encode(*values)
        dec = SM._base64vlq_decode(enc)
    except Exception as e:  # noqa
        return "%s: %s" % (type(e).__name__, e)
    if any(c not in "ABCDEFGHIJKLMNOPQRSTUVWXYZabcdefghijklmnopqrstuvwxyz0123456789+/" for c in enc):
        return "encoded text %r leaves the base64 alphabet" % enc
    return None if list(dec) == list(values) else "decode(encode(%r)) = %r" % (list(values), list(dec))


def tables_inverse():
    from pyteal.compiler import sourcemap as SM
    bad = [d for d in range(64) if SM._b64table[SM._b64chars[d]] != d]
    alph = bytes(SM._b64chars) == b"ABCDEFGHIJKLMNOPQRSTUVWXYZabcdefghijklmnopqrstuvwxyz0123456789+/"
    return bad, alph


def solver_chosen_maps(timeout_ms, k):
    """R3 source maps whose numbers are chosen by z3 so that the delta encoding has to cope with multi-digit
    deltas (>= 512, >= 16384), negative deltas and a source order that is not alphabetical"""
    maps = []
    for variant in range(k):
        n = 4
        gcol = [z3.Int("gc%d" % i) for i in range(n)]
        sl = [z3.Int("sl%d" % i) for i in range(n)]
        sc = [z3.Int("sc%d" % i) for i in range(n)]
        si = [z3.Int("si%d" % i) for i in range(n)]
        s = z3.Solver()
        s.set("timeout", timeout_ms)
        for i in range(n):
            s.add(gcol[i] >= 0, gcol[i] < 100000, sl[i] >= 0, sl[i] < 100000, sc[i] >= 0, sc[i] < 100000, si[i] >= 0, si[i] <= 1)
        s.add(si[0] == 0)
        if variant % 5 == 0:
            s.add(sl[1] - sl[0] >= 512, sl[2] - sl[1] <= -16384, sc[3] - sc[2] >= 16384)
        elif variant % 5 == 1:
            s.add(sl[0] >= 600, gcol[1] >= 40000, si[1] == 1, si[2] == 0, sl[2] < sl[1] - 1000)
        elif variant % 5 == 2:
            s.add(sl[1] - sl[0] == 511, sl[2] - sl[1] == 512, sl[3] - sl[2] == -512, sc[1] == 15, sc[2] == 16, sc[3] == 31)
        elif variant % 5 == 3:
            s.add(si[1] == 1, si[3] == 1, sl[3] >= 32768, sc[0] >= 1024)
        else:
            # positions at the very beginning: source line 0 / column 0 are ordinary values
            s.add(sl[0] == 0, sc[0] == 0, sl[2] == 0, sc[2] == 0, sl[1] >= 100)
        s.add(gcol[0] > variant)
        if variant % 5 != 4:
            s.add(sl[0] > variant)
        if str(s.check()) != "sat":
            continue
        m = s.model()
        maps.append([{"gline": i, "gcol": m.eval(gcol[i], model_completion=True).as_long(), "src": m.eval(si[i], model_completion=True).as_long(),
                      "sline": m.eval(sl[i], model_completion=True).as_long(), "scol": m.eval(sc[i], model_completion=True).as_long()} for i in range(n)])
    return maps


def map_roundtrip(entries):
    """real R3SourceMap.to_json -> from_json on the given entries; the first source is named so that it sorts LAST"""
    from pyteal.compiler.sourcemap import R3SourceMap, R3SourceMapping
    names = ["zz_entry.py", "aa_lib.py"]
    ents = {}
    index = []
    for e in entries:
        while len(index) <= e["gline"]:
            index.append([])
        index[e["gline"]].append(e["gcol"])
        try:
            ents[(e["gline"], e["gcol"])] = R3SourceMapping(line=e["gline"], column=e["gcol"], source=names[e["src"]], source_line=e["sline"], source_column=e["scol"])
        except Exception as ex:  # noqa
            return "a mapping to (%s, line %d, column %d) cannot be built: %s: %s" % (names[e["src"]], e["sline"], e["scol"], type(ex).__name__, str(ex)[:100])
    try:
        sm = R3SourceMap(filename=None, source_root=None, entries=ents, index=[tuple(x) for x in index])
        js = sm.to_json()
        back = R3SourceMap.from_json(js, add_right_bounds=False)
    except Exception as ex:  # noqa
        return "%s: %s" % (type(ex).__name__, str(ex)[:120])
    for key, m in ents.items():
        b = back.entries.get(key)
        if b is None:
            return "entry %r is missing after the round trip" % (key,)
        if (b.source, b.source_line, b.source_column) != (m.source, m.source_line, m.source_column):
            return "entry %r decodes to %r, was %r" % (key, (b.source, b.source_line, b.source_column), (m.source, m.source_line, m.source_column))
    return None


def smoke_run():
    """-> list of problems, or a string when the run itself failed"""
    import json
    import os
    import subprocess
    script = os.path.join(os.path.dirname(os.path.abspath(__file__)), "c15_smoke.py")
    try:
        pr = subprocess.run([sys.executable, script], capture_output=True, text=True, timeout=600, cwd=os.path.dirname(script))
    except Exception as e:  # noqa
        return "%s: %s" % (type(e).__name__, e)
    for ln in pr.stdout.splitlines():
        if ln.startswith("C15SMOKE "):
            return json.loads(ln[len("C15SMOKE "):])
    return "no result line (exit %d): %s" % (pr.returncode, (pr.stderr or "")[-300:])


def main():
    t, sd = tier(), seed()
    rep = Report(PROP)
    tmo = 120000 if t == "quick" else 600000
    agg = Counter()
    samples = []
    solver_time = 0.0
    steps = forks = 0
    runs = [(1, 31, 8), (4, 10, 4), (5, 10, 4)] if t == "quick" else [(1, 31, 8), (1, 40, 10), (2, 20, 6), (4, 10, 4), (5, 10, 4), (4, 14, 5)]
    try:
        for nvals, bits, unwind in runs:
            obs, stats, npaths = explore_roundtrip(nvals, bits, unwind, tmo)
            steps += stats.solver_calls
            forks += stats.forks
            solver_time += stats.solver_time
            for ob, witness, o in obs:
                agg["obligations"] += 1
                solver_time += ob.get("time", 0)
                if ob["result"] == "unsat":
                    agg["discharged"] += 1
                elif ob["result"] == "sat" or ob.get("kind") == "cut":
                    vals = witness
                    if vals is None:
                        # unwinding assertion: find a value on this path and replay it
                        s = z3.Solver()
                        s.add(*o.pc)
                        if str(s.check()) == "sat":
                            vals = [s.model().eval(z3.BitVec("v%d" % i, PI.W), model_completion=True).as_signed_long() for i in range(nvals)]
                    agg["replayed"] += 1
                    why = real_roundtrip(vals) if vals is not None else None
                    if why:
                        rep.violation({"kind": "vlq", "values": vals, "why": why}, ["vlq"])
                    elif ob.get("kind") == "cut":
                        rep.harness_error("unwinding bound %d too small for values below 2^%d (path cut, replay passes)" % (unwind, bits))
                    else:
                        agg["unconfirmed"] += 1
                else:
                    agg["inconclusive"] += 1
            if len(samples) < 3 and obs:
                samples.append({"values": nvals, "range_bits": bits, "paths": npaths, "first": obs[0][0], "last": obs[-1][0]})
    except PI.TranslatorError as e:
        rep.harness_error("the VLQ kernels can no longer be interpreted from their source: %s" % e)
    bad, alph = tables_inverse()
    agg["obligations"] += 1
    if bad or not alph:
        rep.violation({"kind": "tables", "digits_not_inverted": bad, "alphabet_is_base64": alph}, ["vlq-tables"])
    else:
        agg["discharged"] += 1
    # boundary replays of the real functions (witness-style, concrete)
    for v in (0, 1, -1, 15, 16, -16, 511, 512, -512, 16383, 16384, (1 << 31) - 1, -(1 << 31) + 1):
        agg["replayed"] += 1
        why = real_roundtrip([v])
        if why:
            rep.violation({"kind": "vlq", "values": [v], "why": why}, ["vlq"])
    for entries in solver_chosen_maps(tmo, 5 if t == "quick" else 20):
        agg["replayed"] += 1
        why = map_roundtrip(entries)
        if why:
            rep.violation({"kind": "map-roundtrip", "entries": entries, "why": why}, ["map-roundtrip"])
    # concrete smoke run of the real pipeline in an interpreter of its own (source mapping is switched on before pyteal is
    # imported); not the deciding method and not part of the claim - it only reports what it sees
    smoke = smoke_run()
    agg["replayed"] += 1
    if isinstance(smoke, str):
        rep.harness_error("source-map smoke run did not complete: %s" % smoke)
        smoke = []
    for pb in smoke:
        rep.violation(dict(pb, kind="sourcemap-smoke"), ["sourcemap-smoke"])
    cov = {"states": steps + agg["obligations"], "transitions": forks + agg["obligations"], "traces_validated_against_impl": agg["replayed"],
           "samples": samples or [{"none": True}], "evaluations": agg["obligations"] + agg["replayed"], "distinct_nontrivial": agg["obligations"],
           "rule": "one obligation per feasible path of encode followed by decode (digit counts per value); each is a distinct solver query",
           "obligations": agg["obligations"], "discharged": agg["discharged"], "inconclusive": agg["inconclusive"], "unconfirmed_models": agg["unconfirmed"],
           "bounds": {"runs (values, |v| < 2^bits, unwinding)": runs, "word width": "bits + 10 per run"},
           "solver_time_s": round(solver_time, 2),
           "functions_encoded": ["pyteal/compiler/sourcemap.py:_base64vlq_encode", "pyteal/compiler/sourcemap.py:_base64vlq_decode",
                                 "R3SourceMap.to_json / from_json (concrete replay on solver-chosen maps only)",
                                 "Compilation.compile(with_sourcemap=True, annotate_teal=...) (concrete smoke run of four small programs; not part of the claim)"],
           "not_covered": "TEAL identical with and without a source map; one entry per TEAL line; attribution of constants to (file, line); annotated TEAL"}
    write_evidence(PROP, "model_checking", cov, ["table lookups (_b64chars/_b64table) are precomputed constants checked exhaustively, the kernels are interpreted at digit level",
                                                 "Python ints are modelled as 64-bit vectors; the stated value ranges keep every intermediate below 2^63"], rep.wall(), len(rep.violations))
    return rep.finish(inconclusive=agg["inconclusive"] + agg["unconfirmed"], obligations=max(1, agg["obligations"]))


def replay(record):
    if record.get("kind") == "vlq":
        return real_roundtrip(record["values"]) is not None
    if record.get("kind") == "map-roundtrip":
        return map_roundtrip(record["entries"]) is not None
    if record.get("kind") == "tables":
        bad, alph = tables_inverse()
        return bool(bad) or not alph
    if record.get("kind") == "sourcemap-smoke":
        now = smoke_run()
        print(now if isinstance(now, str) else [p["what"][:80] for p in now][:5])
        return not isinstance(now, str) and any(p.get("program") == record.get("program") and p.get("version") == record.get("version")
                                                  and p.get("annotate") == record.get("annotate") for p in now)
    return False


if __name__ == "__main__":
    sys.exit(main())
