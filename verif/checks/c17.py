"""C17 - reading a routine-local variable before writing it is rejected.

For every recipe: (i) the compiler's verdict (TEAL, or an error whose cause names a load);
(ii) the recipe's own structured CFG (verif/recipe/rcfg.py) and, per load of a routine-local
variable, a z3 query for a syntactic path from the routine entry to that load that visits no
store of the variable.  SAT => the compiler must reject, and the load it names must be one for
which such a path exists.  (iii) for accepted programs SymAVM runs the emitted TEAL with
uninitialised-slot tracking: a feasible read of a never-written slot is a violation."""
import sys
from collections import Counter

from ..avm.ctx import ASSUMPTIONS
from ..avm.engine import Engine, HarnessError
from ..avm.sym import Bounds, SymAVM
from ..common import Report, from_json, run_jobs, seed, tier, to_json, write_evidence
from ..recipe import gen_rw, rcfg
from ..teal.parse import parse
from .. import tv, tvjob

PROP = "C17"


def compile_with_sites(rec, version, optimize):
    import pyteal as pt
    from ..recipe.build import Builder, reset_pyteal_state
    reset_pyteal_state()
    b = Builder(rec)
    try:
        ast = b.main()
        kw = {}
        if optimize is not None:
            kw["optimize"] = pt.OptimizeOptions(**optimize)
        teal = pt.compileTeal(ast, pt.Mode.Application if rec.get("mode", "A") == "A" else pt.Mode.Signature, version=version, **kw)
        return teal, "ok", "", None
    except Exception as e:  # noqa
        name = type(e).__name__
        cause = e.__cause__ if e.__cause__ is not None else e
        named = None
        se = getattr(cause, "sourceExpr", None)
        if se is not None and id(se) in b.load_sites:
            named = b.load_sites[id(se)]
        msg = "%s: %s | cause %s: %s" % (name, str(e)[:120], type(cause).__name__, str(cause)[:80])
        if name in tvjob.PYTEAL_ERRORS:
            kind = "rejected-load-before-store" if "load occurs before store" in str(cause) else "rejected-other"
            return None, kind, msg, named
        return None, "crash", msg, None
    finally:
        reset_pyteal_state()


def slot_owners(rec):
    """variable -> the routine whose code mentions its slot (None = main), '*' when several do.  This is
    the compiler's own notion of routine-local: taking a variable's index (by-reference argument,
    DynamicScratchVar.set_index) mentions the slot in the routine that does it and nowhere else."""
    owners = {}

    def visit(e, who):
        if not isinstance(e, (tuple, list)):
            return
        if e and e[0] in ("Load", "Store", "Ref", "SlotIndex", "DynSet", "DynLoad", "DynStore"):
            for v in ([e[1], e[2]] if e[0] == "DynSet" else [e[1]]):
                if v in owners and owners[v] != who:
                    owners[v] = "*"
                elif v not in owners:
                    owners[v] = who
        for c in e[1:] if isinstance(e, tuple) else e:
            visit(c, who)

    visit(rec["main"], None)
    for name, sd in rec.get("subs", {}).items():
        visit(sd["body"], name)
    for v, d in rec.get("vars", {}).items():
        if d.get("shared"):
            owners[v] = "*"
    return owners


def analyse(rec, conservative=False, alias_stores=True):
    """-> list of (routine, var, site, status, path) for every tagged load of a routine-local variable.
    alias_stores=True: by-reference calls and stores through a dynamic variable count as stores of the
    variables they may reach (see rcfg.build_routine) - used for the "must reject" obligations.
    alias_stores=False: they are ignored, as the compiler's validator ignores them - used only to decide
    whether the load an error names may legitimately be named."""
    owners = slot_owners(rec)
    res = []
    routines = [(None, rec["main"])] + [(n, sd["body"]) for n, sd in rec.get("subs", {}).items()]
    nq = 0
    for rname, body in routines:
        g, entry = rcfg.build_routine(body, conservative=conservative, alias_stores=alias_stores)
        for nd in g.nodes:
            if nd.kind != "load" or owners.get(nd.var) != rname:
                continue
            if rec["vars"].get(nd.var, {}).get("dyn"):
                continue
            r, path = rcfg.unwritten_path(g, entry, nd.id, nd.var)
            nq += 1
            res.append({"routine": rname, "var": nd.var, "site": nd.site, "status": r,
                        "path": [(g.nodes[i].kind, g.nodes[i].var) for i in (path or []) if g.nodes[i].kind != "nop"], "nodes": len(g.nodes)})
    return res, nq


def rw_job(job):
    rec = from_json(job["rec"])
    rec.setdefault("mode", "A")
    out = {"id": job["id"], "family": job.get("family"), "version": job["version"], "violations": [], "queries": 0,
           "paths": 0, "replayed": 0, "steps": 0, "forks": 0}
    loads, nq = analyse(rec)
    out["queries"] = nq
    out["sat"] = sum(1 for l in loads if l["status"] == "sat")
    out["unsat"] = sum(1 for l in loads if l["status"] == "unsat")
    out["inconclusive"] = sum(1 for l in loads if l["status"] not in ("sat", "unsat"))
    teal, st, detail, named = compile_with_sites(rec, job["version"], job.get("optimize"))
    out["status"], out["detail"] = st, detail
    base = {"recipe": to_json(rec), "version": job["version"], "optimize": job.get("optimize"), "mode": rec["mode"],
            "job": {k: v for k, v in job.items() if k != "rec"}}
    must_reject = [l for l in loads if l["status"] == "sat"]
    if job.get("sample"):
        out["sample"] = {"main": str(rec["main"])[:600], "loads": loads[:4], "verdict": st}
    if st == "crash" or st == "rejected-other":
        return out
    if must_reject and st == "ok":
        out["violations"].append(dict(base, kind="accepted-despite-unwritten-path", witness=must_reject[0], teal=teal[-2500:]))
    if st == "rejected-load-before-store":
        if not must_reject:
            out["conservative_rejection"] = 1      # allowed by C17 (the compiler may be conservative); recorded only
        elif named is None:
            out["violations"].append(dict(base, kind="error-does-not-identify-a-load", detail=detail))
        elif not any(l["var"] == named[0] and l["site"] == named[1] for l in must_reject) and \
                not any(l["var"] == named[0] and l["site"] == named[1] and l["status"] == "sat"
                        for l in analyse(rec, conservative=True, alias_stores=False)[0]):
            # (the compiler treats Return/Break/Continue as falling through, so it may name a load in dead
            # code; that is conservative, not wrong - only a load that is written on every path even under
            # that reading must not be named)
            out["violations"].append(dict(base, kind="error-names-a-load-that-is-always-written", named=list(named), witness=must_reject[0]))
    if st == "ok":
        # (iii) no feasible read of a never-written slot in the emitted program
        prog = parse(teal)
        cfg = tvjob.make_cfg(job)
        cfg.uninit_tracking = True
        eng = Engine(timeout_ms=10000, max_paths=1500)
        try:
            outs = eng.explore(SymAVM(prog, cfg, Bounds(loop_k=2, call_depth=3)).run)
        except HarnessError as e:
            out["harness"] = [str(e)]
            outs = []
        out["paths"] = len(outs)
        out["steps"], out["forks"] = eng.stats.steps, eng.stats.forks
        for o in outs:
            if any(ef[0] == "uninit-read" for ef in o.effects):
                if eng.check(*o.pc) != "sat":
                    continue
                conc = tv.concretize(eng.solver.model(), o.shape)
                ccfg = tv.concrete_cfg(cfg, conc)
                p = tv.run_concrete(lambda c: SymAVM(prog, c, Bounds(loop_k=300, call_depth=64, max_steps=200000)).run, cfg, conc)
                out["replayed"] += 1
                if any(ef[0] == "uninit-read" for ef in p.effects):
                    out["violations"].append(dict(base, kind="uninitialised-read-at-run-time", input=tv.jsonable_conc(conc), teal=teal[-2500:]))
                    break
    return out


def build_jobs(t, sd):
    thorough = t != "quick"
    jobs = []
    level = "thorough" if thorough else "quick"
    for vi, (v, where) in enumerate([(6, "main"), (8, "sub"), (4, "sub"), (10, "main")] if not thorough else
                                    [(2, "main"), (5, "sub"), (6, "main"), (8, "sub"), (10, "main"), (10, "sub")]):
        fam = gen_rw.rw_family("A", v, level if v in (6, 8) else "quick", sd, where, nrandom=(400 if thorough else 60), offset=vi)
        if not thorough and v in (4, 10):
            fam = fam[vi % 4::4]
        # the same placements with an explicitly numbered (but still routine-local) variable
        fam += gen_rw.rw_family("A", v, "quick", sd, where, nrandom=(100 if thorough else 20), xslot=(7 if where == "main" else 200), offset=vi + 1)[(0 if thorough else vi):: (1 if thorough else 5)]
        for (name, rec, opts) in fam:
            j = {"id": "%s@v%d" % (name, v), "family": ":".join(name.split(":")[:2]), "rec": to_json(rec), "version": v, "mode": "A",
                 "optimize": None, "lens": (0, 1)}
            jobs.append(j)
            if v >= 8 and thorough:
                jobs.append(dict(j, id=j["id"] + "/nofp", optimize={"frame_pointers": False}))
    for v in ([6, 8, 10] if not thorough else [4, 5, 6, 7, 8, 9, 10]):
        for (name, rec, opts) in gen_rw.alias_family("A", v, level):
            j = {"id": "%s@v%d" % (name, v), "family": "rw-alias", "rec": to_json(rec), "version": v, "mode": "A", "optimize": None, "lens": (0, 1)}
            jobs.append(j)
            if v >= 8:
                jobs.append(dict(j, id=j["id"] + "/nofp", optimize={"frame_pointers": False}))
    for j in jobs[:: max(1, len(jobs) // 4)]:
        j["sample"] = True
    return jobs


def main():
    t, sd = tier(), seed()
    rep = Report(PROP)
    jobs = build_jobs(t, sd)
    results = run_jobs("verif.checks.c17:rw_job", jobs, chunksize=4)
    st = Counter()
    agg = Counter()
    samples, crashes = [], []
    for r in results:
        if "harness_error" in r:
            rep.harness_error("%s: %s" % (r.get("_job"), r["harness_error"]))
            continue
        if r.get("timed_out"):
            agg["inconclusive"] += 1
            continue
        st[r["status"]] += 1
        if r["status"] == "crash":
            crashes.append({"id": r["id"], "detail": r["detail"]})
        for k in ("queries", "sat", "unsat", "inconclusive", "paths", "replayed", "steps", "forks", "conservative_rejection"):
            agg[k] += r.get(k, 0)
        if r.get("sample") and len(samples) < 4:
            samples.append(dict(r["sample"], id=r["id"]))
        for v in r["violations"]:
            rep.violation(v, [])
    cov = {
        "states": agg["queries"] + agg["steps"], "transitions": agg["forks"] + agg["sat"] + agg["unsat"],
        "traces_validated_against_impl": agg["replayed"] + st["rejected-load-before-store"],
        "samples": samples or [{"id": "none"}], "evaluations": len(jobs), "distinct_nontrivial": agg["sat"] and (st["rejected-load-before-store"] + st["ok"]),
        "rule": "one recipe per evaluation; non-trivial = compiled or rejected for load-before-store (crashes and other rejections excluded)",
        "obligations": agg["queries"], "discharged": agg["sat"] + agg["unsat"], "inconclusive": agg["inconclusive"],
        "path_queries_sat": agg["sat"], "path_queries_unsat": agg["unsat"],
        "compiler_verdicts": dict(st), "conservative_rejections_recorded": agg["conservative_rejection"],
        "feasible_paths_explored_in_accepted_programs": agg["paths"], "compiler_crashes": crashes[:30],
        "bounds": {"syntactic paths": "complete (path length bound = number of CFG nodes)", "run-time part": "loop K=2, depth 3"},
        "functions_encoded": "recipe CFG (verif/recipe/rcfg.py) as a z3 path query per load; emitted TEAL under SymAVM with uninitialised-slot tracking",
    }
    if (st["ok"] + st["rejected-load-before-store"]) == 0 or len(crashes) > 0.25 * len(jobs):
        rep.harness_error("cannot explore: verdicts %s" % dict(st))
    write_evidence(PROP, "model_checking", cov, ASSUMPTIONS + [
        "conditions are two-way branches whatever their value (the property is about syntactic paths)",
        "a call that receives a variable by reference, and a store through a dynamic variable that is pointed at it anywhere in the routine, count as stores of it (over-approximation: only paths that avoid those too must be rejected)",
        "dynamic variables themselves and variables used by several routines are excluded from the obligations",
        "a rejection without an unwritten path is allowed (the compiler may be conservative) and only counted"], rep.wall(), len(rep.violations))
    return rep.finish(inconclusive=agg["inconclusive"], obligations=max(1, agg["queries"]))


def replay(record):
    rec = from_json(record["recipe"])
    job = dict(record.get("job", {}))
    job["rec"] = to_json(rec)
    r = rw_job(job)
    print([(v["kind"]) for v in r.get("violations", [])], r.get("status"), r.get("detail"))
    return record.get("kind") in [v["kind"] for v in r.get("violations", [])]


if __name__ == "__main__":
    sys.exit(main())
