"""C01 - compiled TEAL computes what the PyTeal expression denotes (translation validation)."""
import sys
import time
from collections import Counter

from ..avm.ctx import ASSUMPTIONS
from ..common import Report, run_jobs, seed, tier, to_json, write_evidence
from ..recipe import gen
from .. import features

PROP = "C01"


def build_jobs(t: str, sd: int):
    jobs = []
    if t == "quick":
        versions = {"A": [2, 4, 5, 6, 8, 10], "S": [2, 5, 8]}
        loop_k, nrand = 2, 0
    else:
        versions = {"A": list(range(2, 11)), "S": list(range(2, 11))}
        loop_k, nrand = 4, 600
    for mode, vs in versions.items():
        for v in vs:
            fams = []
            fams += gen.operator_sweep(mode, v, t != "quick")
            if t != "quick" or v in (2, 5, 6, 8, 10) or mode == "A":
                fams += gen.control_family(mode, v, t != "quick")
            fams += gen.env_family(mode, v)
            if v >= 9 and mode == "A":
                # from version 9 the scratch-slot optimiser runs by default: store/load placement programs against the reference
                from ..recipe import gen_opt
                fams += gen_opt.opt_family(mode, v, False)
            if mode == "A" and (t != "quick" or v in (6, 10)):
                # automatic variables next to explicitly numbered ones (ids at and around the positions the
                # allocator reaches): every variable must keep its own value
                from ..recipe import gen_slots
                for n, ex in ((3, [1, 2]), (4, [3]), (6, [2, 3, 4]), (3, [0, 1]), (5, [1, 3]), (4, [0, 2, 3]), (2, [1]), (7, [5, 6])):
                    for pl in ("main", "split"):
                        fams.append(("slotsmix:n%d:e%s:%s" % (n, "-".join(map(str, ex)), pl), gen_slots.slot_program(mode, v, n, ex, pl)[0], {}))
            if nrand:
                fams += gen.random_family(mode, v, sd, nrand)
            for (name, rec, opts) in fams:
                j = {"id": "%s@v%d%s" % (name, v, mode), "family": name.split(":")[0], "rec": to_json(rec),
                     "version": v, "mode": mode, "loop_k": loop_k, "call_depth": 3,
                     "lens": (0, 1, 3) if t == "quick" else (0, 1, 2, 3, 8)}
                j.update(opts)
                jobs.append(j)
                if mode == "A" and v == (6 if t == "quick" else v) and v >= 3 and name.startswith(("op:", "env:")):
                    # the same program with assembled constants (the compiler reads its own literals back)
                    jobs.append(dict(j, id=j["id"] + "/asm", assemble=True))
    # literals with non-ASCII and escaped characters, plain and assembled
    from ..recipe.gen import prog as _prog
    for v in ((6, 10) if t == "quick" else range(3, 11)):
        for ti, text in enumerate(("caf\u00e9", "\u00ff\u0080", "q\"b\\s\n", "\u6f22\U0001F600", "a//b;c")):
            rec = _prog("A", ("Return", ("Bin", "Eq", ("Un", "Len", ("BytesStr", text)), ("Un", "Len", ("AppArg", 0)))))
            rec2 = _prog("A", ("Return", ("Bin", "BytesEq", ("BytesStr", text), ("AppArg", 0)))) if v >= 4 else rec
            for asm in (False, True):
                for k, r in enumerate((rec, rec2)):
                    jobs.append({"id": "lit:str%d:%d@v%dA%s" % (ti, k, v, "/asm" if asm else ""), "family": "lit", "rec": to_json(r), "version": v, "mode": "A",
                                 "loop_k": loop_k, "call_depth": 3, "lens": tuple(sorted({0, len(text.encode("utf-8")), len(text.encode("utf-8")) + 1})), "assemble": asm})
    # a few sample queries for the evidence
    for j in jobs[:: max(1, len(jobs) // 5)]:
        j["want_sample"] = True
        j["keep_teal"] = True
    return jobs


def main(argv=None) -> int:
    t, sd = tier(), seed()
    rep = Report(PROP)
    jobs = build_jobs(t, sd)
    results = run_jobs("verif.tvjob:tv_recipe_job", jobs)
    return summarize(rep, jobs, results, PROP, "translation_validation",
                     "recipe trees (operator sweep, one-hole control contexts x fillers, environment/state/itxn programs"
                     + (", seeded random programs" if t != "quick" else "") + ") x versions x modes; "
                     "distinct = distinct (recipe, version, mode) that compiled; non-trivial = at least one non-failing path")


def summarize(rep: Report, jobs, results, prop, level, rule, extra_cov=None, features_fn=None) -> int:
    st = Counter()
    agg = Counter()
    samples = []
    crashes = []
    byid_cache = {}
    timed_out = []
    rejected = Counter()
    fam = Counter()
    nontrivial = 0
    for r in results:
        if "harness_error" in r:
            rep.harness_error("%s: %s" % (r.get("_job"), r["harness_error"]))
            continue
        st[r["status"]] += 1
        if r.get("timed_out"):
            agg["obligations"] += 1
            agg["inconclusive"] += 1
            timed_out.append(r.get("id"))
            continue
        if r["status"] == "crash":
            crashes.append({"id": r["id"], "detail": r["detail"]})
            continue
        if r["status"] == "rejected":
            rejected[r["detail"].split(":")[0]] += 1
            continue
        if r.get("complaints"):
            # the compiler emitted a text that cannot be assembled / executed at all (undecodable immediate, unknown
            # opcode or label): whatever the program was meant to do, it cannot do it
            agg["front_end_rejects"] += 1
            byid = byid_cache.setdefault("m", {j.get("id"): j for j in jobs})
            j = byid.get(r["id"], {})
            rep.violation({"kind": "unassemblable", "id": r["id"], "complaints": r["complaints"][:4], "teal": (r.get("teal") or "")[-2500:],
                           "job": {k: v for k, v in j.items() if k not in ("rec", "recB")}, "recipe": j.get("rec"), "version": r.get("version"),
                           "jobfn": r.get("_fn"), "fulljob": j},
                          ["unassemblable"])
            continue
        fam[r.get("family")] += 1
        for k in ("obligations", "discharged", "inconclusive", "ref_paths", "teal_paths", "ref_cut", "replayed", "unconfirmed"):
            agg[k] += r.get(k, 0)
        for k, v in r.get("stats", {}).items():
            agg["s_" + k] += v
        if r.get("nonfail", 0) > 0:
            nontrivial += 1
        for h in r.get("harness", []):
            rep.harness_error("%s: %s" % (r["id"], h))
        for v in r.get("violations", []):
            from ..common import from_json
            feats = features.recipe_features(from_json(v["recipe"]), v) if features_fn is None else features_fn(v)
            rep.violation(v, feats)
        if r.get("sample_query") and len(samples) < 4:
            samples.append({"id": r["id"], "teal": r.get("teal", "")[:1500], "query_smt2": r["sample_query"][:1500],
                            "obligations": r.get("obligations"), "paths": r.get("teal_paths")})
    if not samples:
        samples = [{"id": r.get("id"), "obligations": r.get("obligations")} for r in results[:3]]
    programs = st["ok"]
    cov = {
        "programs": programs,
        "disagreements_checked": agg["replayed"],
        "samples": samples,
        "evaluations": len(jobs),
        "distinct_nontrivial": nontrivial,
        "rule": rule,
        "states": agg["s_steps"],
        "transitions": agg["s_forks"] + agg["obligations"],     # solver-decided forks + solver-decided path-pair comparisons
        "traces_validated_against_impl": agg["replayed"],
        "obligations": agg["obligations"],
        "discharged": agg["discharged"],
        "inconclusive": agg["inconclusive"],
        "unconfirmed_models": agg["unconfirmed"],
        "reference_paths": agg["ref_paths"],
        "reference_paths_cut_by_bound": agg["ref_cut"],
        "teal_paths": agg["teal_paths"],
        "solver_calls": agg["s_solver_calls"],
        "solver_time_s": round(agg["s_solver_time"], 2),
        "solver": "z3 " + __import__("z3").get_version_string(),
        "compile_status": dict(st),
        "rejected_by_pyteal": dict(rejected),
        "compiler_crashes": crashes[:40],
        "jobs_over_the_time_limit (inconclusive)": timed_out[:40],
        "families": dict(fam),
        "known_findings_hit": dict(rep.known_hits),
        "functions_encoded": "emitted TEAL of every program (SymAVM); reference = recipe semantics (verif/recipe/ref.py)",
    }
    def _vals(key):
        out = set()
        for j in jobs:
            v = j.get(key)
            if v is None:
                continue
            out.add(tuple(v) if isinstance(v, (list, tuple)) else v)
        return sorted(out, key=str)[:12]
    cov["bounds"] = {"loop iterations per loop head (reference side; the TEAL side gets 2K+2)": _vals("loop_k"),
                     "call depth": _vals("call_depth"), "byte-string input lengths": _vals("lens"),
                     "versions": sorted({j["version"] for j in jobs if "version" in j}),
                     "solver timeout per query (ms)": _vals("timeout_ms") or [10000],
                     "outside the claim": "programs beyond the enumerated families; iteration counts / recursion depths / lengths above the listed ones; opcode budget; crypto ops are uninterpreted"}
    if extra_cov:
        cov.update(extra_cov)
    if crashes:
        kinds = Counter(c["detail"].split(":")[0] for c in crashes)
        print("NOTE property=%s %d of %d programs made the compiler raise a non-PyTeal exception (not explored; listed in the evidence): %s; e.g. %s: %s"
              % (prop, len(crashes), len(jobs), dict(kinds), crashes[0]["id"], crashes[0]["detail"][:120]))
    # too many unexplained crashes -> cannot explore
    if st["ok"] == 0 or len(crashes) > 0.1 * max(1, len(jobs)):
        rep.harness_error("cannot explore: %d ok, %d crashes of %d jobs" % (st["ok"], len(crashes), len(jobs)))
    code_preview = len(rep.violations)
    write_evidence(prop, level, cov, ASSUMPTIONS + [
        "loop iterations and recursion depth bounded (reference paths beyond the bound are skipped and counted)",
        "byte-string inputs take the listed lengths only",
        "worker resets SubroutineEval._current_proto before each build",
    ], rep.wall(), code_preview)
    return rep.finish(inconclusive=agg["inconclusive"] + agg["unconfirmed"], obligations=agg["obligations"])


if __name__ == "__main__":
    sys.exit(main())
