"""Concrete smoke run of the real source-map pipeline (C15; NOT the deciding method and not part of the claim:
these facts have no input dimension for a solver, see DESIGN.md section 3/C15).  Runs in its own interpreter because
source mapping has to be switched on before pyteal is imported.  Prints one JSON list of problems (empty = none).

For a handful of programs (adjacent identical TEAL lines, a subroutine, a loop, an expression on the very first line
of a source file): TEAL with a map == TEAL without; one map entry per TEAL line; every entry points at an existing
line of an existing file; the R3 JSON decodes back to the same entries; annotated TEAL minus comments == plain TEAL."""
import json
import os
import shutil
import sys
import tempfile

from feature_gates import FeatureGates

FeatureGates.set_sourcemap_enabled(True)

import pyteal as pt  # noqa: E402


def p_dup():
    return pt.Seq(pt.Pop(pt.Int(3) + pt.Int(3)), pt.Pop(pt.Bytes("ab")), pt.Int(1))


def p_sub():
    @pt.Subroutine(pt.TealType.uint64)
    def square(x):
        return x * x

    return pt.Seq(pt.Pop(square(pt.Int(5))), pt.Return(square(pt.Txn.fee()) > pt.Int(4)))


def p_loop():
    i = pt.ScratchVar(pt.TealType.uint64)
    return pt.Seq(
        pt.For(i.store(pt.Int(0)), i.load() < pt.Int(3), i.store(i.load() + pt.Int(1))).Do(
            pt.If(i.load() == pt.Int(1)).Then(pt.Continue()),
            pt.Pop(i.load()),
        ),
        pt.Approve(),
    )


def p_first_line(tmp):
    path = os.path.join(tmp, "first_line_mod.py")
    with open(path, "w") as f:
        f.write("import pyteal as pt; FEE = pt.Int(7001)\nOTHER = pt.Int(12)\n")
    sys.path.insert(0, tmp)
    import first_line_mod  # noqa
    return pt.Seq(pt.Pop(first_line_mod.OTHER), pt.Return(pt.Txn.fee() < first_line_mod.FEE))


def strip_comments(text):
    out = []
    for ln in text.splitlines():
        if "//" in ln:
            ln = ln[: ln.index("//")]
        ln = ln.rstrip()
        if ln:
            out.append(ln)
    return out


def main():
    problems = []
    tmp = tempfile.mkdtemp(prefix="c15smoke")
    progs = [("adjacent-identical-lines", p_dup), ("subroutine", p_sub), ("loop", p_loop), ("first-line", lambda: p_first_line(tmp))]
    for name, mk in progs:
        for version in (6, 8):
            try:
                plain = pt.Compilation(mk(), pt.Mode.Application, version=version).compile().teal
            except Exception as e:  # noqa
                problems.append({"program": name, "version": version, "what": "plain compilation raised %s: %s" % (type(e).__name__, str(e)[:100])})
                continue
            for annotate, headers, concise in ((False, False, False), (True, True, False), (True, False, True), (True, True, True)):
                tag = {"program": name, "version": version, "annotate": annotate, "headers": headers, "concise": concise}
                try:
                    r = pt.Compilation(mk(), pt.Mode.Application, version=version).compile(
                        with_sourcemap=True, annotate_teal=annotate, annotate_teal_headers=headers, annotate_teal_concise=concise)
                except Exception as e:  # noqa
                    problems.append(dict(tag, what="compilation with a source map raised %s: %s" % (type(e).__name__, str(e)[:100])))
                    continue
                if r.teal != plain:
                    problems.append(dict(tag, what="TEAL differs with a source map"))
                sm = r.sourcemap
                lines = plain.splitlines()
                r3 = sm.r3_sourcemap
                if r3 is None:
                    problems.append(dict(tag, what="no R3 source map in the result"))
                    continue
                mapped = sorted({k[0] for k in r3.entries})
                if mapped != list(range(len(lines))):
                    problems.append(dict(tag, what="map entries for TEAL lines %s..., the program has %d lines" % (mapped[:5], len(lines))))
                for key, m in r3.entries.items():
                    f = m.source
                    if f is None or m.source_line is None:
                        problems.append(dict(tag, what="entry %r has no source position" % (key,)))
                        break
                    cands = [f, os.path.join(os.getcwd(), f)] + ([os.path.join(r3.source_root, f)] if getattr(r3, "source_root", None) else [])
                    real = next((c for c in cands if os.path.exists(c)), None)
                    if real is None:
                        problems.append(dict(tag, what="entry %r points at a missing file %s" % (key, f)))
                        break
                    n = sum(1 for _ in open(real, errors="replace"))
                    if not (0 <= m.source_line < n):
                        problems.append(dict(tag, what="entry %r points at line index %d of %s (%d lines)" % (key, m.source_line, f, n)))
                        break
                try:
                    from pyteal.compiler.sourcemap import R3SourceMap
                    js = r3.to_json()
                    back = R3SourceMap.from_json(js, target="\n".join(lines), add_right_bounds=False)
                    for key, m in r3.entries.items():
                        bk = back.entries.get(key)
                        if bk is None or (bk.source, bk.source_line, bk.source_column) != (m.source, m.source_line, m.source_column):
                            problems.append(dict(tag, what="R3 JSON round trip changes entry %r" % (key,)))
                            break
                except Exception as e:  # noqa
                    problems.append(dict(tag, what="R3 JSON round trip raised %s: %s" % (type(e).__name__, str(e)[:100])))
                if annotate:
                    at = sm.annotated_teal
                    if at is None or strip_comments(at) != strip_comments(plain):
                        problems.append(dict(tag, what="annotated TEAL minus comments differs from the plain TEAL"))
    shutil.rmtree(tmp, ignore_errors=True)
    print("C15SMOKE " + json.dumps(problems))


if __name__ == "__main__":
    main()
