"""C04 - successful compilation yields complete, target-legal TEAL (claimed in part).

(1) front-end acceptance (table verdict, not SMT): every emitted text of every family and of the
    legality probes (each construct at EVERY version 2..10 in BOTH modes) must be accepted by the
    independent TEAL front-end at its #pragma version and mode;
(2) path termination: the structural part of the CFG analysis (all syntactic paths: no
    fall-through into a routine, no running off the end, every target defined once) and SymAVM's
    feasible-path exploration (solver-pruned) for fall-through / retsub-with-empty-call-stack;
(3) CrossHair (symbolic execution of the real leaf constructors with z3): every immediate that is
    a function of a user-supplied Python int either raises a PyTeal error or fits its encoding."""
import os
import re
import subprocess
import sys
import time
from collections import Counter

from ..avm.ctx import ASSUMPTIONS
from ..avm.engine import Engine, HarnessError
from ..avm.sym import Bounds, SymAVM
from ..common import Report, VERIF_DIR, from_json, run_jobs, seed, tier, to_json, write_evidence
from ..recipe import gen, gen_const, gen_fields, gen_legal, gen_opt, gen_subs
from ..teal.parse import TealSyntaxError, check_program, parse
from .. import cfgcheck, tv, tvjob

PROP = "C04"


def legality_job(job):
    rec = from_json(job["rec"])
    rec.setdefault("mode", job.get("mode", "A"))
    mode = rec["mode"]
    out = {"id": job["id"], "family": job.get("family"), "version": job["version"], "status": "ok", "violations": [],
           "paths": 0, "replayed": 0}
    teal, st, detail = tvjob.try_compile(rec, job["version"], job.get("optimize"), job.get("assemble", False))
    out["status"], out["detail"] = st, detail
    if st != "ok":
        return out
    base = {"recipe": to_json(rec), "version": job["version"], "optimize": job.get("optimize"), "assemble": job.get("assemble", False),
            "mode": mode, "teal": teal[-4000:], "job": {k: v for k, v in job.items() if k != "rec"}}
    first = [l for l in teal.split("\n") if l.strip()][:1]
    if not first or first[0].strip() != "#pragma version %d" % job["version"]:
        out["violations"].append(dict(base, kind="pragma", detail="first line %r, requested version %d" % (first, job["version"])))
    try:
        prog = parse(teal)
    except TealSyntaxError as e:
        out["violations"].append(dict(base, kind="unparsable", detail=str(e)))
        return out
    cs = check_program(prog, mode)
    if cs:
        out["violations"].append(dict(base, kind="front-end", detail=cs[:6]))
        return out
    r = cfgcheck.analyze(prog, None, want_types=False)
    if r["structural"]:
        out["violations"].append(dict(base, kind="structural", detail=r["structural"][:6]))
    out["instructions"] = len(prog.instrs)
    out["labels"] = len(prog.labels)
    if job.get("sample"):
        out["sample"] = {"teal": teal[:800]}
    if job.get("dynamic"):
        cfg = tvjob.make_cfg(job)
        eng = Engine(timeout_ms=10000, max_paths=1500)
        try:
            outs = eng.explore(SymAVM(prog, cfg, Bounds(loop_k=2, call_depth=3)).run)
        except HarnessError:
            outs = []
        out["paths"] = len(outs)
        out["stats"] = eng.stats.as_dict()
        for o in outs:
            if o.verdict == "fail" and o.kind.split(":")[0] == "D" and o.kind.split(":")[1] in ("fallthrough", "retsub-empty", "end-stack", "label"):
                if eng.check(*o.pc) != "sat":
                    continue
                conc = tv.concretize(eng.solver.model(), o.shape)
                p = tv.run_concrete(lambda c: SymAVM(prog, c, Bounds(loop_k=300, call_depth=64, max_steps=200000)).run, cfg, conc)
                out["replayed"] += 1
                if p.verdict == "fail" and p.kind.startswith("D:"):
                    out["violations"].append(dict(base, kind="dynamic-termination", detail=p.kind, input=tv.jsonable_conc(conc)))
                    break
    return out


def build_jobs(t, sd):
    thorough = t != "quick"
    jobs = []

    def add(name, rec, v, mode, opt=None, dyn=False, assemble=False, extra=None):
        j = {"id": "%s@v%d%s%s%s" % (name, v, mode, "" if opt is None else "/" + "".join(sorted(k[0] for k, x in opt.items() if x)), "/asm" if assemble else ""),
             "family": ":".join(name.split(":")[:2]), "rec": to_json(rec), "version": v, "mode": mode, "optimize": opt,
             "assemble": assemble, "dynamic": dyn, "lens": (0, 1, 3)}
        j.update(extra or {})
        jobs.append(j)

    # legality probes: every construct at every version in both modes
    for mode in ("A", "S"):
        probes = gen_legal.op_probes(mode)
        for v in range(2, 11):
            for name, rec in probes:
                add(name, rec, v, mode)
            for name, rec, _ in gen_fields.field_probes(mode, v, all_versions=True) + gen_fields.maybe_probes(mode, v, all_versions=True):
                add(name.replace("field:", "legal:field:"), rec, v, mode)
    # every other family
    versions = list(range(2, 11)) if thorough else [2, 3, 4, 6, 8, 10]
    for vi, v in enumerate(versions):
        for mode in ("A", "S") if (thorough or v in (2, 6)) else ("A",):
            # (quick: every second control skeleton, the offset rotating with the version so that every skeleton is used)
            fams = gen.control_family(mode, v, thorough)[(0 if thorough else vi % 2):: (1 if thorough else 2)] + gen.operator_sweep(mode, v, thorough) + gen.env_family(mode, v)
            if v >= 4:
                fams += gen_subs.sub_family(mode, v, thorough)
            if v >= 3 and mode == "A":
                fams += gen_opt.opt_family(mode, v, False)[(vi % (3 if thorough else 9)):: (3 if thorough else 9)]
            for (name, rec, opts) in fams:
                for opt in gen_subs.sub_options(v, thorough)[: (None if name.startswith("sub:") or thorough else 1)]:
                    add(name, rec, v, mode, opt, dyn=name.startswith(("sub:", "ctl:")), extra=opts)
            if v >= 3 and mode == "A":
                for (name, rec, opts) in gen_const.const_family(mode, v, sd, False):
                    add(name, rec, v, mode, None, assemble=True)
                if v in (3, 10) or thorough:
                    for n in (256, 257, 300):
                        for kind in ("int", "bytes"):
                            nm, rec, o = gen_const.boundary_family(mode, v, n, kind)
                            add(nm, rec, v, mode, None, assemble=True)
    # programs at the 256-slot limit, with and without explicitly numbered variables: a slot number above 255 is not
    # encodable; whatever is accepted must be legal (the limit itself is C10's subject)
    from ..recipe import gen_slots
    for v in ((6, 10) if not thorough else (3, 5, 6, 8, 10)):
        for n, ex in ((255, []), (256, []), (257, []), (254, [5]), (255, [5]), (256, [5]), (256, [255]), (255, [0, 1]), (250, [3, 7, 11, 200, 254, 255]), (251, [3, 7, 11, 200, 254, 255])):
            rec = gen_slots.slot_program("A", v, n, ex, "main")[0]
            add("slots-limit:n%d:e%s" % (n, "-".join(map(str, ex)) or "none"), rec, v, "A", None, dyn=False)
    for j in jobs[:: max(1, len(jobs) // 4)]:
        j["sample"] = True
    return jobs


# ---------------------------------------------------------------------------
# (3) CrossHair leaf checks
LEAF_FILE = os.path.join(VERIF_DIR, "verif", "checks", "c04_leaf.py")


def run_crosshair(per_condition_timeout: int, names=None):
    """-> list of dict(fn, status in confirmed/refuted/unknown, detail)"""
    py = os.path.join(VERIF_DIR, ".venv", "bin", "python")
    import ast
    src = open(LEAF_FILE).read()
    fns = [(n.name, n.lineno + 1) for n in ast.parse(src).body if isinstance(n, ast.FunctionDef) and n.name.startswith("leaf_")]
    if names:
        fns = [f for f in fns if f[0] in names]
    procs = []
    tree = os.environ.get("VERIF_PYTEAL_TREE")
    env = dict(os.environ, PYTHONPATH=(tree + ":" + VERIF_DIR) if tree else VERIF_DIR, PYTHONHASHSEED="0")
    for name, line in fns:
        cmd = [py, "-m", "crosshair", "check", "--report_all", "--per_condition_timeout", str(per_condition_timeout),
               "--per_path_timeout", str(max(2, per_condition_timeout // 6)), "%s:%d" % (LEAF_FILE, line)]
        procs.append((name, subprocess.Popen(cmd, stdout=subprocess.PIPE, stderr=subprocess.STDOUT, text=True, env=env, cwd=VERIF_DIR)))
    res = []
    for name, p in procs:
        try:
            outp, _ = p.communicate(timeout=per_condition_timeout * 3 + 120)
        except subprocess.TimeoutExpired:
            p.kill()
            outp = "timeout"
        status, detail = "unknown", outp.strip()[-400:]
        if "Confirmed over all paths" in outp:
            status = "confirmed"
        m = re.search(r"error: (false|[A-Za-z]+Error.*?) when calling (\w+)\((.*?)\)(?: \(which|\s*$)", outp, re.M)
        if m:
            status, detail = "refuted", m.group(0)
            res.append({"fn": name, "status": status, "detail": detail, "call": m.group(3)})
            continue
        res.append({"fn": name, "status": status, "detail": detail})
    return res


def replay_leaf(fn: str, call: str):
    """re-run the counterexample on the real code, outside CrossHair; True = the leaf check fails"""
    from . import c04_leaf
    f = getattr(c04_leaf, fn)
    try:
        args = eval("dict(%s)" % call, {"__builtins__": {}}, {"dict": dict})
    except Exception:
        try:
            args = None
            pos = eval("(%s,)" % call, {"__builtins__": {}}, {})
        except Exception as e:
            raise HarnessError("cannot parse CrossHair counterexample %r: %s" % (call, e))
    try:
        r = f(**args) if args is not None else f(*pos)
    except Exception as e:  # noqa
        return True, "%s: %s" % (type(e).__name__, e)
    return (r is False), "returned %r" % (r,)


def guard_table():
    """(name, guard function, {int parameter: required range}, replay builder) - the range is what the immediate's
    encoding can hold; the guard's source is translated on every run (verif/py2smt/guards.py)"""
    import pyteal as pt
    from pyteal.ast.txn import TxnaExpr, TxnArray
    from pyteal.ast.gtxn import TxnGroup
    from pyteal.ast.arg import Arg
    from pyteal.ast.gaid import GeneratedID
    from pyteal.ast.gload import ImportScratchValue
    from pyteal.ast.scratch import ScratchSlot
    from . import c04_leaf as L
    big = (1 << 79) - 1
    return [
        ("TxnaExpr constant index", TxnaExpr._TxnaExpr__validate_index_or_throw, {"index": (0, 255)}, lambda w: L._check(lambda: L._ops(pt.Txn.application_args[w["index"]], 6))),
        ("TxnArray.__getitem__ (lower bound only; the upper bound is TxnaExpr's)", TxnArray.__getitem__, {"index": (0, big)}, lambda w: L._check(lambda: L._ops(pt.Txn.accounts[w["index"]], 6))),
        ("Gtxn[i]", TxnGroup.__getitem__, {"txnIndex": (0, 255)}, lambda w: L._check(lambda: L._ops(pt.Gtxn[w["txnIndex"]].amount(), 6))),
        ("Arg(i)", Arg.__init__, {"index": (0, 255)}, lambda w: L._check(lambda: L._ops(pt.Arg(w["index"]), 6, pt.Mode.Signature))),
        ("GeneratedID(i)", GeneratedID.__init__, {"txnIndex": (0, 255)}, lambda w: L._check(lambda: L._ops(pt.GeneratedID(w["txnIndex"]), 6))),
        ("ImportScratchValue(t, s)", ImportScratchValue.__init__, {"txnIndex": (0, 255), "slotId": (0, 255)},
         lambda w: L._check(lambda: L._ops(pt.ImportScratchValue(w["txnIndex"], w["slotId"]), 6))),
        ("ScratchSlot(id)", ScratchSlot.__init__, {"requestedSlotId": (0, 255)}, lambda w: L.leaf_scratch_slot(w["requestedSlotId"])),
    ]


def run_guards(rep, timeout_ms):
    from ..py2smt import guards as GD
    from ..py2smt.ints import TranslatorError
    obs = []
    for name, fn, req, builder in guard_table():
        try:
            res = GD.check_guard(name, fn, req, {}, timeout_ms)
        except TranslatorError as e:
            rep.harness_error("guard %s can no longer be translated from its source: %s" % (name, e))
            continue
        for ob in res:
            obs.append(ob)
            if "reachable" in ob["guard"]:
                if ob["result"] != "sat":
                    rep.harness_error("vacuous guard obligation: %s" % ob["guard"])
                continue
            if ob["result"] == "sat":
                ok = builder(ob["witness"])
                ob["replay_passes"] = bool(ok)
                if not ok:
                    rep.violation({"kind": "guard", "guard": name, "witness": ob["witness"], "required": ob["required"], "source": ob["source"]}, ["guard:" + name])
    return obs


def main():
    t, sd = tier(), seed()
    rep = Report(PROP)
    jobs = build_jobs(t, sd)
    t0 = time.time()
    # CrossHair runs concurrently with the job pool (it is sequential CPU per condition)
    import threading
    leaf_res = []
    th = threading.Thread(target=lambda: leaf_res.extend(run_crosshair(40 if t == "quick" else 240)))
    th.start()
    results = run_jobs("verif.checks.c04:legality_job", jobs, nproc=max(2, (os.cpu_count() or 4) - 4))
    th.join()
    guard_obs = run_guards(rep, 10000 if t == "quick" else 60000)
    st = Counter()
    agg = Counter()
    rejected_by_version = Counter()
    samples, crashes = [], []
    for r in results:
        if "harness_error" in r:
            rep.harness_error("%s: %s" % (r.get("_job"), r["harness_error"]))
            continue
        if r.get("timed_out"):
            agg["timed_out"] += 1
            continue
        st[r["status"]] += 1
        if r["status"] == "crash":
            crashes.append({"id": r["id"], "detail": r["detail"]})
        if r["status"] == "rejected" and r.get("family", "").startswith("legal"):
            rejected_by_version[r["version"]] += 1
        if r["status"] != "ok":
            continue
        agg["instructions"] += r.get("instructions", 0)
        agg["labels"] += r.get("labels", 0)
        agg["paths"] += r.get("paths", 0)
        agg["replayed"] += r.get("replayed", 0)
        for k, v in (r.get("stats") or {}).items():
            agg["s_" + k] += v
        if r.get("sample") and len(samples) < 3:
            samples.append(dict(r["sample"], id=r["id"]))
        for v in r["violations"]:
            fs = set()
            if v["kind"] == "front-end" and any(("intc" in c or "bytec" in c) and "out of range" in c for c in v["detail"]):
                fs.add("constant-block-index-above-255")
            if v["kind"] == "front-end" and any(re.search(r"txna \w+ \d+: immediate \d+ out of range", c) for c in v["detail"]):
                fs.add("txna-index-above-255")
            if v.get("recipe"):
                from .. import features
                fs |= set(features.legality_features(from_json(v["recipe"]), v["version"]))
            rep.violation(v, fs)
    leaf_conf = leaf_ref = leaf_unk = 0
    for lr in leaf_res:
        if lr["status"] == "confirmed":
            leaf_conf += 1
        elif lr["status"] == "refuted":
            bad, how = replay_leaf(lr["fn"], lr["call"])
            agg["replayed"] += 1
            if bad:
                leaf_ref += 1
                rep.violation({"kind": "leaf-immediate", "fn": lr["fn"], "call": lr["call"], "detail": lr["detail"], "replay_result": how},
                              ["leaf:" + lr["fn"]])
            else:
                leaf_unk += 1
                lr["status"] = "unconfirmed-counterexample"
        else:
            leaf_unk += 1
    cov = {
        "explanation": "front-end acceptance of every emitted text at its pragma version and mode (table verdict by the independent langspec, "
                       "not SMT): legality probes for every construct at all versions 2..10 in both modes plus all program families; structural CFG "
                       "conditions on all syntactic paths; solver-pruned feasible-path exploration for fall-through / retsub-with-empty-call-stack; "
                       "CrossHair (z3) over the real leaf constructors for immediates that are functions of user-supplied integers. NOT covered: "
                       "field-level mode restrictions the AVM applies only at evaluation time",
        "evaluations": len(jobs) + len(leaf_res), "distinct_nontrivial": st["ok"],
        "rule": "one (recipe, version, mode, options) instance per evaluation; non-trivial = PyTeal emitted a program (rejections are counted separately)",
        "programs": st["ok"], "samples": samples or [{"id": "none"}],
        "states": agg["instructions"] + agg["s_steps"], "transitions": agg["s_forks"] + agg["labels"], "traces_validated_against_impl": agg["replayed"],
        "obligations": st["ok"] + len(leaf_res) + len(guard_obs), "discharged": st["ok"] - len(rep.violations) + leaf_conf + sum(1 for o in guard_obs if o["result"] == "unsat"),
        "inconclusive": leaf_unk + sum(1 for o in guard_obs if o["result"] not in ("sat", "unsat")),
        "compile_status": dict(st), "legality_probes_rejected_by_pyteal_per_version": dict(rejected_by_version),
        "compiler_crashes": crashes[:30], "feasible_paths_explored": agg["paths"],
        "guards_translated_from_source": guard_obs,
        "guard_obligations_unsat": sum(1 for o in guard_obs if o["result"] == "unsat"),
        "crosshair": leaf_res, "crosshair_confirmed": leaf_conf, "crosshair_refuted_and_replayed": leaf_ref, "crosshair_inconclusive": leaf_unk,
        "solver_time_s": round(agg["s_solver_time"], 2), "known_findings_hit": dict(rep.known_hits),
        "functions_encoded": "pyteal/ast/{txn,gtxn,arg,scratch,substring,int}.py leaf constructors + __teal__ under CrossHair; emitted TEAL of all families",
    }
    if st["ok"] == 0 or len(crashes) > 0.1 * len(jobs):
        rep.harness_error("cannot explore: %d ok, %d crashes" % (st["ok"], len(crashes)))
    write_evidence(PROP, "other", cov, ASSUMPTIONS + ["the langspec table (versions, modes, immediates) is trusted; it is validated against the repository's golden .teal files by the selftest",
                                                       "CrossHair 'Not confirmed' / timeouts are inconclusive, not passes"], rep.wall(), len(rep.violations))
    return rep.finish(inconclusive=0, obligations=1)


def replay(record):
    if record.get("kind") == "guard":
        for name, fn, req, builder in guard_table():
            if name == record["guard"]:
                return not builder(record["witness"])
        return False
    if record.get("kind") == "leaf-immediate":
        bad, how = replay_leaf(record["fn"], record["call"])
        print(how)
        return bad
    rec = from_json(record["recipe"])
    job = dict(record.get("job", {}))
    job["rec"] = to_json(rec)
    r = legality_job(job)
    print([(v["kind"], v.get("detail")) for v in r.get("violations", [])][:4])
    return record.get("kind") in [v["kind"] for v in r.get("violations", [])]


if __name__ == "__main__":
    sys.exit(main())
