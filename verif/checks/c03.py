"""C03 - compile options change cost and shape, never behaviour.

One recipe compiled under a base setting and under every other (version, scratch_slots,
frame_pointers) setting; SymAVM on both emitted programs over the same symbolic context; z3
decides equality of verdict/return/effects, of user-numbered scratch slots and -- for pairs that
differ only in the scratch-slot optimisation -- of the data stack every time control leaves a
routine (callsub heights, post-retsub stacks, stack at return)."""
import sys

from ..common import Report, run_jobs, seed, tier, to_json
from ..recipe import gen, gen_opt, gen_subs
from .c01 import summarize

PROP = "C03"


def settings(version_list, with_fp=True):
    out = []
    for v in version_list:
        out.append({"version": v, "optimize": {"scratch_slots": False, **({"frame_pointers": False} if v >= 8 else {})}})
        out.append({"version": v, "optimize": {"scratch_slots": True, **({"frame_pointers": False} if v >= 8 else {})}})
        if v >= 8 and with_fp:
            out.append({"version": v, "optimize": {"scratch_slots": False, "frame_pointers": True}})
            out.append({"version": v, "optimize": {"scratch_slots": True, "frame_pointers": True}})
        # no OptimizeOptions at all: the defaults of the version (from version 9 the slot optimiser, from 8 frame pointers)
        out.append({"version": v, "optimize": None})
    return out


def same_but_scratch(a, b) -> bool:
    if a["optimize"] is None or b["optimize"] is None:
        return False
    oa, ob = dict(a["optimize"]), dict(b["optimize"])
    return a["version"] == b["version"] and oa.get("frame_pointers", False) == ob.get("frame_pointers", False)


def build_jobs(t: str, sd: int):
    thorough = t != "quick"
    jobs = []

    def add(name, rec, opts, base, other, compare):
        j = {"id": "%s|v%d%s->v%d%s" % (name, base["version"], _o(base), other["version"], _o(other)),
             "family": ":".join(name.split(":")[:2]), "rec": to_json(rec), "A": base, "B": other,
             "mode": rec.get("mode", "A"), "loop_k": 3 if thorough else 2, "call_depth": 3, "lens": (0, 1, 2),
             "compare": compare}
        j.update(opts)
        jobs.append(j)

    # optimiser-targeted family: base = unoptimised at the same version
    for v in ([5, 6, 8, 10] if not thorough else [3, 5, 6, 8, 9, 10]):
        fam = gen_opt.opt_family("A", v, thorough)
        if thorough and v in (3, 6):
            fam += gen_opt.opt_family("S", v, False)
        for (name, rec, opts) in fam:
            ss = settings([v])
            base = ss[0]
            for other in ss[1:]:
                cmp = ["userslots"] + (["exits"] if same_but_scratch(base, other) else [])
                add(name, rec, opts, base, other, cmp)
    # slot numbers taken in unusual places
    for v in ([6, 10] if not thorough else [5, 6, 8, 9, 10]):
        for (name, rec, opts) in gen_opt.index_family("A", v):
            ss = settings([v])
            for other in ss[1:]:
                add(name, rec, opts, ss[0], other, ["userslots"])
    # shared variables; also with an options object that has been used for another program before
    for v in ([6, 10] if not thorough else [4, 6, 8, 9, 10]):
        fam = gen_opt.shared_reader_family("A", v) + gen_opt.index_family("A", v)[:4]
        for (name, rec, opts) in fam:
            base = {"version": v, "optimize": {"scratch_slots": False}}
            for other in ({"version": v, "optimize": {"scratch_slots": True}}, {"version": v, "optimize": {"scratch_slots": True, "_reused": True}},
                          {"version": v, "optimize": {"_reused": True}}, {"version": v, "optimize": None}):
                add(name, rec, opts, base, other, ["userslots"])
    # routine families and control skeletons: option pairs at one version and version pairs
    for v in ([6, 8] if not thorough else [4, 5, 6, 7, 8, 9, 10]):
        fam = gen_subs.sub_family("A", v, thorough)
        if thorough or v == 8:
            fam += [x for x in gen.control_family("A", v, False) if x[0].startswith("ctl:while") or x[0].startswith("ctl:value")]
        for (name, rec, opts) in fam:
            ss = settings([v])
            base = ss[0]
            for other in ss[1:]:
                cmp = ["userslots"] + (["exits"] if same_but_scratch(base, other) else [])
                add(name, rec, opts, base, other, cmp)
    # version pairs: the recipe written for the lowest version, compiled at every later version (default options)
    lows = [(2, "A"), (2, "S"), (5, "A")] if thorough else [(5, "A")]
    for low, mode in lows:
        fam = gen.control_family(mode, low, False) + gen.operator_sweep(mode, low, False)
        nsampled = len(fam)
        if low >= 4:
            fam += gen_subs.sub_family(mode, low, False)
        base = {"version": low, "optimize": None}
        for i, (name, rec, opts) in enumerate(fam):
            for k, v2 in enumerate(range(low + 1, 11) if thorough else [6, 8, 10]):
                if v2 <= low:
                    continue
                if not thorough and i < nsampled and i % 3 != k:
                    continue        # quick: each skeleton / operator program against one later version, rotating
                add(name, rec, opts, base, {"version": v2, "optimize": None}, ["userslots"])
    # version 4 has its own calling sequence around re-entrant calls (dig instead of cover/uncover):
    # the routine family written for v4 against the same recipe at later versions
    base = {"version": 4, "optimize": None}
    for (name, rec, opts) in gen_subs.sub_family("A", 4, thorough):
        for v2 in ([5, 6, 7, 8, 10] if thorough else [6]):
            add(name, rec, opts, base, {"version": v2, "optimize": None}, ["userslots"])
    for j in jobs[:: max(1, len(jobs) // 5)]:
        j["want_sample"] = True
        j["keep_teal"] = True
    return jobs


def _o(s):
    o = s.get("optimize")
    if o is None:
        return ""
    if o.get("_reused"):
        return "[%s%s reused]" % ("s" if o.get("scratch_slots") else "-", "f" if o.get("frame_pointers") else "-")
    return "[%s%s]" % ("s" if o.get("scratch_slots") else "-", "f" if o.get("frame_pointers") else "-")


def features_fn(v):
    """input-side features: computed from the recipe and from side A's (unoptimised) program"""
    from ..common import from_json
    from .. import features
    fs = set(features.recipe_features(from_json(v["recipe"]), v))
    teal = v.get("teal", "")
    a = teal.split("== B ==")[0]
    fs |= features.unoptimised_teal_features(a)
    return fs


def main() -> int:
    t, sd = tier(), seed()
    rep = Report(PROP)
    jobs = build_jobs(t, sd)
    results = run_jobs("verif.diffjob:diff_job", jobs)
    asym = [r["id"] for r in results if r.get("asymmetric")]
    return summarize(rep, jobs, results, PROP, "translation_validation",
                     "optimiser-targeted store/load placements (2 variables, up to %d accesses; main, subroutine, loop, split across a "
                     "branch; user-numbered slots; dynamic variables; MaybeValue temporaries), routine families and control skeletons, "
                     "each under pairs of (version, scratch_slots, frame_pointers) settings; non-trivial = at least one non-failing path"
                     % (5 if t != "quick" else 4),
                     extra_cov={"pairs_where_only_one_side_compiles": asym[:20]}, features_fn=features_fn)


def replay(record) -> bool:
    from ..diffjob import replay_file
    return replay_file(record)


if __name__ == "__main__":
    sys.exit(main())
