"""C08 - Router dispatches a call to its handler iff the registration allows it.

Router configurations (methods with MethodConfigs, bare actions with CallConfigs, clear-state
action kinds) are built through the public API; SymAVM runs the approval and clear-state programs
with symbolic NumAppArgs, selector bytes (all 2^32 values at length 4, plus other lengths),
OnCompletion and ApplicationID; the dispatch table derived from the registration data is the
reference: handler H's tag is logged and the call approved exactly when the registration allows
it, everything else fails; z3 decides every path pair; selectors are SHA-512/256 computed here."""
import itertools
import random
import sys

from ..common import Report, run_jobs, seed, tier, to_json
from .c01 import summarize

PROP = "C08"
OCS5 = ["no_op", "opt_in", "close_out", "update_application", "delete_application"]


def configs(t, sd):
    rng = random.Random(sd * 271 + 3)
    out = []
    all_mc = list(itertools.product(range(4), repeat=5))
    # one method, every MethodConfig (thorough) / a covering sample (quick)
    pick = all_mc if t != "quick" else (all_mc[::13] + [(3,) * 5, (1,) * 5, (2,) * 5, (0, 0, 0, 0, 1), (1, 2, 3, 0, 0), (0, 3, 0, 2, 1)])
    for mc in pick:
        if not any(mc):
            continue
        out.append({"methods": [{"name": "alpha", "config": dict(zip(OCS5, mc))}], "bare": {}, "clear": "expr"})
    # bare actions: every CallConfig vector
    pickb = all_mc if t != "quick" else (all_mc[::17] + [(3,) * 5, (0, 0, 0, 1, 0), (0, 0, 0, 0, 2), (0, 0, 0, 3, 0), (0, 0, 0, 0, 3), (2, 1, 0, 0, 0)])
    for bi, bc in enumerate(pickb):
        if not any(bc):
            continue
        bare = {oc: {"cc": c, "kind": ["expr-approve", "expr-none", "sub"][(bi + j) % 3]} for j, (oc, c) in enumerate(zip(OCS5, bc)) if c}
        # bare-only router and router with one method
        out.append({"methods": [], "bare": bare, "clear": ["expr", None, "sub", "abi", "expr-reject"][bi % 5]})
        if bi % 2 == 0:
            out.append({"methods": [{"name": "beta", "config": {"no_op": 1}}], "bare": bare, "clear": "sub"})
    # handlers that are If / ElseIf chains without Else whose arms all leave the program (bare actions and the clear-state program)
    for occ in ("no_op", "opt_in", "update_application"):
        out.append({"methods": [], "bare": {occ: {"cc": 3, "kind": "expr-chain"}, "delete_application": {"cc": 1, "kind": "expr-approve"}}, "clear": "chain"})
    out.append({"methods": [{"name": "gamma", "config": {"no_op": 1}}], "bare": {"no_op": {"cc": 2, "kind": "expr-chain"}, "opt_in": {"cc": 1, "kind": "sub"}}, "clear": "chain"})
    # registration through the decorator with keyword arguments (unspecified OnCompletions are NEVER; no keyword = no_op CALL)
    for mc in [(1, 0, 0, 0, 0), (0, 1, 0, 0, 0), (0, 3, 0, 0, 0), (0, 0, 2, 0, 0), (0, 0, 0, 1, 1), (3, 1, 0, 0, 0), (0, 0, 0, 0, 3), (2, 0, 0, 0, 0), (0, 1, 1, 1, 1)]:
        out.append({"methods": [{"name": "deco", "config": dict(zip(OCS5, mc)), "via": "decorator"}], "bare": {}, "clear": "expr"})
    out.append({"methods": [{"name": "deco_default", "config": {"no_op": 1}, "via": "decorator-default"}], "bare": {}, "clear": "expr"})
    # several methods
    for k in (2, 3, 4, 5):
        for _ in range((12 if k <= 3 else 3) if t == "quick" else (60 if k <= 3 else 24)):
            ms = []
            for i in range(k):
                mc = rng.choice(all_mc[1:])
                ms.append({"name": "m%d%s" % (i, rng.choice(["", "x", "_y"])), "config": dict(zip(OCS5, mc))})
            bare = {oc: {"cc": rng.randrange(1, 4), "kind": rng.choice(["expr-approve", "expr-none", "sub"])} for oc in OCS5 if rng.random() < 0.4}
            out.append({"methods": ms, "bare": bare, "clear": rng.choice(["expr", None, "sub", "abi"])})
    out.append({"methods": [], "bare": {}, "clear": None})
    return out


def build_jobs(t, sd):
    jobs = []
    cfgs = configs(t, sd)
    versions = [6, 7, 8, 9, 10] if t != "quick" else [6, 8, 10]
    for ci, cfg in enumerate(cfgs):
        for vi, v in enumerate(versions):
            if t == "quick" and (ci + vi) % 3 and v != 8:
                continue
            for asm in ((False, True) if (t != "quick" or ci % 5 == 0) else (False,)):
                opts = [None] + ([{"frame_pointers": False}] if (v >= 8 and (t != "quick" or ci % 4 == 0)) else [])
                for opt in opts:
                    jobs.append({"id": "router%d@v%d%s%s" % (ci, v, "/asm" if asm else "", "" if opt is None else "/nofp"),
                                 "family": "router:%dm:%db" % (len(cfg["methods"]), len(cfg["bare"])), "cfg": to_json(cfg), "version": v,
                                 "assemble": asm, "optimize": opt,
                                 "expect_ok": any(m.get("via") for m in cfg["methods"]) or cfg.get("clear") == "chain"})
    for j in jobs[:: max(1, len(jobs) // 5)]:
        j["want_sample"] = True
        j["keep_teal"] = True
    return jobs


def main():
    t, sd = tier(), seed()
    rep = Report(PROP)
    jobs = build_jobs(t, sd)
    results = run_jobs("verif.router:router_job", jobs, chunksize=2)
    return summarize(rep, jobs, results, PROP, "model_checking",
                     "router configurations: one method x MethodConfig in {NEVER,CALL,CREATE,ALL}^5, bare actions x CallConfig vectors x action kinds "
                     "(approving Expr, none-typed Expr, Subroutine), bare-only routers, 2-5 methods with random configs, clear-state action absent / Expr / "
                     "rejecting Expr / Subroutine / ABIReturnSubroutine; versions 6..10, assemble_constants, frame pointers on/off",
                     extra_cov={"functions_encoded": "emitted approval and clear-state TEAL of pyteal.Router (pyteal/ast/router.py) under SymAVM; oracle = dispatch table from the registration data (verif/router.py)"},
                     features_fn=lambda v: v.get("features", []))


def replay(record):
    from ..router import router_job
    r = router_job(dict(record["job"]))
    print([(v["kind"], v.get("teal_outcome"), v.get("reference_outcome")) for v in r["violations"]][:2])
    return bool(r["violations"])


if __name__ == "__main__":
    sys.exit(main())
