"""C18 - comments, pragmas, nonces and names never change the code.

(a) base recipe vs the same recipe with one annotation inserted (Comment, Assert comment, Pragma,
    Nonce, subroutine name): SymAVM equivalence over all inputs (z3) and identical instruction
    streams after dropping comments and renaming labels (front-end comparison).
(b) the text channel with the annotation text as a z3 string: CommentExpr's constructor guard,
    TealLabel.assemble and the label construction in resolveSubroutines are translated from their
    current source (verif/py2smt/strs.py); z3 is asked for a text that passes the guard but
    contributes a line that is neither a comment nor the one expected label, and for two routines
    with equal labels.  Witnesses are replayed through the public API."""
import ast
import inspect
import re
import sys
import time
from collections import Counter

import z3

from ..common import Report, from_json, run_jobs, seed, tier, to_json, write_evidence
from ..recipe import gen, gen_subs
from ..recipe.gen import Env, prog
from .c01 import summarize

PROP = "C18"

TEXTS = ["", "plain", "with // slashes", "semi;colon; int 1", 'quo"te', "back\\slash\\", "//", ";", "int 0\treturn", "é漢\U0001F600", " ", "b main_l0",
         "#pragma version 2", "label:", '"', "\\n", "a\x0bb\x0cc", "a\u2028b", "x\x85y", "trailing\\"]
MULTILINE = ["two\nlines", "err\nint 0\nreturn", "a\r\nb", "\n", "x\n", "\nerr", "a\rb"]


# ---------------------------------------------------------------------------
def stream_difference(pa, pb, nonce_prefix=None):
    """'' when the two parsed programs have the same instruction stream up to label names (and the
    documented `byte <nonce>; pop` prefix in pb); else a description"""
    ia, ib = list(pa.instrs), list(pb.instrs)
    off = 0
    if nonce_prefix is not None:
        if len(ib) < 2 or ib[0].op not in ("byte", "pushbytes") or ib[1].op != "pop":
            return "annotated program does not start with the nonce push-and-pop"
        if ib[0].args is None or bytes(ib[0].args[0]) != nonce_prefix:
            return "nonce bytes differ from the requested ones"
        ib = ib[2:]
        off = 2
    if len(ia) != len(ib):
        return "different number of instructions: %d vs %d" % (len(ia), len(ib))
    for k, (x, y) in enumerate(zip(ia, ib)):
        if x.op != y.op:
            return "instruction %d: %s vs %s" % (k, x.op, y.op)
        ax, ay = x.args or [], y.args or []
        if len(ax) != len(ay):
            return "instruction %d (%s): different immediates" % (k, x.op)
        for u, v in zip(ax, ay):
            if x.op in ("b", "bz", "bnz", "callsub"):
                tu, tv_ = pa.labels.get(u), pb.labels.get(v)
                if tu is None or tv_ is None or tu != tv_ - off:
                    return "instruction %d (%s): branch targets differ" % (k, x.op)
            elif u != v and not (hasattr(u, "name") and hasattr(v, "name") and u.name == v.name):
                return "instruction %d (%s): immediates %r vs %r" % (k, x.op, u, v)
    return ""


# ---------------------------------------------------------------------------
# (a) annotated variants
def annotate_variants(rec, texts):
    """yields (name, annotated recipe, job options)"""
    main = rec["main"]
    # insertion points: every statement of the top-level Seq, and the whole program
    for ti, text in enumerate(texts):
        yield "comment-whole:%d" % ti, dict(rec, main=("Comment", text, main)), {}
        if main[0] == "Seq" and len(main) > 2:
            k = 1 + (ti % (len(main) - 1))
            yield "comment-stmt%d:%d" % (k, ti), dict(rec, main=main[:k] + (("Comment", text, main[k]),) + main[k + 1:]), {}
        yield "nonce:%d" % ti, dict(rec, main=("Nonce", "base16", "0a0b%02x" % ti, main)), {"nonce_prefix_hex": "0a0b%02x" % ti}
    yield "pragma", dict(rec, main=("Pragma", main, ">=0.0.1")), {}
    # Assert comments: replace each Assert by AssertC
    def with_assert_comment(e, text):
        if isinstance(e, tuple) and e:
            if e[0] == "Assert":
                return ("AssertC", text) + tuple(with_assert_comment(c, text) for c in e[1:])
            return tuple(with_assert_comment(c, text) if isinstance(c, tuple) else c for c in e)
        return e
    if "Assert" in str(main):
        for ti, text in enumerate(texts):
            yield "assert-comment:%d" % ti, dict(rec, main=with_assert_comment(main, text)), {}
    # subroutine names
    if rec.get("subs"):
        for ti, text in enumerate(texts):
            subs = {}
            for j, (n, sd) in enumerate(rec["subs"].items()):
                subs[n] = dict(sd, name=(text if j == 0 else text + str(j)))
            yield "subname:%d" % ti, dict(rec, subs=subs), {}
        # all routines share ONE name
        subs = {n: dict(sd, name="same") for n, sd in rec["subs"].items()}
        yield "subname:all-equal", dict(rec, subs=subs), {}


def _is_form(t):
    return isinstance(t, tuple) and len(t) > 0 and isinstance(t[0], str) and t[0][:1].isupper()


def _form_paths(e, path=()):
    """paths (index tuples) of every recipe form below e that is an expression or statement of its own"""
    out = []
    if _is_form(e):
        if e[0] not in ("Ref", "PRef"):
            out.append(path)
        for i, c in enumerate(e[1:], 1):
            if isinstance(c, (tuple, list)):
                out += _form_paths(c, path + (i,))
    elif isinstance(e, (tuple, list)):
        for i, c in enumerate(e):
            if isinstance(c, (tuple, list)):
                out += _form_paths(c, path + (i,))
    return out


def _replace_at(e, path, fn):
    if not path:
        return fn(e)
    lst = list(e)
    lst[path[0]] = _replace_at(e[path[0]], path[1:], fn)
    return tuple(lst) if isinstance(e, tuple) else lst


def node_variants(rec, salt=0):
    """one annotation wrapped around EVERY expression / statement node of the program (main routine and routine
    bodies): a comment at every node, an empty comment, a nonce and a pragma at every other node (rotating)"""
    targets = [("main", None, rec["main"])] + [("sub", n, sd["body"]) for n, sd in rec.get("subs", {}).items()]
    k = 0
    for where, sname, body in targets:
        for path in _form_paths(body):
            if where == "main" and not path:
                continue        # (the whole program is annotate_variants' business)
            k += 1
            kinds = [("comment", lambda x: ("Comment", "note", x), {})]
            if (k + salt) % 2 == 0:
                kinds.append(("comment-empty", lambda x: ("Comment", "", x), {}))
                kinds.append(("pragma", lambda x: ("Pragma", x, ">=0.0.1"), {}))
            else:
                kinds.append(("nonce", lambda x: ("Nonce", "base16", "0a0b", x), {}))
                kinds.append(("comment2", lambda x: ("Comment", "a // b", ("Comment", "c", x)), {}))
            node = body
            for i in path:
                node = node[i]
            lead = node
            while _is_form(lead) and lead[0] == "Seq" and len(lead) > 1:
                lead = lead[1]
            for kn, fn, o in kinds:
                o = dict(o, annot_leads_with=lead[0] if _is_form(lead) else None)
                if where == "main":
                    rec2 = dict(rec, main=_replace_at(body, path, fn))
                else:
                    subs = dict(rec["subs"])
                    subs[sname] = dict(subs[sname], body=_replace_at(body, path, fn))
                    rec2 = dict(rec, subs=subs)
                yield "node-%s:%s%s" % (kn, (sname + ".") if sname else "", ".".join(map(str, path))), rec2, dict(o, inner_nonce=(kn == "nonce"))


def node_base_recipes(mode, v):
    from ..recipe import gen_opt
    out = [x for x in gen.control_family(mode, v, False) if x[0].split(":")[-1] in ("break", "continue", "if-break", "if-continue", "ifelse-break-continue")]
    out += [x for x in gen_opt.opt_family(mode, v, False)
            if x[0].split(":")[1] in ("split1", "split2", "armfirst1", "armfirst2", "loop", "sub") and len(x[0].split(":")[2]) <= 6]
    if v >= 4:
        out += [x for x in gen_subs.sub_family(mode, v, False) if x[0] in ("sub:fact", "sub:locals1", "sub:byref-inc", "sub:mutual-u-none")]
    # asserts that already carry a comment (empty, blank, ordinary): annotating them again must not lose them
    e = Env(mode, v)
    for nm, txt in (("empty", ""), ("blank", " "), ("text", "fee cap")):
        out.append(("ctl:assert-comment-%s" % nm, prog(mode, ("Seq", e.tag(1), ("AssertC", txt, ("Bin", "Lt", e.u(1), ("Int", 2000))),
                                                              ("If", e.u(2), ("AssertC", txt, e.u(3), e.u(4))), ("Return", ("Int", 1)))), {}))
    return out


def base_recipes(mode, v):
    e = Env(mode, v)
    out = []
    ctl = [x for x in gen.control_family(mode, v, False) if x[0] in ("ctl:while:assert2", "ctl:if-then:ifchain", "ctl:for:if-continue", "ctl:cond-arm:assert", "ctl:top:assertc")]
    out += ctl
    if v >= 4:
        subs = [x for x in gen_subs.sub_family(mode, v, False) if x[0] in ("sub:fact", "sub:even-odd", "sub:chain3", "sub:countdown", "sub:call-in-arg")]
        out += subs
    return out


def build_jobs(t, sd, solver_texts):
    thorough = t != "quick"
    jobs = []
    texts = TEXTS + MULTILINE + [x for x in solver_texts if x not in TEXTS and x not in MULTILINE]
    if not thorough:
        # every text with a line break of some kind, every second of the others, the first solver-chosen ones
        texts = MULTILINE + TEXTS[::2] + [x for x in solver_texts if x not in MULTILINE][:4]
    for v in ([6, 8] if not thorough else [3, 5, 6, 8, 10]):
        for (name, rec, opts) in base_recipes("A", v):
            for (an, rec2, o2) in annotate_variants(rec, texts):
                j = {"id": "%s+%s@v%d" % (name, an, v), "family": "annot:" + an.split(":")[0], "rec": to_json(rec), "recB": to_json(rec2),
                     "A": {"version": v, "optimize": None}, "B": {"version": v, "optimize": None}, "mode": "A",
                     "loop_k": 2, "call_depth": 3, "lens": (0, 1), "compare": [], "stream_compare": True}
                if "nonce_prefix_hex" in o2:
                    j["nonce_prefix"] = {"hex": o2["nonce_prefix_hex"]}
                j.update(opts)
                jobs.append(j)
    # one annotation around every node of programs with loop exits / variable traffic, with the default options of the
    # version (from version 9 the slot optimiser runs) and with the optimiser forced on / off
    for vi, (v, opt) in enumerate([(6, None), (10, None), (8, {"scratch_slots": True})] if not thorough else
                                  [(3, None), (5, None), (6, None), (8, None), (9, None), (10, None), (7, {"scratch_slots": True}), (10, {"scratch_slots": False})]):
        for ri, (name, rec, opts) in enumerate(node_base_recipes("A", v)):
            for (an, rec2, o2) in node_variants(rec, salt=ri + vi):
                j = {"id": "%s+%s@v%d%s" % (name, an, v, "" if opt is None else "/" + "".join(k[0] for k, x in sorted(opt.items()) if x) + "o"),
                     "family": "annot-node:" + an.split(":")[0], "rec": to_json(rec), "recB": to_json(rec2),
                     "A": {"version": v, "optimize": opt}, "B": {"version": v, "optimize": opt}, "mode": "A",
                     "loop_k": 2, "call_depth": 3, "lens": (0, 1), "compare": [], "stream_compare": not o2.get("inner_nonce")}
                j.update(opts)
                j["annot_leads_with"] = o2.get("annot_leads_with")
                jobs.append(j)
    for j in jobs[:: max(1, len(jobs) // 5)]:
        j["want_sample"] = True
        j["keep_teal"] = True
    return jobs


# ---------------------------------------------------------------------------
# (b) text channel
def _re_class_from_sub_pattern():
    """reads re.sub(r"[^...]", "", name) from resolveSubroutines and returns the z3 regex of the kept class"""
    from pyteal.compiler import subroutines
    src = inspect.getsource(subroutines.resolveSubroutines)
    m = re.search(r're\.sub\(r?"(\[\^[^"]*\])",\s*"",', src)
    if not m:
        raise RuntimeError("cannot find the name sanitiser in resolveSubroutines")
    body = m.group(1)[2:-1]
    parts = []
    i = 0
    while i < len(body):
        if i + 2 < len(body) and body[i + 1] == "-":
            parts.append(z3.Range(body[i], body[i + 2]))
            i += 3
        else:
            parts.append(z3.Re(body[i]))
            i += 1
    return z3.Union(*parts) if len(parts) > 1 else parts[0], m.group(1)


def _label_format_ast():
    from pyteal.compiler import subroutines
    fn = ast.parse(inspect.getsource(subroutines.resolveSubroutines)).body[0]
    for node in ast.walk(fn):
        if isinstance(node, ast.Assign) and isinstance(node.targets[0], ast.Subscript) and \
                isinstance(node.targets[0].value, ast.Name) and node.targets[0].value.id == "subroutineToLabel":
            return node.value
    raise RuntimeError("cannot find the label construction in resolveSubroutines")


def text_channel(timeout_ms, maxlen=8):
    """-> (obligations list, witnesses list of dict(kind, text))"""
    from pyteal.ast.comment import CommentExpr
    from pyteal.ir.teallabel import TealLabel
    from ..py2smt import strs
    obs, wit = [], []
    NL = z3.Re("\n")
    nonl = z3.Star(z3.Union(z3.Range(chr(0), chr(9)), z3.Range(chr(11), chr(0x2FFFF))))
    ws = z3.Star(z3.Union(z3.Re(" "), z3.Re("\t")))
    comment_line = z3.Concat(ws, z3.Re("//"), nonl)
    blank = ws

    def solve(name, constraints, vars_, encoded_fn):
        s = z3.Solver()
        s.set("timeout", timeout_ms)
        for c in constraints:
            s.add(c)
        t0 = time.time()
        r = str(s.check())
        ob = {"name": name, "result": r, "time": round(time.time() - t0, 3), "encoded": encoded_fn, "smt2": s.sexpr()[:1500]}
        if r == "sat":
            m = s.model()
            ob["model"] = {str(v): m.eval(v, model_completion=True).as_string() if z3.is_string(v) else str(m.eval(v, model_completion=True)) for v in vars_}
        obs.append(ob)
        return ob

    # 1. CommentExpr guard: an accepted text contributes exactly one comment line
    c = z3.String("comment")
    res = strs.translate(CommentExpr.__init__, {"single_line_comment": c, "self": None})
    accepted = z3.Not(z3.Or(*res.raises)) if res.raises else z3.BoolVal(True)
    line = z3.Concat(z3.StringVal("// "), c)
    ob = solve("comment-guard", list(res.side) + [z3.Length(c) <= maxlen, accepted, z3.Not(z3.InRe(line, comment_line))], [c], strs.source_ref(CommentExpr.__init__))
    if ob["result"] == "sat":
        wit.append({"kind": "comment", "text": _unescape(ob["model"]["comment"])})
    # vacuity twin: some text IS accepted
    solve("comment-guard-reachable", [z3.Length(c) <= maxlen, accepted], [c], strs.source_ref(CommentExpr.__init__))
    # 2. TealLabel.assemble with the subroutine name as comment
    n = z3.String("name")
    L = z3.String("label")
    alnum_, pat = _re_class_from_sub_pattern()
    labre = z3.Plus(z3.Union(alnum_, z3.Re("_")))
    res = strs.translate(TealLabel.assemble, {"self.comment": n, "self.label.getLabel()": L, "self": None})
    if len(res.returns) != 1:
        raise strs.TranslatorError("TealLabel.assemble: expected one return")
    E = res.returns[0][1]
    ok_shape = z3.Concat(z3.Star(z3.Concat(z3.Union(comment_line, blank), NL)), z3.Re(L), z3.Re(":")) if False else None
    # E must be: (comment-or-blank line \n)* label ":"   -- expressed with the label as a string variable
    pre = z3.String("pre")
    # E must be (comment-or-blank line \n)* label ":" ; the part in front of the label is determined
    # (E minus the suffix), so the negated obligation is quantifier-free
    comment_part = z3.String("cp")
    s2 = list(res.side) + [z3.Length(n) <= maxlen, z3.InRe(L, labre), z3.Length(L) <= 6,
                           E == z3.Concat(comment_part, L, z3.StringVal(":")),
                           z3.Length(comment_part) == z3.Length(E) - z3.Length(L) - 1,
                           z3.Not(z3.InRe(comment_part, z3.Star(z3.Concat(z3.Union(comment_line, blank), NL))))]
    ob2 = solve("label-comment", s2, [n, L], strs.source_ref(TealLabel.assemble))
    if ob2["result"] == "sat":
        wit.append({"kind": "subname", "text": _unescape(ob2["model"]["name"])})
    solve("label-comment-reachable", list(res.side) + [z3.Length(n) <= maxlen, z3.InRe(L, labre), z3.Length(L) <= 6,
                                                        E == z3.Concat(comment_part, L, z3.StringVal(":"))], [n, L], strs.source_ref(TealLabel.assemble))
    # 3. labels of distinct routines are distinct and are valid label tokens
    fmt = _label_format_ast()
    s1, s2_ = z3.String("san1"), z3.String("san2")
    # the index is rendered by "{}".format(int): its canonical decimal text.  Two different indices have different
    # canonical texts (CPython's str(int), trusted), so the rendering is modelled as a string in 0|[1-9][0-9]* and
    # "different indices" as "different texts" - z3's int.to.str makes these queries time out at larger bounds
    d1, d2 = z3.String("idx1"), z3.String("idx2")
    dec = z3.Union(z3.Re("0"), z3.Concat(z3.Range("1", "9"), z3.Star(z3.Range("0", "9"))))
    l1 = strs.Translator({"safer_name": s1, "index": d1}).expr(fmt)
    l2 = strs.Translator({"safer_name": s2_, "index": d2}).expr(fmt)
    base = [z3.InRe(s1, z3.Star(alnum_)), z3.InRe(s2_, z3.Star(alnum_)), z3.Length(s1) <= maxlen, z3.Length(s2_) <= maxlen,
            z3.InRe(d1, dec), z3.InRe(d2, dec), z3.Length(d1) <= 4, z3.Length(d2) <= 4, d1 != d2]
    solve("labels-distinct", base + [l1 == l2], [s1, s2_, d1, d2], "pyteal/compiler/subroutines.py:resolveSubroutines (label format, sanitiser %s)" % pat)
    solve("label-is-a-token", base + [z3.Not(z3.InRe(l1, labre))], [s1, d1], "pyteal/compiler/subroutines.py:resolveSubroutines")
    return obs, wit


def _unescape(s: str) -> str:
    """z3 prints non-printable characters as \\u{..}"""
    return re.sub(r"\\u\{([0-9a-fA-F]+)\}", lambda m: chr(int(m.group(1), 16)), s)


def relaxation_texts(timeout_ms):
    """texts chosen by the solver: models of 'contains X' for the separators of the line grammar"""
    out = []
    for needle in ["\n", "//", ";", '"', "\\", "\r", ":"]:
        s = z3.Solver()
        s.set("timeout", timeout_ms)
        t = z3.String("t")
        s.add(z3.Length(t) <= 6, z3.Length(t) >= 3, z3.Contains(t, z3.StringVal(needle)), z3.Not(z3.PrefixOf(z3.StringVal(needle), t)))
        if str(s.check()) == "sat":
            out.append(_unescape(s.model().eval(t).as_string()))
    return out


def main():
    t, sd = tier(), seed()
    rep = Report(PROP)
    tmo = 60000 if t == "quick" else 300000
    try:
        obs, wit = text_channel(tmo, 8 if t == "quick" else 12)
    except Exception as e:  # translator failures are harness errors, never passes
        import traceback
        traceback.print_exc()
        rep.harness_error("text-channel translation failed: %s: %s" % (type(e).__name__, e))
        obs, wit = [], []
    solver_texts = relaxation_texts(tmo) + [w["text"] for w in wit]
    jobs = build_jobs(t, sd, solver_texts)
    results = run_jobs("verif.diffjob:diff_job", jobs)
    # stream differences are violations of the "instruction stream unchanged" clause
    byid = {j["id"]: j for j in jobs}
    expected_reject = 0
    for r in results:
        if r.get("stream_difference") and r.get("status") == "ok":
            j = byid[r["id"]]
            r.setdefault("violations", []).append({
                "kind": "stream", "detail": r["stream_difference"], "recipe": j["rec"], "recipeB": j["recB"], "A": j["A"], "B": j["B"],
                "mode": "A", "version": r["version"], "job": {k: v for k, v in j.items() if k not in ("rec", "recB")}})
    inconc = sum(1 for o in obs if o["result"] not in ("sat", "unsat"))
    text_ob = {"text_channel_obligations": obs, "solver_chosen_texts": solver_texts,
               "text_channel_functions": "pyteal/ast/comment.py:CommentExpr.__init__, pyteal/ir/teallabel.py:TealLabel.assemble, "
                                         "pyteal/compiler/subroutines.py:resolveSubroutines (label format + sanitiser), translated from source"}
    for o in obs:
        if o["name"].endswith("-reachable") and o["result"] != "sat":
            rep.harness_error("vacuous obligation: %s is %s" % (o["name"], o["result"]))
        if not o["name"].endswith("-reachable") and o["result"] not in ("sat", "unsat"):
            rep.harness_error("text-channel obligation %s is inconclusive (%s)" % (o["name"], o["result"]))
    return summarize(rep, jobs, results, PROP, "translation_validation",
                     "base recipes (control skeletons and routine programs) x one annotation inserted (Comment at every top-level statement, "
                     "Assert comment, Pragma, Nonce, subroutine names incl. all routines sharing a name) x annotation texts (fixed adversarial "
                     "list + texts taken from the solver's models); plus %d text-channel obligations over z3 strings" % len(obs),
                     extra_cov=text_ob, features_fn=features_fn)


def features_fn(v):
    fs = set()
    job = v.get("job") or {}
    if v.get("kind") == "stream":
        # input-side features of the two known ways an annotation changes the instruction stream without changing behaviour
        if job.get("annot_leads_with") in ("Break", "Continue"):
            fs.add("annotation-on-loop-exit")
        a = v.get("A") or {}
        opt_on = (a.get("optimize") or {}).get("scratch_slots", a.get("version", 0) >= 9)
        if opt_on and v.get("recipe") and v.get("recipeB"):
            try:
                from ..diffjob import compile_side
                from ..teal.parse import parse
                off = dict(a, optimize=dict(a.get("optimize") or {}, scratch_slots=False))
                ta, sa, _ = compile_side(from_json(v["recipe"]), off)
                tb, sb, _ = compile_side(from_json(v["recipeB"]), off)
                if sa == "ok" and sb == "ok" and not stream_difference(parse(ta), parse(tb), None):
                    fs.add("annotation-between-store-and-load-with-slot-optimisation")
            except Exception:  # noqa
                pass
    rb = v.get("recipeB")
    if rb:
        r = from_json(rb)
        for sd in r.get("subs", {}).values():
            nm = sd.get("name")
            if nm is not None and ("\n" in nm or "\r" in nm):
                fs.add("subroutine-name-with-line-break")
    return fs


def replay(record):
    from ..diffjob import replay_file, compile_side
    if record.get("kind") == "stream":
        from ..teal.parse import parse
        ra, rb = from_json(record["recipe"]), from_json(record["recipeB"])
        ta, sa, _ = compile_side(ra, record["A"])
        tb, sb, _ = compile_side(rb, record["B"])
        if sa != "ok" or sb != "ok":
            print("no longer compiles")
            return False
        np_ = record["job"].get("nonce_prefix")
        d = stream_difference(parse(ta), parse(tb), bytes.fromhex(np_["hex"]) if np_ else None)
        print("stream difference:", d)
        return bool(d)
    return replay_file(record)


if __name__ == "__main__":
    sys.exit(main())
