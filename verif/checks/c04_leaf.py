"""Leaf harnesses for CrossHair (C04 part 3, C13 Int): real PyTeal constructors + __teal__ with a
symbolic Python int for each user-supplied immediate.  Contract of every leaf_* function: either a
PyTeal error is raised (-> True) or every emitted immediate fits its one-byte encoding (-> True);
False is a counterexample.  reach_* twins guard against vacuity: their postcondition claims that
NO input is accepted, so CrossHair must refute them (an accepted input exists)."""
import pyteal as pt
from pyteal.errors import TealCompileError, TealInputError, TealInternalError, TealTypeError
from pyteal.ir import TealBlock, TealOp

_ERR = (TealInputError, TealTypeError, TealCompileError, TealInternalError)


def _ops(expr, version: int, mode=pt.Mode.Application):
    from pyteal.compiler import CompileOptions
    start, end = expr.__teal__(CompileOptions(mode=mode, version=version))
    out = []
    for b in TealBlock.Iterate(start):
        out.extend(b.ops)
    return out


def _imms_fit(ops) -> bool:
    for op in ops:
        for a in op.args:
            if isinstance(a, bool):
                continue
            if isinstance(a, int) and op.getOp().name not in ("int", "pushint"):
                if not (0 <= a <= 255):
                    return False
    return True


def _accepted(build) -> bool:
    try:
        build()
    except _ERR:
        return False
    return True


def _check(build) -> bool:
    try:
        ops = build()
    except _ERR:
        return True
    return _imms_fit(ops)


# ---- transaction array fields -------------------------------------------------
def leaf_txna_app_args(i: int, version: int) -> bool:
    """
    pre: 2 <= version <= 10
    post: _
    """
    return _check(lambda: _ops(pt.Txn.application_args[i], version))


def reach_txna_app_args(i: int, version: int) -> bool:
    """
    pre: 2 <= version <= 10
    post: not _
    """
    return _accepted(lambda: _ops(pt.Txn.application_args[i], version))


def leaf_txna_accounts(i: int, version: int) -> bool:
    """
    pre: 2 <= version <= 10
    post: _
    """
    return _check(lambda: _ops(pt.Txn.accounts[i], version))


def leaf_txna_assets(i: int, version: int) -> bool:
    """
    pre: 3 <= version <= 10
    post: _
    """
    return _check(lambda: _ops(pt.Txn.assets[i], version))


def leaf_gtxn(g: int, version: int) -> bool:
    """
    pre: 2 <= version <= 10
    post: _
    """
    return _check(lambda: _ops(pt.Gtxn[g].amount(), version))


def reach_gtxn(g: int, version: int) -> bool:
    """
    pre: 2 <= version <= 10
    post: not _
    """
    return _accepted(lambda: _ops(pt.Gtxn[g].amount(), version))


def leaf_gtxna(g: int, i: int, version: int) -> bool:
    """
    pre: 2 <= version <= 10
    post: _
    """
    return _check(lambda: _ops(pt.Gtxn[g].application_args[i], version))


def leaf_gitxn(g: int, version: int) -> bool:
    """
    pre: 6 <= version <= 10
    post: _
    """
    return _check(lambda: _ops(pt.Gitxn[g].amount(), version))


def leaf_itxna(i: int, version: int) -> bool:
    """
    pre: 5 <= version <= 10
    post: _
    """
    return _check(lambda: _ops(pt.InnerTxn.logs[i], version))


def leaf_arg(i: int, version: int) -> bool:
    """
    pre: 2 <= version <= 10
    post: _
    """
    return _check(lambda: _ops(pt.Arg(i), version, pt.Mode.Signature))


def reach_arg(i: int, version: int) -> bool:
    """
    pre: 2 <= version <= 10
    post: not _
    """
    return _accepted(lambda: _ops(pt.Arg(i), version, pt.Mode.Signature))


# ---- scratch / cross-transaction scratch ----------------------------------------
def leaf_scratch_slot(i: int) -> bool:
    """
    post: _
    """
    def build():
        s = pt.ScratchSlot(i)
        return 0 <= s.id <= 255
    try:
        return build()
    except _ERR:
        return True


def reach_scratch_slot(i: int) -> bool:
    """
    post: not _
    """
    return _accepted(lambda: pt.ScratchSlot(i))


def leaf_import_scratch(t: int, s: int, version: int) -> bool:
    """
    pre: 4 <= version <= 10
    post: _
    """
    return _check(lambda: _ops(pt.ImportScratchValue(t, s), version))


def leaf_generated_id(t: int, version: int) -> bool:
    """
    pre: 4 <= version <= 10
    post: _
    """
    return _check(lambda: _ops(pt.GeneratedID(t), version))


# ---- substring family: immediate vs stack form -------------------------------------
def leaf_substring(s: int, e: int, version: int) -> bool:
    """
    pre: 2 <= version <= 10
    post: _
    """
    return _check(lambda: _ops(pt.Substring(pt.Bytes("x"), pt.Int(s), pt.Int(e)), version))


def reach_substring(s: int, e: int, version: int) -> bool:
    """
    pre: 2 <= version <= 10
    post: not _
    """
    return _accepted(lambda: _ops(pt.Substring(pt.Bytes("x"), pt.Int(s), pt.Int(e)), version))


def leaf_extract(s: int, l: int, version: int) -> bool:
    """
    pre: 5 <= version <= 10
    post: _
    """
    return _check(lambda: _ops(pt.Extract(pt.Bytes("x"), pt.Int(s), pt.Int(l)), version))


def leaf_suffix(s: int, version: int) -> bool:
    """
    pre: 2 <= version <= 10
    post: _
    """
    return _check(lambda: _ops(pt.Suffix(pt.Bytes("x"), pt.Int(s)), version))


def leaf_replace(s: int, version: int) -> bool:
    """
    pre: 7 <= version <= 10
    post: _
    """
    return _check(lambda: _ops(pt.Replace(pt.Bytes("xyz"), pt.Int(s), pt.Bytes("a")), version))


# ---- Int literal ----------------------------------------------------------------------
def leaf_int(n: int) -> bool:
    """
    post: _
    """
    try:
        e = pt.Int(n)
    except _ERR:
        return not (0 <= n < 2 ** 64)
    if not (0 <= n < 2 ** 64):
        return False
    ops = _ops(e, 6)
    return len(ops) == 1 and len(ops[0].args) == 1 and ops[0].args[0] == n


def reach_int(n: int) -> bool:
    """
    post: not _
    """
    return _accepted(lambda: pt.Int(n))
