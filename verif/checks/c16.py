"""C16 - WideRatio is exact or fails, never wraps.

(a) per-segment Hoare contracts on the emitted op stream at full 64-bit width, decided by z3 in
    nonlinear integer arithmetic; factors are template placeholders so every factor is one push.
(b) whole-program cross-check at narrow word widths (bit-vectors): emitted TEAL vs
    floor(prod N / prod D) with the fail condition of the property, all factor values.
Counterexamples of (a) are replayed by executing the real emitted segment concretely; a
boundary-biased concrete search then tries to lift them to whole-program inputs.
"""
import itertools
import random
import sys
import time
from typing import Any, Dict, List, Optional, Tuple

import z3

from ..common import Report, run_jobs, seed, tier, write_evidence
from ..teal.parse import Tmpl, parse, check_program

PROP = "C16"
W64 = 64


class Decomposition(Exception):
    """the emitted stream no longer has the shape the contracts are stated for"""


def compile_wideratio(nn: int, nd: int, version: int, wrap: str = "return") -> str:
    import pyteal as pt
    from ..recipe.build import reset_pyteal_state
    reset_pyteal_state()
    N = [pt.Tmpl.Int("TMPL_N%d" % i) for i in range(nn)]
    D = [pt.Tmpl.Int("TMPL_D%d" % i) for i in range(nd)]
    e = pt.WideRatio(N, D)
    if wrap == "return":
        ast = pt.Return(e)
    else:  # pending operand below the WideRatio
        ast = pt.Return(pt.Minus(pt.Tmpl.Int("TMPL_P"), e))
    return pt.compileTeal(ast, pt.Mode.Application, version=version)


# ---------------------------------------------------------------------------
# tiny stack interpreter over z3 Int terms (word width W), straight-line code only
class IntVM:
    def __init__(self, W: int):
        self.W = W
        self.B = z3.IntVal(1 << W)
        self.fails: List[Any] = []
        self.side: List[Any] = []

    def var(self, name):
        v = z3.Int(name)
        self.side.append(z3.And(v >= 0, v < self.B))
        return v

    def run(self, instrs, stack: List[Any]) -> List[Any]:
        st = list(stack)
        B = self.B

        def pop():
            if not st:
                raise Decomposition("segment pops below its contract's stack")
            return st.pop()
        for ins in instrs:
            op, a = ins.op, ins.args
            if op in ("int", "pushint"):
                v = a[0]
                st.append(self.var(v.name) if isinstance(v, Tmpl) else z3.IntVal(v))
            elif op == "mulw":
                y = pop(); x = pop()
                p = x * y
                st.append(p / B); st.append(p % B)
            elif op == "addw":
                y = pop(); x = pop()
                p = x + y
                st.append(p / B); st.append(p % B)
            elif op == "*":
                y = pop(); x = pop()
                self.fails.append(x * y >= B)
                st.append(x * y)
            elif op == "+":
                y = pop(); x = pop()
                self.fails.append(x + y >= B)
                st.append(x + y)
            elif op == "-":
                y = pop(); x = pop()
                self.fails.append(x < y)
                st.append(x - y)
            elif op == "uncover":
                n = a[0]
                if len(st) < n + 1:
                    raise Decomposition("uncover below contract stack")
                st.append(st.pop(len(st) - 1 - n))
            elif op == "cover":
                n = a[0]
                if len(st) < n + 1:
                    raise Decomposition("cover below contract stack")
                v = st.pop()
                st.insert(len(st) - n, v)
            elif op == "dig":
                n = a[0]
                if len(st) < n + 1:
                    raise Decomposition("dig below contract stack")
                st.append(st[-1 - n])
            elif op == "swap":
                y = pop(); x = pop()
                st.append(y); st.append(x)
            elif op == "dup":
                x = pop(); st.append(x); st.append(x)
            elif op == "pop":
                pop()
            elif op == "divmodw":
                dl = pop(); dh = pop(); nl = pop(); nh = pop()
                d = dh * B + dl
                n = nh * B + nl
                self.fails.append(d == 0)
                q = n / d
                r = n % d
                st.append(q / B); st.append(q % B); st.append(r / B); st.append(r % B)
            elif op == "!":
                x = pop()
                st.append(z3.If(x == 0, z3.IntVal(1), z3.IntVal(0)))
            elif op == "assert":
                x = pop()
                self.fails.append(x == 0)
            else:
                raise Decomposition("unexpected opcode %s in WideRatio stream" % op)
        return st


def tokenize_stream(prog):
    """-> items: ("push", name, instr) for factor pushes, ("const", instr) for literal int pushes,
    ("code", [instrs]) for everything else; a new code item starts at divmodw (combine segment)."""
    items = []
    for ins in prog.instrs:
        if ins.op in ("int", "pushint") and isinstance(ins.args[0], Tmpl):
            items.append(("push", ins.args[0].name, ins))
        elif ins.op in ("int", "pushint"):
            items.append(("const", ins))
        else:
            if items and items[-1][0] == "code" and ins.op != "divmodw":
                items[-1][1].append(ins)
            else:
                items.append(("code", [ins]))
    return items


def check_contracts(teal: str, nn: int, nd: int, wrap: str, timeout_ms: int) -> Dict[str, Any]:
    """Discharge the segment contracts for one emitted program. Returns counts and counterexamples."""
    prog = parse(teal)
    comp = check_program(prog, "A")
    if comp:
        raise Decomposition("front-end rejects: %s" % comp[:2])
    items = tokenize_stream(prog)
    B = z3.IntVal(1 << W64)
    B2 = B * B
    res = {"obligations": 0, "discharged": 0, "inconclusive": 0, "cex": [], "solver_time": 0.0, "queries": []}

    def solve(vm: IntVM, claim, what, segment):
        """claim must be valid under vm.side: check unsat(side and not claim)"""
        s = z3.Solver()
        s.set("timeout", timeout_ms)
        for c in vm.side:
            s.add(c)
        s.add(z3.Not(claim))
        t0 = time.time()
        r = str(s.check())
        res["solver_time"] += time.time() - t0
        res["obligations"] += 1
        if len(res["queries"]) < 2:
            res["queries"].append({"what": what, "smt2": s.sexpr()[:1500], "result": r})
        if r == "unsat":
            res["discharged"] += 1
        elif r == "sat":
            m = s.model()
            vals = {str(d.name()): m[d].as_long() for d in m.decls() if d.arity() == 0 and z3.is_int_value(m[d])}
            res["cex"].append({"what": what, "values": vals, "segment": [(i.op, i.raw) for i in segment]})
        else:
            res["inconclusive"] += 1

    def anyfail(vm):
        return z3.Or(*vm.fails) if vm.fails else z3.BoolVal(False)

    pos = 0

    def take(kind, name=None):
        nonlocal pos
        if pos >= len(items) or items[pos][0] != kind or (name is not None and items[pos][1] != name):
            raise Decomposition("expected %s %s at item %d, found %s" % (kind, name or "", pos,
                                items[pos][:2] if pos < len(items) else "end of program"))
        it = items[pos]
        pos += 1
        return it

    pending = wrap != "return"
    if pending:
        take("push", "TMPL_P")
    for lst, cnt in (("N", nn), ("D", nd)):
        below = (0 if lst == "N" else 2) + (1 if pending else 0) + 2   # plus two arbitrary cells
        names = ["TMPL_%s%d" % (lst, i) for i in range(cnt)]
        if cnt == 1:
            c = take("const")[1]
            p = take("push", names[0])[2]
            vm = IntVM(W64)
            rest = [vm.var("r%d" % i) for i in range(below)]
            st = vm.run([c, p], rest)
            if len(st) != below + 2:
                raise Decomposition("single-factor segment leaves %d cells" % (len(st) - below))
            claim = z3.And(z3.Not(anyfail(vm)), st[-2] * B + st[-1] == z3.Int(names[0]),
                           st[-2] >= 0, st[-2] < B, *[st[i] == rest[i] for i in range(below)])
            solve(vm, claim, "%s-list single factor: (0, factor)" % lst, [c, p])
            continue
        take("push", names[0])
        take("push", names[1])
        body = take("code")[1]
        vm = IntVM(W64)
        rest = [vm.var("r%d" % i) for i in range(below)]
        a = vm.var("a"); b = vm.var("b")
        st = vm.run(body, rest + [a, b])
        if len(st) != below + 2:
            raise Decomposition("first segment leaves %d cells" % (len(st) - below))
        claim = z3.And(z3.Not(anyfail(vm)), st[-2] * B + st[-1] == a * b,
                       st[-2] >= 0, st[-2] < B, st[-1] >= 0, st[-1] < B,
                       *[st[i] == rest[i] for i in range(below)])
        solve(vm, claim, "%s-list first segment: H*2^64+L = a*b, never fails" % lst, body)
        for k in range(2, cnt):
            take("push", names[k])
            body = take("code")[1]
            vm = IntVM(W64)
            rest = [vm.var("r%d" % i) for i in range(below)]
            A = vm.var("A"); Bv = vm.var("Bv"); C = vm.var("C")
            st = vm.run(body, rest + [A, Bv, C])
            if len(st) != below + 2:
                raise Decomposition("step segment leaves %d cells" % (len(st) - below))
            total = (A * B + Bv) * C
            f = anyfail(vm)
            solve(vm, f == (total >= B2), "%s-list step %d: fails iff running product >= 2^128" % (lst, k), body)
            solve(vm, z3.Implies(z3.Not(f), z3.And(st[-2] * B + st[-1] == total, st[-2] >= 0, st[-2] < B,
                                                   st[-1] >= 0, st[-1] < B,
                                                   *[st[i] == rest[i] for i in range(below)])),
                  "%s-list step %d: exact product, cells below untouched" % (lst, k), body)
    final = take("code")[1]
    if pos != len(items):
        raise Decomposition("unexpected items after the combine segment")
    if not final or final[-1].op != "return" or final[0].op != "divmodw":
        raise Decomposition("combine segment does not run from divmodw to return")
    body = final[:-1]
    if pending:
        cut = [i for i, x in enumerate(body) if x.op == "assert"]
        if not cut:
            raise Decomposition("no assert in combine segment")
        body = body[:cut[-1] + 1]
    vm = IntVM(W64)
    extra = [vm.var("r0"), vm.var("r1")] + ([vm.var("p")] if pending else [])
    NH = vm.var("NH"); NL = vm.var("NL"); DH = vm.var("DH"); DL = vm.var("DL")
    st = vm.run(body, extra + [NH, NL, DH, DL])
    if len(st) != len(extra) + 1:
        raise Decomposition("combine segment leaves %d cells" % len(st))
    N = NH * B + NL
    D = DH * B + DL
    f = anyfail(vm)
    solve(vm, f == z3.Or(D == 0, N / D >= B), "final: fails iff denominator is 0 or quotient >= 2^64", body)
    solve(vm, z3.Implies(z3.Not(f), z3.And(st[-1] == N / D, *[st[i] == extra[i] for i in range(len(extra))])),
          "final: result is floor(N/D), cells below untouched", body)
    return res


# ---------------------------------------------------------------------------
# (b) whole program at narrow width W with bit-vectors
def whole_program_bv(teal: str, nn: int, nd: int, W: int, timeout_ms: int) -> Tuple[str, Optional[Dict[str, int]], float]:
    prog = parse(teal)
    X = 4 * W   # wide enough for every intermediate of program and spec
    mask = z3.BitVecVal((1 << W) - 1, X)
    Bv = z3.BitVecVal(1 << W, X)
    fails = []
    st: List[Any] = []
    facs: Dict[str, Any] = {}

    def var(name):
        if name not in facs:
            facs[name] = z3.ZeroExt(X - W, z3.BitVec(name, W))
        return facs[name]
    for ins in prog.instrs:
        op, a = ins.op, ins.args
        if op in ("int", "pushint"):
            v = a[0]
            st.append(var(v.name) if isinstance(v, Tmpl) else z3.BitVecVal(v, X))
        elif op == "mulw":
            y = st.pop(); x = st.pop(); p = x * y
            st.append(z3.LShR(p, W) & mask); st.append(p & mask)
        elif op == "*":
            y = st.pop(); x = st.pop(); p = x * y
            fails.append(z3.UGE(p, Bv)); st.append(p & mask)
        elif op == "+":
            y = st.pop(); x = st.pop(); p = x + y
            fails.append(z3.UGE(p, Bv)); st.append(p & mask)
        elif op == "uncover":
            st.append(st.pop(len(st) - 1 - a[0]))
        elif op == "cover":
            v = st.pop(); st.insert(len(st) - a[0], v)
        elif op == "dig":
            st.append(st[-1 - a[0]])
        elif op == "swap":
            y = st.pop(); x = st.pop(); st.append(y); st.append(x)
        elif op == "pop":
            st.pop()
        elif op == "divmodw":
            dl = st.pop(); dh = st.pop(); nl = st.pop(); nh = st.pop()
            d = (dh << W) | dl; n = (nh << W) | nl
            fails.append(d == 0)
            q = z3.UDiv(n, d); r = z3.URem(n, d)
            st.append(z3.LShR(q, W) & mask); st.append(q & mask); st.append(z3.LShR(r, W) & mask); st.append(r & mask)
        elif op == "!":
            x = st.pop(); st.append(z3.If(x == 0, z3.BitVecVal(1, X), z3.BitVecVal(0, X)))
        elif op == "assert":
            x = st.pop(); fails.append(x == 0)
        elif op == "return":
            break
        else:
            raise Decomposition("unexpected opcode %s" % op)
    if len(st) != 1:
        raise Decomposition("whole program leaves %d cells" % len(st))
    got = st[0]
    gfail = z3.Or(*fails)
    # specification in 4W-bit arithmetic: running products must stay below 2^(2W)
    lim = z3.BitVecVal(1 << (2 * W), X)

    def product(names):
        p = z3.BitVecVal(1, X)
        ov = []
        first = True
        for nme in names:
            p = p * var(nme)
            ov.append(z3.UGE(p, lim))
        return p, z3.Or(*ov)
    pn, ovn = product(["TMPL_N%d" % i for i in range(nn)])
    pd, ovd = product(["TMPL_D%d" % i for i in range(nd)])
    q = z3.UDiv(pn, pd)
    sfail = z3.Or(ovn, ovd, pd == 0, z3.UGE(q, Bv))
    s = z3.Solver()
    s.set("timeout", timeout_ms)
    # once a running product overflowed the later spec terms are meaningless: guard them
    s.add(z3.Or(gfail != sfail, z3.And(z3.Not(sfail), got != q)))
    t0 = time.time()
    r = str(s.check())
    dt = time.time() - t0
    if r == "sat":
        m = s.model()
        return r, {d.name(): m[d].as_long() for d in m.decls()}, dt
    return r, None, dt


# ---------------------------------------------------------------------------
BOUNDARY = [0, 1, 2, 3, 2 ** 32 - 1, 2 ** 32, 2 ** 32 + 1, 2 ** 63, 2 ** 64 - 1, 2 ** 64 - 2, 2 ** 16, 10 ** 6]


def spec_py(N: List[int], D: List[int]):
    p = 1
    for x in N:
        p *= x
        if p >= 2 ** 128:
            return None
    d = 1
    for x in D:
        d *= x
        if d >= 2 ** 128:
            return None
    if d == 0:
        return None
    q = p // d
    return None if q >= 2 ** 64 else q


def run_concrete(teal: str, vals: Dict[str, int]):
    from ..avm.ctx import CtxConfig
    from ..avm.sym import SymAVM, Bounds
    from .. import tv
    prog = parse(teal)
    cfg = CtxConfig(mode="A", version=prog.version)
    o = tv.run_concrete(lambda c: SymAVM(prog, c, Bounds()).run, cfg, dict(vals))
    if o.verdict == "fail":
        return None
    return o.ret.e


def concrete_search(teal: str, nn: int, nd: int, rng: random.Random, tries: int, hints: List[int]):
    """boundary-biased concrete differential of the whole emitted program against Python ints"""
    pool = BOUNDARY + hints
    found = None
    n = 0
    for _ in range(tries):
        N = [rng.choice(pool) if rng.random() < 0.8 else rng.getrandbits(rng.choice([8, 32, 64])) for _ in range(nn)]
        D = [rng.choice(pool) if rng.random() < 0.7 else rng.getrandbits(rng.choice([8, 32, 64])) for _ in range(nd)]
        vals = {"TMPL_N%d" % i: v for i, v in enumerate(N)}
        vals.update({"TMPL_D%d" % i: v for i, v in enumerate(D)})
        vals["TMPL_P"] = 2 ** 64 - 1
        got = run_concrete(teal, vals)
        want = spec_py(N, D)
        n += 1
        if teal_wrap_pending(teal):
            want = None if want is None else (2 ** 64 - 1 - want)
        if got != want:
            found = {"N": N, "D": D, "teal_result": got, "expected": want}
            break
    return found, n


def teal_wrap_pending(teal: str) -> bool:
    return "TMPL_P" in teal


def job(j: Dict[str, Any]) -> Dict[str, Any]:
    nn, nd, v, wrap = j["nn"], j["nd"], j["version"], j["wrap"]
    out: Dict[str, Any] = {"id": j["id"], "nn": nn, "nd": nd, "version": v, "wrap": wrap}
    try:
        teal = compile_wideratio(nn, nd, v, wrap)
    except Exception as e:  # noqa
        out["compile_error"] = "%s: %s" % (type(e).__name__, e)
        return out
    out["teal_ops"] = teal.count("\n")
    try:
        res = check_contracts(teal, nn, nd, wrap, j["timeout_ms"])
    except Decomposition as e:
        out["decomposition_error"] = str(e)
        out["teal"] = teal
        return out
    out.update({k: res[k] for k in ("obligations", "discharged", "inconclusive", "solver_time")})
    out["queries"] = res["queries"] if j.get("want_sample") else []
    out["violations"] = []
    rng = random.Random(j["seed"] * 7919 + nn * 31 + nd)
    hints = []
    for c in res["cex"]:
        hints += [x for x in c["values"].values() if 0 <= x < 2 ** 64]
    # witness / lifting: concrete differential of the whole program (also the vacuity guard)
    found, n = concrete_search(teal, nn, nd, rng, j["concrete_tries"], hints)
    out["concrete_runs"] = n
    out["unconfirmed_contract_cex"] = 0
    for c in res["cex"]:
        if not found:
            # a contract counterexample starts from an ARBITRARY stack; without a run of the whole program that goes wrong it may
            # be a pre-state no execution reaches (the contract, not the code, would be at fault): inconclusive, never a violation
            out["unconfirmed_contract_cex"] += 1
            continue
        out["violations"].append({"kind": "segment-contract", "nn": nn, "nd": nd, "version": v, "wrap": wrap,
                                  "contract": c["what"], "segment": c["segment"], "stack_values": c["values"],
                                  "whole_program_input": found, "teal": teal})
    if found and not res["cex"]:
        out["violations"].append({"kind": "whole-program-concrete", "nn": nn, "nd": nd, "version": v, "wrap": wrap,
                                  "whole_program_input": found, "teal": teal})
    # (b) narrow-width whole program
    out["bv"] = []
    for W in j.get("bv_widths", []):
        if wrap != "return":
            continue
        try:
            r, m, dt = whole_program_bv(teal, nn, nd, W, j["bv_timeout_ms"])
        except Decomposition as e:
            out["decomposition_error"] = str(e)
            return out
        out["bv"].append({"W": W, "result": r, "time": round(dt, 2)})
        if r == "sat":
            out["violations"].append({"kind": "whole-program-width-%d" % W, "nn": nn, "nd": nd, "version": v,
                                      "wrap": wrap, "values_at_width": m, "teal": teal,
                                      "whole_program_input": found})
    return out


def replay(record) -> bool:
    """re-run the stored case on the current tree"""
    nn, nd, v, wrap = record["nn"], record["nd"], record["version"], record["wrap"]
    teal = compile_wideratio(nn, nd, v, wrap)
    if record.get("whole_program_input"):
        w = record["whole_program_input"]
        vals = {"TMPL_N%d" % i: x for i, x in enumerate(w["N"])}
        vals.update({"TMPL_D%d" % i: x for i, x in enumerate(w["D"])})
        vals["TMPL_P"] = 2 ** 64 - 1
        got = run_concrete(teal, vals)
        want = spec_py(w["N"], w["D"])
        if wrap != "return" and want is not None:
            want = 2 ** 64 - 1 - want
        print("TEAL:", got, "expected:", want)
        return got != want
    res = check_contracts(teal, nn, nd, wrap, 20000)
    print("segment contracts:", res["obligations"], "obligations,", len(res["cex"]), "counterexamples")
    return bool(res["cex"])


def main() -> int:
    t, sd = tier(), seed()
    rep = Report(PROP)
    jobs = []
    if t == "quick":
        versions = [5, 8]
        sizes = [(a, b) for a in range(1, 7) for b in range(1, 7) if (a, b) != (1, 1)]
        bvw = {(a, b): [4] for a in range(1, 4) for b in range(1, 4)}
        tries = 150
    else:
        versions = list(range(5, 11))
        sizes = [(a, b) for a in range(1, 7) for b in range(1, 7) if (a, b) != (1, 1)]
        bvw = {(a, b): ([4, 8] if a + b <= 4 else [4]) for a in range(1, 5) for b in range(1, 5)}
        tries = 1500
    for v in versions:
        for (a, b) in sizes:
            for wrap in ("return", "pending"):
                if wrap == "pending" and t == "quick" and v != 8:
                    continue
                jobs.append({"id": "wr(%d,%d)@v%d/%s" % (a, b, v, wrap), "nn": a, "nd": b, "version": v, "wrap": wrap,
                             "timeout_ms": 20000 if t == "quick" else 120000, "seed": sd, "concrete_tries": tries,
                             "bv_widths": bvw.get((a, b), []) if v == versions[-1] else [], "bv_timeout_ms": 30000 if t == "quick" else 300000,
                             "want_sample": (a, b) == (3, 2)})
    results = run_jobs("verif.checks.c16:job", jobs)
    # (c) factors that have their own code (several blocks, side effects, symbolic conditions) at every list position:
    # translation validation of whole programs against the recipe semantics of WideRatio (verif/recipe/ref.py ev_WideRatio)
    from ..recipe import gen as rgen
    from ..common import to_json
    cjobs = []
    for v in (versions if t != "quick" else [5, 8, 10]):
        for (name, rec, opts) in rgen.wideratio_compound("A", v, t != "quick"):
            if t == "quick" and v == 10 and ":vars:" not in name and ":order:" not in name and ":literal:" not in name:
                continue
            cj = {"id": "%s@v%d" % (name, v), "family": "compound", "rec": to_json(rec), "version": v, "mode": "A", "loop_k": 2, "call_depth": 2, "lens": (0, 1)}
            cj.update(opts)
            cjobs.append(cj)
            if ":literal:" in name:
                # the same program with the constants loaded from constant blocks
                cjobs.append(dict(cj, id=cj["id"] + "/asm", assemble=True))
            if ":vars:" in name and v >= 6:
                # the same program with the slot optimiser forced on, through an options object that has compiled another program before
                cjobs.append(dict(cj, id=cj["id"] + "/reused-options", optimize={"scratch_slots": True, "_reused": True}))
    cres = run_jobs("verif.tvjob:tv_recipe_job", cjobs)
    compound_programs = 0
    for r in cres:
        if "harness_error" in r:
            rep.harness_error("%s: %s" % (r.get("_job"), r["harness_error"]))
            continue
        if r.get("status") != "ok":
            continue
        compound_programs += 1
        for v in r.get("violations", []):
            rep.violation(v, ["wideratio:compound-factor"])
    ob = dis = inc = conc = 0
    st = 0.0
    for r in cres:
        if r.get("status") == "ok":
            ob += r.get("obligations", 0); dis += r.get("discharged", 0); inc += r.get("inconclusive", 0) + r.get("unconfirmed", 0); conc += r.get("replayed", 0)
            st += (r.get("stats") or {}).get("solver_time", 0)
    samples = []
    bvres = []
    programs = 0
    for r in results:
        if "harness_error" in r:
            rep.harness_error("%s: %s" % (r.get("_job"), r["harness_error"]))
            continue
        if "compile_error" in r:
            rep.harness_error("%s does not compile: %s" % (r["id"], r["compile_error"]))
            continue
        if "decomposition_error" in r:
            rep.harness_error("%s: emitted stream no longer decomposes into first/step/final segments: %s" % (r["id"], r["decomposition_error"]))
            continue
        programs += 1
        ob += r["obligations"]; dis += r["discharged"]; inc += r["inconclusive"] + r.get("unconfirmed_contract_cex", 0); st += r["solver_time"]
        conc += r["concrete_runs"]
        for b in r.get("bv", []):
            bvres.append({"id": r["id"], **b})
            ob += 1
            if b["result"] == "unsat":
                dis += 1
            elif b["result"] != "sat":
                inc += 1
        for q in r.get("queries", []):
            if len(samples) < 3:
                samples.append({"id": r["id"], **q})
        for v in r.get("violations", []):
            rep.violation(v, ["wideratio:%s" % v["kind"]])
    if not samples:
        samples = [{"id": r.get("id")} for r in results[:2]]
    cov = {
        "obligations": ob, "discharged": dis, "inconclusive": inc,
        "checker_cmd": "./check C16 --tier %s" % t,
        "trusted_base": ["z3 nonlinear integer arithmetic", "TEAL semantics of mulw/*/+/divmodw/cover/uncover/dig/swap/!/assert in verif/checks/c16.py",
                         "chaining of segment contracts over the number of factors (ordinary induction, written in DESIGN.md, not mechanised)"],
        "explanation": "per-segment Hoare contracts of the emitted WideRatio stream at full 64-bit width in NIA (first segment, every step "
                       "segment from an arbitrary stack, final divmodw segment), for every (|N|,|D|) in 1..6 x 1..6 and both a bare and a "
                       "pending-operand context; whole-program bit-vector equivalence at narrow word widths; boundary-biased concrete "
                       "differential of the whole program against Python integers as witness",
        "evaluations": len(jobs), "distinct_nontrivial": programs,
        "rule": "one program per (|N|,|D|,version,context); all are non-trivial (>= 2 factors)",
        "programs": programs + compound_programs, "compound_factor_programs": compound_programs, "disagreements_checked": conc, "samples": samples,
        "states": ob, "transitions": ob, "traces_validated_against_impl": conc,
        "solver_time_s": round(st, 2), "narrow_width_results": bvres[:60],
        "bounds": {"factor_counts": "1..6 x 1..6", "word_width_contracts": 64, "narrow_widths": sorted({b["W"] for b in bvres})},
        "functions_encoded": ["pyteal/ast/widemath.py: multiplyFactors, WideRatio.__teal__ (through the emitted TEAL)"],
    }
    write_evidence(PROP, "other", cov, ["factors are template constants (one push per factor); factor sub-expressions with their own code are covered by C01",
                                       "induction over the number of step segments is not mechanised"], rep.wall(), len(rep.violations))
    return rep.finish(inconclusive=inc, obligations=ob)


if __name__ == "__main__":
    sys.exit(main())
