"""C13 - literals reach the program byte-for-byte.

(1) escapeStr (pyteal/util.py) is interpreted from its CURRENT AST over a symbolic string: N <= 3
    code points, each in one of 11 classes (printable ASCII, '"', '\\', \\t, \\n, \\r, other C0, DEL,
    2-/3-/4-byte), class combinations enumerated, code points symbolic inside their class; the four
    codec steps and the replace are modelled primitives.  The resulting token is read back by the
    literal grammar of the independent front-end lifted to terms; z3 proves decoded bytes = UTF-8(s)
    and that the token neither ends early nor contains a raw line break.  One model per class
    combination is replayed through the real Bytes(s) + compileTeal + front-end.
(1b) with assembleConstants the compiler reads that token back itself (unescapeStr, from its current
    AST: slice, two-character replace, latin-1 / unicode-escape / utf-8 codec steps whose sequence
    structure is decided by the solver under the class constraints): z3 proves
    unescapeStr(escapeStr(s)).encode("utf-8") = UTF-8(s) and that it never raises; the same members
    are replayed with assembleConstants=True (pushbytes operand).
(2) the base16/base32/base64 validators: their `re` patterns are read from the source and proved
    language-EQUIVALENT (z3 regex, unbounded length) to RFC 4648 reference grammars; members chosen
    by the solver are compiled and decoded.
(2b) the base branches of Bytes.__init__ translated from source (prefix test, slice, validator call):
    accepted <=> well-formed (base16: one optional leading 0x) and the digits passed on are the text's
    own; witnesses and fixed near-miss texts are replayed through the real constructor.
(3) Int(n): the constructor's guard translated from source: accepted <=> 0 <= n < 2^64 (z3 Int);
    boundary models replayed (emitted immediate = n).
(4) Addr / MethodSignature: members of the accepted languages chosen by z3 are replayed against
    the assembler's requirements (checksum-valid address; a method literal that reads back as the
    signature text)."""
import ast
import inspect
import itertools
import re
import sys
import textwrap
import time
from collections import Counter

import z3

from ..avm.engine import HarnessError
from ..common import Report, from_json, seed, tier, to_json, write_evidence
from ..teal.parse import TealSyntaxError, check_program, parse

PROP = "C13"

# ---------------------------------------------------------------------------
# (1) symbolic strings
CLASSES = {
    "print": (0x21, 0x7E),      # minus '"', '\\', '/' and ';' (constrained)
    "space": (0x20, 0x20),      # runs of spaces meet the token separator of the emitted line
    "slash": (0x2F, 0x2F),      # "//" opens a comment outside a literal
    "semi": (0x3B, 0x3B),       # statement separator outside a literal
    "quote": (0x22, 0x22),
    "bslash": (0x5C, 0x5C),
    "tab": (0x09, 0x09),
    "lf": (0x0A, 0x0A),
    "cr": (0x0D, 0x0D),
    "c0": (0x00, 0x1F),         # minus \t \n \r
    "del": (0x7F, 0x7F),
    "u2": (0x80, 0x7FF),
    "u3": (0x800, 0xFFFF),      # minus surrogates
    "u4": (0x10000, 0x10FFFF),
}


def _kind(cls):
    """space, '/' and ';' are printable characters for the string machinery; they are classes of their own only so that every
    combination with them has a member that is replayed through the real pipeline"""
    return "print" if cls in ("space", "slash", "semi") else cls


def class_constraint(cp, cls):
    lo, hi = CLASSES[cls]
    c = [z3.UGE(cp, z3.BitVecVal(lo, 21)), z3.ULE(cp, z3.BitVecVal(hi, 21))]
    if cls == "print":
        c += [cp != z3.BitVecVal(0x22, 21), cp != z3.BitVecVal(0x5C, 21), cp != z3.BitVecVal(0x2F, 21), cp != z3.BitVecVal(0x3B, 21)]
    if cls == "c0":
        c += [cp != z3.BitVecVal(9, 21), cp != z3.BitVecVal(10, 21), cp != z3.BitVecVal(13, 21)]
    if cls == "u3":
        c += [z3.Or(z3.ULT(cp, z3.BitVecVal(0xD800, 21)), z3.UGT(cp, z3.BitVecVal(0xDFFF, 21)))]
    return c


def utf8_bytes(cp, cls):
    """UTF-8 encoding of a code point of the class, as 8-bit terms"""
    def ex(hi, lo):
        return z3.Extract(hi, lo, cp)
    if cls in ("print", "quote", "bslash", "tab", "lf", "cr", "c0", "del"):
        return [z3.Extract(7, 0, cp)]
    if cls == "u2":
        return [z3.Concat(z3.BitVecVal(0b110, 3), ex(10, 6)), z3.Concat(z3.BitVecVal(0b10, 2), ex(5, 0))]
    if cls == "u3":
        return [z3.Concat(z3.BitVecVal(0b1110, 4), ex(15, 12)), z3.Concat(z3.BitVecVal(0b10, 2), ex(11, 6)), z3.Concat(z3.BitVecVal(0b10, 2), ex(5, 0))]
    return [z3.Concat(z3.BitVecVal(0b11110, 5), ex(20, 18)), z3.Concat(z3.BitVecVal(0b10, 2), ex(17, 12)),
            z3.Concat(z3.BitVecVal(0b10, 2), ex(11, 6)), z3.Concat(z3.BitVecVal(0b10, 2), ex(5, 0))]


class Ch:
    """one element of a symbolic text: value term (8 or 21 bits, or int) + what is known about it"""
    __slots__ = ("v", "kind")

    def __init__(self, v, kind):
        self.v = v
        self.kind = kind     # class name for code points; "high" (0x80..0xFF), "hex" (a lowercase hex digit), or "lit" (concrete int)


def hexdigit(n4):
    return z3.If(z3.ULT(n4, z3.BitVecVal(10, 4)), z3.ZeroExt(4, n4) + z3.BitVecVal(48, 8), z3.ZeroExt(4, n4) + z3.BitVecVal(87, 8))


class SymText:
    """abstract interpreter for the str/bytes method chain of escapeStr"""

    def __init__(self, elems, is_bytes=False):
        self.e = list(elems)
        self.is_bytes = is_bytes

    def encode(self, codec):
        if self.is_bytes:
            raise HarnessError("encode on bytes")
        if codec == "utf-8":
            out = []
            for c in self.e:
                if c.kind == "lit":
                    out += [Ch(b, "lit") for b in chr(c.v).encode("utf-8")]
                elif c.kind in ("hex", "low8"):
                    out.append(Ch(_low8(c.v), c.kind))
                elif c.kind == "high":
                    # a code point 0x80..0xFF: two bytes
                    b = _low8(c.v)
                    out += [Ch(z3.Concat(z3.BitVecVal(0b110000, 6), z3.Extract(7, 6, b)), "high"),
                            Ch(z3.Concat(z3.BitVecVal(0b10, 2), z3.Extract(5, 0, b)), "high")]
                else:
                    bs = utf8_bytes(c.v, c.kind)
                    if len(bs) == 1:
                        out.append(Ch(bs[0], c.kind))
                    else:
                        out += [Ch(b, "high") for b in bs]
            return SymText(out, True)
        if codec == "latin-1":
            for c in self.e:
                if c.kind in ("u2", "u3", "u4"):
                    raise HarnessError("latin-1 encode of a code point above 255 raises")
            return SymText(self.e, True)
        if codec == "unicode-escape":
            out = []
            for c in self.e:
                k = c.kind
                if k == "lit":
                    out += [Ch(b, "lit") for b in chr(c.v).encode("unicode-escape")]
                elif k in ("print", "hex"):
                    out.append(Ch(_low8(c.v), k))
                elif k in ("high", "c0", "del") or (k == "u2"):
                    if k == "u2":
                        # code points 0x80..0x7FF: \\xHH below 0x100, \\uHHHH above: both shapes exist in the class -> not modelled
                        raise HarnessError("unicode-escape of a 2-byte code point is not modelled (pipeline must latin-1 first)")
                    b = _low8(c.v)
                    out += [Ch(0x5C, "lit"), Ch(ord("x"), "lit"), Ch(hexdigit(z3.Extract(7, 4, b)), "hex"), Ch(hexdigit(z3.Extract(3, 0, b)), "hex")]
                elif k in ("quote",):
                    out.append(Ch(0x22, "lit"))
                elif k == "bslash":
                    out += [Ch(0x5C, "lit"), Ch(0x5C, "lit")]
                elif k in ("tab", "lf", "cr"):
                    out += [Ch(0x5C, "lit"), Ch(ord({"tab": "t", "lf": "n", "cr": "r"}[k]), "lit")]
                else:
                    raise HarnessError("unicode-escape of class %s is not modelled" % k)
            return SymText(out, True)
        raise HarnessError("codec %r" % codec)

    def decode(self, codec, decide=None):
        if not self.is_bytes:
            raise HarnessError("decode on str")
        if codec == "latin-1":
            return SymText(self.e, False)
        if codec in ("unicode-escape", "unicode_escape"):
            return SymText(_decode_unicode_escape(self.e, decide), False)
        if codec == "utf-8":
            return SymText(_decode_utf8(self.e, decide), False)
        raise HarnessError("decode codec %r is not modelled" % codec)

    def slice(self, lo, hi):
        return SymText(self.e[lo:hi], self.is_bytes)

    def replace(self, a: str, b: str):
        if not self.is_bytes and len(a) == 2:
            # two-character pattern, leftmost non-overlapping matches; every element's equality with a pattern
            # character must be decidable from its class
            out, i = [], 0
            while i < len(self.e):
                if i + 1 < len(self.e):
                    m0, m1 = _is_char(self.e[i], a[0]), _is_char(self.e[i + 1], a[1])
                    if m0 is None or (m0 and m1 is None):
                        raise HarnessError("replace: cannot decide whether an element is %r" % a)
                    if m0 and m1:
                        out += [Ch(ord(x), "lit") for x in b]
                        i += 2
                        continue
                out.append(self.e[i])
                i += 1
            return SymText(out, False)
        if self.is_bytes or len(a) != 1:
            raise HarnessError("replace shape")
        out = []
        for c in self.e:
            if c.kind == "lit":
                out += ([Ch(ord(x), "lit") for x in b] if c.v == ord(a) else [c])
            elif c.kind == "quote":
                out += ([Ch(ord(x), "lit") for x in b] if a == '"' else [Ch(0x22, "lit")])
            elif c.kind == "bslash":
                out += ([Ch(ord(x), "lit") for x in b] if a == "\\" else [Ch(0x5C, "lit")])
            elif c.kind == "print":
                if a not in ('"', "\\") and 0x20 <= ord(a) <= 0x7E:
                    raise HarnessError("replace of a character inside the printable class is not modelled")
                out.append(c)
            elif c.kind == "hex":
                if a in "0123456789abcdef":
                    raise HarnessError("replace of a hex digit is not modelled")
                out.append(c)
            else:
                out.append(c)
        return SymText(out, False)

    def concat_const(self, left: str, right: str):
        return SymText([Ch(ord(x), "lit") for x in left] + self.e + [Ch(ord(x), "lit") for x in right], self.is_bytes)


def _low8(v):
    if isinstance(v, int):
        return z3.BitVecVal(v, 8)
    return v if v.size() == 8 else z3.Extract(7, 0, v)


def _is_char(c, ch: str):
    """is the element the character ch?  True / False / None (not decidable from its class)"""
    o = ord(ch)
    if c.kind == "lit":
        return c.v == o
    fixed = {"quote": 0x22, "bslash": 0x5C, "tab": 9, "lf": 10, "cr": 13, "del": 0x7F}
    if c.kind in fixed:
        return fixed[c.kind] == o
    if c.kind == "print":
        return False if (o in (0x22, 0x5C) or not 0x20 <= o <= 0x7E) else None
    if c.kind == "hex":
        return False if ch not in "0123456789abcdef" else None
    if c.kind == "c0":
        return False if (o > 0x1F or o in (9, 10, 13)) else None
    if c.kind in ("high", "u2", "u3", "u4"):
        return False if o < 0x80 else None
    if c.kind == "low8":
        return False if o >= 0x80 else None
    return None


class Raises(Exception):
    """the interpreted function raises on every string of the class combination (or on some: `cond` given)"""


def _decode_unicode_escape(e, decide):
    """bytes.decode('unicode-escape') for the escapes escapeStr can produce (\\n \\r \\t \\\\ \\' \\" \\xHH)"""
    out, i = [], 0
    while i < len(e):
        c = e[i]
        bs = _is_char(c, "\\")
        if bs is None:
            raise HarnessError("unicode-escape decode: cannot decide whether an element is a backslash")
        if not bs:
            out.append(c)
            i += 1
            continue
        if i + 1 >= len(e):
            raise Raises("trailing backslash")
        d = e[i + 1]
        if d.kind != "lit":
            raise HarnessError("unicode-escape decode: escape followed by a non-constant character")
        ch = chr(d.v)
        simple = {"n": 10, "r": 13, "t": 9, "\\": 0x5C, "'": 0x27, '"': 0x22, "a": 7, "b": 8, "f": 12, "v": 11}
        if ch in simple:
            out.append(Ch(simple[ch], "lit"))
            i += 2
            continue
        if ch == "x":
            if i + 3 >= len(e):
                raise Raises("truncated \\xXX escape")
            vals = []
            for h in (e[i + 2], e[i + 3]):
                if h.kind == "hex":
                    hv = _low8(h.v)
                    vals.append(z3.If(z3.ULE(hv, z3.BitVecVal(57, 8)), hv - z3.BitVecVal(48, 8), hv - z3.BitVecVal(87, 8)))
                elif h.kind == "lit" and chr(h.v) in "0123456789abcdefABCDEF":
                    vals.append(z3.BitVecVal(int(chr(h.v), 16), 8))
                else:
                    raise HarnessError("unicode-escape decode: \\x followed by a non-hex element")
            v = z3.simplify(vals[0] * z3.BitVecVal(16, 8) + vals[1])
            if z3.is_bv_value(v):
                out.append(Ch(v.as_long(), "lit"))
            else:
                hi = decide(z3.UGE(v, z3.BitVecVal(0x80, 8))) if decide else None
                if hi is None:
                    raise HarnessError("unicode-escape decode: cannot classify the value of a \\xHH escape")
                out.append(Ch(v, "high" if hi else "low8"))
            i += 4
            continue
        raise HarnessError("unicode-escape decode: escape \\%s is not modelled" % ch)
    return out


def _decode_utf8(e, decide):
    """bytes.decode('utf-8'): the sequence structure must be decidable from the class constraints"""
    def rng(b, lo, hi):
        return z3.And(z3.UGE(b, z3.BitVecVal(lo, 8)), z3.ULE(b, z3.BitVecVal(hi, 8)))

    def need(cond, what):
        r = decide(cond) if decide else None
        if r is None:
            raise HarnessError("utf-8 decode: cannot decide %s" % what)
        return r

    out, i = [], 0
    while i < len(e):
        c = e[i]
        if c.kind == "lit" and c.v < 0x80 or c.kind in ("print", "hex", "low8", "quote", "bslash", "tab", "lf", "cr", "c0", "del"):
            out.append(c)
            i += 1
            continue
        if c.kind in ("u2", "u3", "u4"):
            raise HarnessError("utf-8 decode of a code point above 255")
        lead = _low8(c.v)
        n = None
        for lo, hi, k in ((0xC2, 0xDF, 2), (0xE0, 0xEF, 3), (0xF0, 0xF4, 4)):
            if need(rng(lead, lo, hi), "the length of a UTF-8 sequence"):
                n = k
                break
        if n is None:
            raise Raises("invalid UTF-8 lead byte")
        if i + n > len(e):
            raise Raises("truncated UTF-8 sequence")
        cont = [_low8(x.v) for x in e[i + 1:i + n]]
        for x, b in zip(e[i + 1:i + n], cont):
            if x.kind not in ("high", "lit") or not need(rng(b, 0x80, 0xBF), "a UTF-8 continuation byte"):
                raise Raises("invalid UTF-8 continuation byte")
        b1 = cont[0]
        if n == 3 and not need(z3.And(z3.Implies(lead == 0xE0, z3.UGE(b1, 0xA0)), z3.Implies(lead == 0xED, z3.ULE(b1, 0x9F))), "overlong/surrogate form"):
            raise Raises("overlong or surrogate UTF-8 sequence")
        if n == 4 and not need(z3.And(z3.Implies(lead == 0xF0, z3.UGE(b1, 0x90)), z3.Implies(lead == 0xF4, z3.ULE(b1, 0x8F))), "overlong/out-of-range form"):
            raise Raises("overlong or out-of-range UTF-8 sequence")
        if n == 2:
            cp = z3.Concat(z3.BitVecVal(0, 10), z3.Extract(4, 0, lead), z3.Extract(5, 0, cont[0]))
        elif n == 3:
            cp = z3.Concat(z3.BitVecVal(0, 5), z3.Extract(3, 0, lead), z3.Extract(5, 0, cont[0]), z3.Extract(5, 0, cont[1]))
        else:
            cp = z3.Concat(z3.Extract(2, 0, lead), z3.Extract(5, 0, cont[0]), z3.Extract(5, 0, cont[1]), z3.Extract(5, 0, cont[2]))
        out.append(Ch(cp, {2: "u2", 3: "u3", 4: "u4"}[n]))
        i += n
    return out


def interpret_escape(fn_ast: ast.FunctionDef, s: SymText, decide=None) -> SymText:
    """runs the body of escapeStr over the symbolic text; supports assignments to the parameter from
    method-call chains with constant arguments and a return of constant + name + constant"""
    env = {fn_ast.args.args[0].arg: s}

    def ev(e):
        if isinstance(e, ast.Name):
            if e.id not in env:
                raise HarnessError("unknown name %s in escapeStr" % e.id)
            return env[e.id]
        if isinstance(e, ast.Constant) and isinstance(e.value, str):
            return e.value
        if isinstance(e, ast.Call) and isinstance(e.func, ast.Attribute) and not e.keywords:
            recv = ev(e.func.value)
            args = [ev(a) for a in e.args]
            if not isinstance(recv, SymText) or not all(isinstance(a, str) for a in args):
                raise HarnessError("call shape in escapeStr")
            m = e.func.attr
            if m == "decode" and len(args) == 1:
                return recv.decode(args[0], decide)
            if m == "encode" and len(args) == 1:
                return recv.encode(args[0])
            if m == "replace" and len(args) == 2:
                return recv.replace(args[0], args[1])
            raise HarnessError("method %s in escapeStr is not modelled" % m)
        if isinstance(e, ast.BinOp) and isinstance(e.op, ast.Add):
            l, r = ev(e.left), ev(e.right)
            if isinstance(l, str) and isinstance(r, SymText):
                return r.concat_const(l, "")
            if isinstance(l, SymText) and isinstance(r, str):
                return l.concat_const("", r)
            raise HarnessError("concatenation shape in escapeStr")
        if isinstance(e, ast.Call) and isinstance(e.func, ast.Name) and e.func.id == "len" and len(e.args) == 1:
            r = ev(e.args[0])
            if not isinstance(r, SymText):
                raise HarnessError("len of a non-text")
            return len(r.e)
        if isinstance(e, ast.Constant) and isinstance(e.value, int):
            return e.value
        if isinstance(e, ast.UnaryOp) and isinstance(e.op, ast.USub) and isinstance(e.operand, ast.Constant):
            return -e.operand.value
        if isinstance(e, ast.Subscript):
            r = ev(e.value)
            if not isinstance(r, SymText):
                raise HarnessError("subscript of a non-text")
            if isinstance(e.slice, ast.Slice):
                lo = ev(e.slice.lower) if e.slice.lower is not None else None
                hi = ev(e.slice.upper) if e.slice.upper is not None else None
                if e.slice.step is not None:
                    raise HarnessError("slice step")
                return r.slice(lo, hi)
            ix = ev(e.slice)
            if not isinstance(ix, int) or not (-len(r.e) <= ix < len(r.e)):
                raise Raises("index out of range")
            return r.e[ix]
        if isinstance(e, ast.Compare) and len(e.ops) == 1:
            l, r = ev(e.left), ev(e.comparators[0])
            op = e.ops[0]
            if isinstance(l, int) and isinstance(r, int):
                return {ast.Lt: l < r, ast.LtE: l <= r, ast.Gt: l > r, ast.GtE: l >= r, ast.Eq: l == r, ast.NotEq: l != r}[type(op)]
            if isinstance(l, Ch) and isinstance(r, str) and len(r) == 1 and isinstance(op, (ast.Eq, ast.NotEq)):
                m = _is_char(l, r)
                if m is None:
                    raise HarnessError("comparison of an element with %r is not decidable from its class" % r)
                return m if isinstance(op, ast.Eq) else not m
            raise HarnessError("comparison shape")
        if isinstance(e, ast.BoolOp):
            vals = [ev(x) for x in e.values]      # (no side effects: evaluating all operands is harmless, but an
            if not all(isinstance(x, bool) for x in vals):   # operand that raises would have to be short-circuited)
                raise HarnessError("boolean operand shape")
            return any(vals) if isinstance(e.op, ast.Or) else all(vals)
        raise HarnessError("expression %s in %s is not modelled" % (ast.dump(e)[:80], fn_ast.name))

    def ev_short(e):
        """boolean test with short-circuit evaluation (an index may be out of range in a later operand)"""
        if isinstance(e, ast.BoolOp):
            for x in e.values:
                v = ev_short(x)
                if isinstance(e.op, ast.Or) and v:
                    return True
                if isinstance(e.op, ast.And) and not v:
                    return False
            return isinstance(e.op, ast.And)
        v = ev(e)
        if not isinstance(v, bool):
            raise HarnessError("test is not boolean")
        return v

    for st in fn_ast.body:
        if isinstance(st, ast.Expr) and isinstance(st.value, ast.Constant):
            continue
        if isinstance(st, ast.Assign) and len(st.targets) == 1 and isinstance(st.targets[0], ast.Name):
            env[st.targets[0].id] = ev(st.value)
            continue
        if isinstance(st, ast.Return):
            r = ev(st.value)
            if not isinstance(r, SymText) or r.is_bytes:
                raise HarnessError("%s does not return a str built from its argument" % fn_ast.name)
            return r
        if isinstance(st, ast.If) and not st.orelse and len(st.body) == 1 and isinstance(st.body[0], ast.Raise):
            if ev_short(st.test):
                raise Raises("%s raises (line %d)" % (fn_ast.name, st.lineno))
            continue
        raise HarnessError("statement %s in %s is not modelled" % (ast.dump(st)[:80], fn_ast.name))
    raise HarnessError("%s has no return" % fn_ast.name)


def read_literal(tok: SymText):
    """the assembler's string-literal grammar on a token of terms -> (decoded byte terms, problem or None)"""
    e = tok.e
    if len(e) < 2 or e[0].kind != "lit" or e[0].v != 0x22 or e[-1].kind != "lit" or e[-1].v != 0x22:
        return None, "token is not enclosed in quotes"
    body = e[1:-1]
    out = []
    i = 0
    while i < len(body):
        c = body[i]
        if c.kind == "lit" and c.v == 0x5C:
            if i + 1 >= len(body):
                return None, "unterminated escape at the end of the literal"
            d = body[i + 1]
            if d.kind != "lit":
                return None, "escape followed by a non-constant character"
            ch = chr(d.v)
            if ch in "nrt\\\"":
                out.append({"n": 10, "r": 13, "t": 9, "\\": 0x5C, '"': 0x22}[ch])
                i += 2
                continue
            if ch == "x":
                if i + 3 >= len(body):
                    return None, "short hex escape"
                h1, h2 = body[i + 2], body[i + 3]
                vals = []
                for h in (h1, h2):
                    if h.kind == "hex":
                        hv = _low8(h.v)
                        vals.append(z3.If(z3.ULE(hv, z3.BitVecVal(57, 8)), hv - z3.BitVecVal(48, 8), hv - z3.BitVecVal(87, 8)))
                    elif h.kind == "lit" and chr(h.v) in "0123456789abcdefABCDEF":
                        vals.append(z3.BitVecVal(int(chr(h.v), 16), 8))
                    else:
                        return None, "hex escape with a non-hex character"
                out.append(z3.simplify(vals[0] * z3.BitVecVal(16, 8) + vals[1]))
                i += 4
                continue
            return None, "invalid escape sequence \\%s" % ch
        if c.kind == "lit":
            if c.v == 0x22:
                return None, "unescaped quote inside the literal (the token ends early)"
            if c.v in (10, 13):
                return None, "raw line break inside the literal"
            out.append(c.v)
        elif c.kind in ("print", "hex"):
            out.append(_low8(c.v))      # cannot be a quote, a backslash or a line break by its class
        elif c.kind in ("high", "del", "c0", "tab", "lf", "cr", "quote", "bslash", "u2", "u3", "u4"):
            if c.kind in ("lf", "cr"):
                return None, "raw line break inside the literal"
            if c.kind == "quote":
                return None, "unescaped quote inside the literal (the token ends early)"
            if c.kind == "bslash":
                return None, "raw backslash (starts an escape)"
            if c.kind in ("u2", "u3", "u4"):
                out += utf8_bytes(c.v, c.kind)
            else:
                out.append(_low8(c.v))
        else:
            return None, "unexpected element"
        i += 1
    return out, None


def escape_obligations(maxn, timeout_ms):
    import pyteal.util as U
    fn = ast.parse(textwrap.dedent(inspect.getsource(U.escapeStr))).body[0]
    src = "%s:%d" % (inspect.getsourcefile(U.escapeStr), inspect.getsourcelines(U.escapeStr)[1])
    obs = []
    witnesses = []
    for n in range(0, maxn + 1):
        for combo in itertools.product(sorted(CLASSES), repeat=n):
            cps = [z3.BitVec("cp%d" % i, 21) for i in range(n)]
            cons = []
            for cp, cls in zip(cps, combo):
                cons += class_constraint(cp, cls)
            s0 = SymText([Ch(cp, _kind(cls)) for cp, cls in zip(cps, combo)])
            tok = interpret_escape(fn, s0)
            want = []
            for cp, cls in zip(cps, combo):
                want += utf8_bytes(cp, _kind(cls))
            got, problem = read_literal(tok)
            sv = z3.Solver()
            sv.set("timeout", timeout_ms)
            sv.add(*cons)
            t0 = time.time()
            if problem is not None or len(got) != len(want):
                # structural failure for every string of this class combination: any member is a witness
                r = str(sv.check())
                res = "sat" if r == "sat" else r
                why = problem or "decoded length %d, expected %d" % (len(got), len(want))
            else:
                diffs = [(_low8(a) if not isinstance(a, int) else z3.BitVecVal(a, 8)) != (_low8(b) if not isinstance(b, int) else z3.BitVecVal(b, 8))
                         for a, b in zip(got, want)]
                sv.push()
                sv.add(z3.Or(*diffs) if diffs else False)
                res = str(sv.check())
                why = "decoded bytes differ from UTF-8(s)"
                if res != "sat":
                    sv.pop()
                    # reachability twin: the class combination is inhabited; its model is replayed concretely
                    if str(sv.check()) != "sat":
                        obs.append({"classes": list(combo), "result": "vacuous"})
                        continue
            dt = time.time() - t0
            m = sv.model() if res == "sat" or str(sv.check()) == "sat" else None
            text = "".join(chr(m.eval(cp, model_completion=True).as_long()) for cp in cps) if m is not None else None
            obs.append({"classes": list(combo), "result": res, "time": round(dt, 4), "why": why if res == "sat" else None})
            witnesses.append((text, res == "sat", list(combo)))
    return obs, witnesses, src


def _extract_shape_ok():
    """extractBytesValue (pyteal/compiler/constants.py) turns a quoted byte-op argument into
    unescapeStr(value).encode("utf-8"): checked on its current AST"""
    import pyteal.compiler.constants as Cn
    fn = ast.parse(textwrap.dedent(inspect.getsource(Cn.extractBytesValue))).body[0]
    for st in ast.walk(fn):
        if isinstance(st, ast.If) and "startswith('\"')" in ast.unparse(st.test).replace('"\\""', "'\"'"):
            for r in st.body:
                if isinstance(r, ast.Return) and ast.unparse(r.value).replace('"', "'") == "unescapeStr(value).encode('utf-8')":
                    return True
    return False


def assembled_obligations(maxn, timeout_ms):
    """with assembleConstants the compiler reads its own byte-op argument back: for every class combination,
    unescapeStr(escapeStr(s)).encode("utf-8") == UTF-8(s), and unescapeStr does not raise"""
    import pyteal.util as U
    if not _extract_shape_ok():
        raise HarnessError("extractBytesValue no longer reads a quoted argument as unescapeStr(value).encode('utf-8')")
    fe = ast.parse(textwrap.dedent(inspect.getsource(U.escapeStr))).body[0]
    fu = ast.parse(textwrap.dedent(inspect.getsource(U.unescapeStr))).body[0]
    src = "%s:%d" % (inspect.getsourcefile(U.unescapeStr), inspect.getsourcelines(U.unescapeStr)[1])
    obs, witnesses = [], []
    for n in range(0, maxn + 1):
        for combo in itertools.product(sorted(CLASSES), repeat=n):
            cps = [z3.BitVec("cp%d" % i, 21) for i in range(n)]
            cons = []
            for cp, cls in zip(cps, combo):
                cons += class_constraint(cp, cls)
            sv = z3.Solver()
            sv.set("timeout", timeout_ms)
            sv.add(*cons)
            nq = [0]

            def decide(cond):
                for c, ans in ((z3.Not(cond), True), (cond, False)):
                    sv.push()
                    sv.add(c)
                    r = str(sv.check())
                    sv.pop()
                    nq[0] += 1
                    if r == "unsat":
                        return ans
                return None
            t0 = time.time()
            s0 = SymText([Ch(cp, _kind(cls)) for cp, cls in zip(cps, combo)])
            want = []
            for cp, cls in zip(cps, combo):
                want += utf8_bytes(cp, _kind(cls))
            problem, got = None, None
            try:
                tok = interpret_escape(fe, s0)
                val = interpret_escape(fu, tok, decide)
                got = [c.v if c.kind == "lit" else _low8(c.v) for c in val.encode("utf-8").e]
            except Raises as e:
                problem = str(e)
            except HarnessError as e:
                obs.append({"classes": list(combo), "result": "untranslatable", "why": str(e), "time": round(time.time() - t0, 4)})
                continue
            if problem is not None or len(got) != len(want):
                res = str(sv.check())
                why = problem or "read back %d bytes, expected %d" % (len(got), len(want))
            else:
                diffs = [(_low8(a) if not isinstance(a, int) else z3.BitVecVal(a, 8)) != (_low8(b) if not isinstance(b, int) else z3.BitVecVal(b, 8))
                         for a, b in zip(got, want)]
                sv.push()
                sv.add(z3.Or(*diffs) if diffs else False)
                res = str(sv.check())
                why = "bytes read back by the compiler differ from UTF-8(s)"
                m = sv.model() if res == "sat" else None
                sv.pop()
                if res == "sat":
                    witnesses.append(("".join(chr(m.eval(cp, model_completion=True).as_long()) for cp in cps), True, list(combo)))
                    obs.append({"classes": list(combo), "result": "sat", "why": why, "time": round(time.time() - t0, 4), "decisions": nq[0]})
                    continue
            if res == "sat" and (problem is not None or len(got) != len(want)):
                m = sv.model()
                witnesses.append(("".join(chr(m.eval(cp, model_completion=True).as_long()) for cp in cps), True, list(combo)))
            obs.append({"classes": list(combo), "result": res, "why": why if res == "sat" else None, "time": round(time.time() - t0, 4), "decisions": nq[0]})
    return obs, witnesses, src


def real_bytes_of_str(text: str, assemble: bool = False):
    """Bytes(text) through the real compiler and the independent front-end -> bytes pushed, or an error string"""
    import pyteal as pt
    from ..recipe.build import reset_pyteal_state
    reset_pyteal_state()
    try:
        teal = pt.compileTeal(pt.Seq(pt.Pop(pt.Bytes(text)), pt.Int(1)), pt.Mode.Application, version=6, assembleConstants=assemble)
    except Exception as e:  # noqa
        return None, "compile: %s: %s" % (type(e).__name__, str(e)[:80]), ""
    finally:
        reset_pyteal_state()
    try:
        prog = parse(teal)
    except TealSyntaxError as e:
        return None, "unparsable: %s" % e, teal
    cs = check_program(prog, "A")
    if cs:
        return None, "front-end: %s" % cs[0], teal
    pushes = [i for i in prog.instrs if i.op in ("byte", "pushbytes")]
    if len(pushes) != 1 or len(prog.instrs) != 4:
        return None, "unexpected instruction stream (%d instructions)" % len(prog.instrs), teal
    return bytes(pushes[0].args[0]), None, teal


# ---------------------------------------------------------------------------
# (2) regex -> z3
def re_to_z3(pattern: str, how: str = "fullmatch"):
    """the language a compiled pattern accepts when used with fullmatch / match (Python semantics of the anchors:
    with match, `$` also holds just before one trailing line feed, and without `$` anything may follow)"""
    import re._parser as sp
    tree = sp.parse(pattern)
    if how not in ("fullmatch", "match"):
        raise HarnessError("regex used with %s" % how)
    items_top = list(tree)
    ends_anchored = bool(items_top) and str(items_top[-1][0]) == "AT" and str(items_top[-1][1]) in ("AT_END", "AT_END_STRING")
    for k, (op, av) in enumerate(items_top):
        if str(op) == "AT" and not ((k == 0 and str(av) in ("AT_BEGINNING", "AT_BEGINNING_STRING")) or (k == len(items_top) - 1 and ends_anchored)):
            raise HarnessError("an anchor in the middle of a pattern is not modelled")

    def conv(items):
        parts = [one(op, av) for op, av in items]
        parts = [p for p in parts if p is not None]
        if not parts:
            return z3.Re("")
        return z3.Concat(*parts) if len(parts) > 1 else parts[0]

    def cls(av):
        alts = []
        for op, a in av:
            if str(op) == "LITERAL":
                alts.append(z3.Re(chr(a)))
            elif str(op) == "RANGE":
                alts.append(z3.Range(chr(a[0]), chr(a[1])))
            else:
                raise HarnessError("regex class item %s" % op)
        return z3.Union(*alts) if len(alts) > 1 else alts[0]

    def one(op, av):
        o = str(op)
        if o == "AT":
            if how == "match" and str(av) == "AT_END":
                return z3.Option(z3.Re("\n"))      # `$` under match: the end, or just before one trailing line feed
            return None          # leading `^` / trailing `$` under fullmatch add nothing
        if o == "LITERAL":
            return z3.Re(chr(av))
        if o == "IN":
            return cls(av)
        if o == "SUBPATTERN":
            return conv(av[3])
        if o == "BRANCH":
            alts = [conv(x) for x in av[1]]
            return z3.Union(*alts) if len(alts) > 1 else alts[0]
        if o == "MAX_REPEAT":
            lo, hi, sub = av
            r = conv(sub)
            if str(hi) == "MAXREPEAT":
                if lo == 0:
                    return z3.Star(r)
                if lo == 1:
                    return z3.Plus(r)
                return z3.Concat(*([r] * lo + [z3.Star(r)]))
            return z3.Loop(r, lo, hi)
        raise HarnessError("regex construct %s is not supported" % o)

    r = conv(list(tree))
    if how == "match" and not ends_anchored:
        r = z3.Concat(r, z3.Full(z3.ReSort(z3.StringSort())))       # match only anchors the beginning
    return r


def source_patterns():
    """the re.compile(...) literals of valid_base16/32/64 in pyteal/types.py, plus the one extra guard shape
    that occurs there (`if len(s) % 2: raise`) -> name -> (pattern, even_length_required)"""
    import pyteal.types as PT
    out = {}
    for name in ("valid_base16", "valid_base32", "valid_base64"):
        fn = ast.parse(textwrap.dedent(inspect.getsource(getattr(PT, name)))).body[0]
        pats = [n.args[0].value for n in ast.walk(fn) if isinstance(n, ast.Call) and isinstance(n.func, ast.Attribute) and n.func.attr == "compile"
                and n.args and isinstance(n.args[0], ast.Constant)]
        how = [n.func.attr for n in ast.walk(fn) if isinstance(n, ast.Call) and isinstance(n.func, ast.Attribute) and n.func.attr in ("fullmatch", "match", "search")]
        if len(pats) != 1 or len(how) != 1 or how[0] not in ("fullmatch", "match"):
            raise HarnessError("%s: expected one re.compile literal used with fullmatch or match, found %r / %r" % (name, pats, how))
        even = False
        for st in fn.body:
            if isinstance(st, ast.If):
                t = st.test
                is_match_guard = any(isinstance(n, ast.Attribute) and n.attr in ("fullmatch", "match") for n in ast.walk(t))
                is_parity = (isinstance(t, ast.BinOp) and isinstance(t.op, ast.Mod) and isinstance(t.right, ast.Constant) and t.right.value == 2
                             and isinstance(t.left, ast.Call) and getattr(t.left.func, "id", "") == "len")
                if is_parity and st.body and isinstance(st.body[-1], ast.Raise):
                    even = True
                elif not is_match_guard:
                    raise HarnessError("%s: an extra guard that is not modelled: %s" % (name, ast.dump(t)[:80]))
        out[name] = (pats[0], even, how[0])
    return out


def reference_grammars():
    A = z3.Union(z3.Range("A", "Z"), z3.Range("2", "7"))
    eq = z3.Re("=")

    def rep(r, n):
        return z3.Concat(*([r] * n)) if n > 1 else r
    b32_tail = z3.Union(z3.Concat(rep(A, 2), z3.Option(rep(eq, 6))), z3.Concat(rep(A, 4), z3.Option(rep(eq, 4))),
                        z3.Concat(rep(A, 5), z3.Option(rep(eq, 3))), z3.Concat(rep(A, 7), z3.Option(eq)))
    b32 = z3.Concat(z3.Star(rep(A, 8)), z3.Option(b32_tail))
    B = z3.Union(z3.Range("A", "Z"), z3.Range("a", "z"), z3.Range("0", "9"), z3.Re("+"), z3.Re("/"))
    b64 = z3.Concat(z3.Star(rep(B, 4)), z3.Option(z3.Union(z3.Concat(rep(B, 2), eq, eq), z3.Concat(rep(B, 3), eq))))
    H = z3.Union(z3.Range("0", "9"), z3.Range("a", "f"), z3.Range("A", "F"))
    b16 = z3.Star(rep(H, 2))      # (Bytes strips an optional 0x prefix before validating)
    return {"valid_base16": b16, "valid_base32": b32, "valid_base64": b64}


def validator_obligations(timeout_ms):
    obs, members = [], []
    pats = source_patterns()
    refs = reference_grammars()
    for name, (pat, even, how) in pats.items():
        r_src = re_to_z3(pat, how)
        r_ref = refs[name]
        x = z3.String("x")
        if even:
            # the parity guard as a regular constraint: length arithmetic next to a regex membership ends in `unknown`
            anyc = z3.AllChar(z3.ReSort(z3.StringSort()))
            r_src = z3.Intersect(r_src, z3.Star(z3.Concat(anyc, anyc)))
        acc_src = z3.InRe(x, r_src)
        acc_ref = z3.InRe(x, r_ref)
        for direction, a, b in (("accepted-by-pyteal-but-not-RFC4648", acc_src, acc_ref), ("RFC4648-but-rejected-by-pyteal", acc_ref, acc_src)):
            s = z3.Solver()
            s.set("timeout", timeout_ms)
            one = _as_one_regex(z3.And(a, z3.Not(b)), x)       # emptiness of ONE regular expression
            s.add(z3.InRe(x, one) if one is not None else z3.And(a, z3.Not(b)))
            t0 = time.time()
            r = str(s.check())
            ob = {"validator": name, "pattern": pat, "direction": direction, "result": r, "time": round(time.time() - t0, 3)}
            if r == "sat":
                ob["witness"] = s.model().eval(x).as_string()
            obs.append(ob)
        # a few members of the accepted language (different lengths), for the decode replay
        for n in (0, 2, 3, 5, 8, 11, 16):
            s = z3.Solver()
            s.set("timeout", timeout_ms)
            s.add(acc_src, z3.Length(x) >= n, z3.Length(x) <= n + 3)
            if str(s.check()) == "sat":
                members.append((name, s.model().eval(x).as_string()))
                if name == "valid_base16":
                    members.append((name, "0x" + s.model().eval(x).as_string()))
    return obs, members


# ---------------------------------------------------------------------------
# (2b) what Bytes.__init__ does to the text before / after validating it
def constructor_branches(prefix=None, absent=()):
    """Bytes.__init__(base, text) from its CURRENT AST: for each base, the paths of its branch as
    (path condition, validated terms [(validator name, term)], environment, approximations) over the text.
    prefix=None: the text is the free string x; prefix=P: the text is P ++ y with y free (the case split
    the obligations are decided under: string solvers do far better on it than on prefix tests + slices).
    -> (free variable, text term, {base: paths}, prefixes tested by the source)"""
    import pyteal as pt
    fn = ast.parse(textwrap.dedent(inspect.getsource(pt.Bytes.__init__))).body[0]
    free = z3.String("x") if prefix is None else z3.String("y")
    x = free if prefix is None else z3.Concat(z3.StringVal(prefix), free)
    anyre = z3.Full(z3.ReSort(z3.StringSort()))
    tested = set()
    branches = {}
    for node in ast.walk(fn):
        if isinstance(node, ast.If) and isinstance(node.test, ast.Compare) and ast.unparse(node.test.left) == "self.base" \
                and len(node.test.ops) == 1 and isinstance(node.test.ops[0], ast.Eq) and isinstance(node.test.comparators[0], ast.Constant) \
                and node.test.comparators[0].value in ("base16", "base32", "base64"):
            branches[node.test.comparators[0].value] = node.body
    if set(branches) != {"base16", "base32", "base64"}:
        raise HarnessError("Bytes.__init__: expected one branch per base, found %s" % sorted(branches))

    def is_text(e):
        return isinstance(e, ast.Name) and e.id == "arg2"

    def ex(e, env, flags):
        if is_text(e):
            return x
        if isinstance(e, ast.Attribute) and ast.unparse(e) == "self.byte_str":
            if "byte_str" not in env:
                raise HarnessError("Bytes.__init__: byte_str read before it is set")
            return env["byte_str"]
        if isinstance(e, ast.Constant) and isinstance(e.value, str):
            return z3.StringVal(e.value)
        if isinstance(e, ast.Subscript) and isinstance(e.slice, ast.Slice) and e.slice.step is None:
            lo = e.slice.lower.value if isinstance(e.slice.lower, ast.Constant) else (0 if e.slice.lower is None else None)
            if lo is None or lo < 0:
                raise HarnessError("Bytes.__init__: slice bound")
            if e.slice.upper is None:
                if is_text(e.value) and prefix is not None and lo <= len(prefix):
                    return z3.Concat(z3.StringVal(prefix[lo:]), free) if lo < len(prefix) else free
                t = ex(e.value, env, flags)
                return z3.SubString(t, lo, z3.Length(t))       # (z3: clipped at the end, as Python)
            t = ex(e.value, env, flags)
            if isinstance(e.slice.upper, ast.Constant) and isinstance(e.slice.upper.value, int) and e.slice.upper.value >= lo:
                return z3.SubString(t, lo, e.slice.upper.value - lo)
            raise HarnessError("Bytes.__init__: slice bound")
        if isinstance(e, ast.BinOp) and isinstance(e.op, ast.Add):
            return z3.Concat(ex(e.left, env, flags), ex(e.right, env, flags))
        if isinstance(e, ast.Call) and isinstance(e.func, ast.Attribute) and not e.keywords:
            t = ex(e.func.value, env, flags)
            args = [ex(a, env, flags) for a in e.args]
            m = e.func.attr
            if m == "replace" and len(args) == 2:
                # Python replaces every occurrence in one pass; z3py offers the first occurrence only: three rounds, marked approximate
                flags.append("str.replace approximated by three first-occurrence replacements")
                for _ in range(3):
                    t = z3.Replace(t, args[0], args[1])
                return t
            if m in ("removeprefix",) and len(args) == 1:
                return z3.If(z3.PrefixOf(args[0], t), z3.SubString(t, z3.Length(args[0]), z3.Length(t)), t)
            raise HarnessError("Bytes.__init__: method %s is not modelled" % m)
        raise HarnessError("Bytes.__init__: expression %s is not modelled" % ast.dump(e)[:80])

    def cond(e, env, flags):
        if isinstance(e, ast.Call) and isinstance(e.func, ast.Attribute) and e.func.attr in ("startswith", "endswith") and len(e.args) == 1:
            if e.func.attr == "startswith" and is_text(e.func.value) and isinstance(e.args[0], ast.Constant) and isinstance(e.args[0].value, str):
                c = e.args[0].value
                tested.add(c)
                if prefix is not None and prefix.startswith(c):
                    return z3.BoolVal(True)
                if prefix is not None and not c.startswith(prefix):
                    return z3.BoolVal(False)
                if prefix is None and any(c.startswith(a) for a in absent):
                    return z3.BoolVal(False)                             # the case under which this run is used excludes it
                if prefix is None:
                    return z3.InRe(x, z3.Concat(z3.Re(c), anyre))       # as a regular constraint
            t, a = ex(e.func.value, env, flags), ex(e.args[0], env, flags)
            return z3.PrefixOf(a, t) if e.func.attr == "startswith" else z3.SuffixOf(a, t)
        if isinstance(e, ast.UnaryOp) and isinstance(e.op, ast.Not):
            return z3.Not(cond(e.operand, env, flags))
        if isinstance(e, ast.Compare) and len(e.ops) == 1 and isinstance(e.ops[0], (ast.Eq, ast.NotEq)):
            r = ex(e.left, env, flags) == ex(e.comparators[0], env, flags)
            return r if isinstance(e.ops[0], ast.Eq) else z3.Not(r)
        raise HarnessError("Bytes.__init__: condition %s is not modelled" % ast.dump(e)[:80])

    def run(body, pc, env, val, flags):
        """-> list of finished paths"""
        if not body:
            return [(pc, val, env, flags)]
        st, rest = body[0], body[1:]
        if isinstance(st, ast.Expr) and isinstance(st.value, ast.Call) and isinstance(st.value.func, ast.Name) \
                and st.value.func.id in ("valid_base16", "valid_base32", "valid_base64") and len(st.value.args) == 1:
            return run(rest, pc, env, val + [(st.value.func.id, ex(st.value.args[0], env, flags))], flags)
        if isinstance(st, ast.Assign) and len(st.targets) == 1 and ast.unparse(st.targets[0]) == "self.byte_str":
            return run(rest, pc, dict(env, byte_str=ex(st.value, env, flags)), val, flags)
        if isinstance(st, ast.If):
            fl = list(flags)
            c = cond(st.test, env, fl)
            out = []
            if not z3.is_false(c):
                out += run(list(st.body) + rest, pc + [c], env, val, list(fl))
            if not z3.is_true(c):
                out += run(list(st.orelse) + rest, pc + [z3.Not(c)], env, val, list(fl))
            return out
        if isinstance(st, ast.Raise):
            return [(pc, None, env, flags)]      # rejected on this path
        raise HarnessError("Bytes.__init__: statement %s is not modelled" % ast.dump(st)[:80])

    out = {}
    for base, body in branches.items():
        out[base] = run(list(body), [], {}, [], [])
    return free, x, out, tested


def _as_one_regex(f, term):
    """a Boolean combination of memberships of ONE term, as a single regular expression (emptiness of a regex is decided
    at once where the same question spread over several membership atoms is not); None when f has another shape"""
    if z3.is_true(f):
        return z3.Full(z3.ReSort(z3.StringSort()))
    if z3.is_false(f):
        return z3.Empty(z3.ReSort(z3.StringSort()))
    if z3.is_app_of(f, z3.Z3_OP_SEQ_IN_RE):
        return f.arg(1) if z3.eq(f.arg(0), term) else None
    if z3.is_not(f):
        r = _as_one_regex(f.arg(0), term)
        return None if r is None else z3.Complement(r)
    if z3.is_and(f) or z3.is_or(f):
        rs = [_as_one_regex(c, term) for c in f.children()]
        if any(r is None for r in rs):
            return None
        if len(rs) == 1:
            return rs[0]
        return z3.Intersect(*rs) if z3.is_and(f) else z3.Union(*rs)
    return None


def constructor_obligations(timeout_ms):
    """accepted <=> the text is well-formed (RFC 4648; base16 with one optional leading 0x), and the digits that reach
    the program are the text's own (minus that prefix).  Decided per case of a split on the prefixes the source tests
    (and "0x"): text = P ++ y for each such P, and text starting with none of them."""
    pats = source_patterns()
    refs = reference_grammars()
    anyre = z3.Full(z3.ReSort(z3.StringSort()))
    _, _, _, tested = constructor_branches(None)
    prefixes = sorted(tested | {"0x"})
    obs = []
    for case in prefixes + [None]:
        free, x, branches, _ = constructor_branches(case, absent=prefixes if case is None else ())
        case_cons = [] if case is not None else [z3.Not(z3.InRe(x, z3.Concat(z3.Re(p), anyre))) for p in prefixes]
        for base, paths in sorted(branches.items()):
            vname = "valid_" + base
            accepted, same_digits, approx = [], [], []
            if base != "base16":
                ref_digits = x
            elif case is not None and case.startswith("0x"):
                ref_digits = z3.Concat(z3.StringVal(case[2:]), free) if len(case) > 2 else free
            elif case is None:
                ref_digits = x          # (does not start with 0x in this case)
            else:
                ref_digits = z3.If(z3.PrefixOf(z3.StringVal("0x"), x), z3.SubString(x, 2, z3.Length(x)), x)
            for pc, val, env, flags in paths:
                approx += flags
                if val is None:
                    continue
                if not val or "byte_str" not in env:
                    raise HarnessError("Bytes.__init__: a %s path ends without validating / setting the text" % base)
                acc = list(pc)
                for vn, term in val:
                    pat, even, how = pats[vn]
                    r = re_to_z3(pat, how)
                    if even:
                        anyc = z3.AllChar(z3.ReSort(z3.StringSort()))
                        r = z3.Intersect(r, z3.Star(z3.Concat(anyc, anyc)))     # even length, as a regular constraint
                    acc.append(z3.InRe(term, r))
                accepted.append(z3.And(*acc))
                same_digits.append(z3.Implies(z3.And(*acc), env["byte_str"] == ref_digits))
            acc_any = z3.Or(*accepted) if accepted else z3.BoolVal(False)
            r_ref = z3.Concat(z3.Option(z3.Re("0x")), refs[vname]) if base == "base16" else refs[vname]
            in_ref = z3.InRe(x, r_ref)
            for what, query in (("accepts-a-malformed-text", [acc_any, z3.Not(in_ref)]), ("rejects-a-well-formed-text", [in_ref, z3.Not(acc_any)]),
                                ("passes-on-other-digits", [acc_any, z3.Not(z3.And(*same_digits))])):
                sv = z3.Solver()
                sv.set("timeout", timeout_ms)
                one = _as_one_regex(z3.And(*(query + case_cons)), free)
                if one is not None:
                    sv.add(z3.InRe(free, one))
                else:
                    sv.add(*query)
                    sv.add(*case_cons)
                t0 = time.time()
                r = str(sv.check())
                ob = {"base": base, "case": "text = %r ++ y" % case if case is not None else "text starts with none of %r" % prefixes,
                      "obligation": what, "result": r, "time": round(time.time() - t0, 3), "approximations": sorted(set(approx))}
                if r == "sat":
                    ob["witness"] = (case or "") + sv.model().eval(free, model_completion=True).as_string()
                elif r == "unsat" and approx:
                    ob["result"] = "unknown"      # an approximated step cannot support a proof
                obs.append(ob)
    return obs


def replay_constructor_witness(base, text):
    """-> None when Bytes(base, text) behaves as the reference says (rejected iff malformed; else pushes the decoded bytes)"""
    import base64 as b64m
    import pyteal as pt
    from ..recipe.build import reset_pyteal_state
    wellformed, want = True, None
    try:
        if base == "base16":
            body = text[2:] if text.startswith("0x") else text
            if not re.fullmatch(r"([0-9a-fA-F]{2})*", body):
                raise ValueError
            want = bytes.fromhex(body)
        elif base == "base32":
            if not re.fullmatch(r"([A-Z2-7]{8})*([A-Z2-7]{2}(={6})?|[A-Z2-7]{4}(={4})?|[A-Z2-7]{5}(={3})?|[A-Z2-7]{7}(=)?)?", text):
                raise ValueError
            t = text.rstrip("=")
            want = b64m.b32decode(t + "=" * ((8 - len(t) % 8) % 8))
        else:
            if not re.fullmatch(r"([A-Za-z0-9+/]{4})*([A-Za-z0-9+/]{2}==|[A-Za-z0-9+/]{3}=)?", text):
                raise ValueError
            want = b64m.b64decode(text)
    except ValueError:
        wellformed = False
    reset_pyteal_state()
    try:
        teal = pt.compileTeal(pt.Seq(pt.Pop(pt.Bytes(base, text)), pt.Int(1)), pt.Mode.Application, version=6)
    except (pt.TealInputError, pt.TealTypeError) as e:
        return None if not wellformed else "well-formed text rejected: %s" % str(e)[:80]
    except Exception as e:  # noqa
        return "constructor / compiler raised %s: %s" % (type(e).__name__, str(e)[:80])
    finally:
        reset_pyteal_state()
    if not wellformed:
        return "malformed text accepted; program: %s" % teal.splitlines()[1][:80]
    try:
        prog = parse(teal)
    except TealSyntaxError as e:
        return "unparsable: %s" % e
    got = bytes([i for i in prog.instrs if i.op == "byte"][0].args[0])
    return None if got == want else "pushed %s, the literal denotes %s" % (got.hex(), want.hex())


def replay_member(name, text):
    """Bytes(base, text) through the real compiler -> bytes; reference = Python's decoders"""
    import base64
    import pyteal as pt
    from ..recipe.build import reset_pyteal_state
    base = {"valid_base16": "base16", "valid_base32": "base32", "valid_base64": "base64"}[name]
    reset_pyteal_state()
    try:
        teal = pt.compileTeal(pt.Seq(pt.Pop(pt.Bytes(base, text)), pt.Int(1)), pt.Mode.Application, version=6)
    except Exception as e:  # noqa
        return "rejected by PyTeal although the validator's language contains it: %s" % str(e)[:80]
    finally:
        reset_pyteal_state()
    try:
        prog = parse(teal)
        cs = check_program(prog, "A")
    except TealSyntaxError as e:
        return "unparsable: %s" % e
    if cs:
        return "front-end: %s" % cs[0]
    got = bytes([i for i in prog.instrs if i.op == "byte"][0].args[0])
    if base == "base16":
        want = bytes.fromhex(text[2:] if text.startswith("0x") else text)
    elif base == "base32":
        t = text.rstrip("=")
        want = base64.b32decode(t + "=" * ((8 - len(t) % 8) % 8))
    else:
        want = base64.b64decode(text)
    return None if got == want else "pushed %s, the literal denotes %s" % (got.hex(), want.hex())


# ---------------------------------------------------------------------------
# (3) Int guard
def int_guard_obligations(timeout_ms):
    import pyteal as pt
    fn = ast.parse(textwrap.dedent(inspect.getsource(pt.Int.__init__))).body[0]
    n = z3.Int("n")

    def cond(e):
        if isinstance(e, ast.BoolOp):
            cs = [cond(v) for v in e.values]
            return z3.And(*cs) if isinstance(e.op, ast.And) else z3.Or(*cs)
        if isinstance(e, ast.Compare) and len(e.ops) == 1:
            if isinstance(e.ops[0], (ast.Is, ast.IsNot)):
                # type(value) is [not] int: the quantified n is an int, so the type test is decided
                if isinstance(e.left, ast.Call) and getattr(e.left.func, "id", "") == "type" and getattr(e.comparators[0], "id", "") == "int":
                    return z3.BoolVal(isinstance(e.ops[0], ast.Is))
                raise HarnessError("is-comparison in Int.__init__")
            l, r = val(e.left), val(e.comparators[0])
            op = {ast.Lt: lambda a, b: a < b, ast.LtE: lambda a, b: a <= b, ast.Gt: lambda a, b: a > b, ast.GtE: lambda a, b: a >= b,
                  ast.Eq: lambda a, b: a == b, ast.NotEq: lambda a, b: a != b}.get(type(e.ops[0]))
            if op is None:
                raise HarnessError("comparison operator in Int.__init__")
            return op(l, r)
        if isinstance(e, ast.UnaryOp) and isinstance(e.op, ast.Not):
            return z3.Not(cond(e.operand))
        raise HarnessError("condition %s in Int.__init__" % ast.dump(e)[:80])

    def val(e):
        if isinstance(e, ast.Name) and e.id == fn.args.args[1].arg:
            return n
        if isinstance(e, ast.Constant) and isinstance(e.value, int):
            return z3.IntVal(e.value)
        if isinstance(e, ast.BinOp) and isinstance(e.left, ast.Constant) and isinstance(e.right, ast.Constant):
            return z3.IntVal(eval(compile(ast.Expression(e), "<c>", "eval")))
        if isinstance(e, ast.Call) and getattr(e.func, "id", "") == "type":
            return None
        raise HarnessError("value %s in Int.__init__" % ast.dump(e)[:80])

    # walk: if/elif/else chain of raise / assignment
    accepted = []

    def walk(body, pc):
        for st in body:
            if isinstance(st, ast.Expr):
                continue
            if isinstance(st, ast.If):
                c = cond(st.test)
                walk(st.body, pc + [c])
                walk(st.orelse, pc + [z3.Not(c)])
                return
            if isinstance(st, ast.Raise):
                return
            if isinstance(st, ast.Assign):
                accepted.append(z3.And(*pc) if pc else z3.BoolVal(True))
                return
            raise HarnessError("statement %s in Int.__init__" % ast.dump(st)[:80])
    walk(fn.body, [])
    acc = z3.Or(*accepted) if accepted else z3.BoolVal(False)
    spec = z3.And(n >= 0, n < z3.IntVal(1 << 64))
    obs = []
    for name, f in (("accepted-outside-uint64", z3.And(acc, z3.Not(spec))), ("uint64-rejected", z3.And(spec, z3.Not(acc)))):
        s = z3.Solver()
        s.set("timeout", timeout_ms)
        s.add(f)
        r = str(s.check())
        ob = {"obligation": "Int: " + name, "result": r}
        if r == "sat":
            ob["witness"] = s.model().eval(n, model_completion=True).as_long()
        obs.append(ob)
    return obs


def replay_int(v: int):
    import pyteal as pt
    from ..recipe.build import reset_pyteal_state
    reset_pyteal_state()
    try:
        teal = pt.compileTeal(pt.Return(pt.Int(v)), pt.Mode.Application, version=6)
    except pt.TealInputError:
        return "rejected"
    finally:
        reset_pyteal_state()
    prog = parse(teal)
    got = prog.instrs[0].args[0]
    return None if (prog.instrs[0].op == "int" and got == v) else "pushed %r" % (got,)


# ---------------------------------------------------------------------------
# (4) addresses and method signatures
def address_members(timeout_ms, k=3):
    """members of the language valid_address accepts (58 characters of the base32 alphabet), chosen by z3"""
    A = z3.Union(z3.Range("A", "Z"), z3.Range("2", "7"))
    x = z3.String("a")
    out = []
    s = z3.Solver()
    s.set("timeout", timeout_ms)
    s.add(z3.InRe(x, z3.Loop(A, 58, 58)))
    for _ in range(k):
        if str(s.check()) != "sat":
            break
        v = s.model().eval(x).as_string()
        out.append(v)
        s.add(x != z3.StringVal(v))
    return out


def method_text_witnesses(timeout_ms):
    """texts accepted by MethodSignature's guard (non-empty str) that contain a character of the literal grammar"""
    out = []
    for needle in ['"', "\\", "\n", "//", ";"]:
        s = z3.Solver()
        s.set("timeout", timeout_ms)
        t = z3.String("t")
        s.add(z3.Length(t) >= 1, z3.Length(t) <= 6, z3.Contains(t, z3.StringVal(needle)))
        if str(s.check()) == "sat":
            v = s.model().eval(t).as_string()
            out.append(re.sub(r"\\u\{([0-9a-fA-F]+)\}", lambda m: chr(int(m.group(1), 16)), v))
    return out + ["add(uint64,uint64)uint64", "x"]


def replay_method_text(text: str):
    import pyteal as pt
    from ..recipe.build import reset_pyteal_state
    from ..router import selector
    reset_pyteal_state()
    try:
        teal = pt.compileTeal(pt.Seq(pt.Pop(pt.MethodSignature(text)), pt.Int(1)), pt.Mode.Application, version=6)
    except pt.TealInputError:
        return None      # rejected when constructed: allowed
    finally:
        reset_pyteal_state()
    try:
        prog = parse(teal)
    except TealSyntaxError as e:
        return "unparsable: %s" % e
    cs = check_program(prog, "A")
    if cs:
        return "front-end: %s" % cs[0]
    ms = [i for i in prog.instrs if i.op == "method"]
    if len(ms) != 1 or len(prog.instrs) != 4:
        return "unexpected instruction stream (%d instructions, %d method ops)" % (len(prog.instrs), len(ms))
    if bytes(ms[0].args[0][1]) != selector(text):
        return "the method literal reads back as %r" % (ms[0].args[0][0],)
    return None


def replay_address(a: str):
    import pyteal as pt
    from algosdk import encoding
    try:
        pt.Addr(a)
    except pt.TealInputError:
        return None
    return None if encoding.is_valid_address(a) else "accepted although the checksum is wrong"


# ---------------------------------------------------------------------------
def main():
    t, sd = tier(), seed()
    rep = Report(PROP)
    tmo = 60000 if t == "quick" else 300000
    agg = Counter()
    samples = []
    solver_time = 0.0
    # (1)
    esc_obs, witnesses, esc_src = [], [], ""
    try:
        esc_obs, witnesses, esc_src = escape_obligations(2 if t == "quick" else 3, tmo)
    except HarnessError as e:
        rep.harness_error("escapeStr can no longer be interpreted from its source: %s" % e)
    for o in esc_obs:
        agg["obligations"] += 1
        if o["result"] == "unsat":
            agg["discharged"] += 1
        elif o["result"] != "sat":
            agg["inconclusive"] += 1
        solver_time += o.get("time", 0)
    # replay one member of every class combination through the real Bytes(s) (also when the model found nothing)
    if not witnesses:
        # fall back to fixed representatives of the classes so that a tree on which the interpretation fails is still exercised
        reps = {"print": "a", "space": " ", "slash": "/", "semi": ";", "quote": '"', "bslash": "\\", "tab": "\t", "lf": "\n", "cr": "\r", "c0": "\x01", "del": "\x7f", "u2": "\xe9", "u3": "\u6f22", "u4": "\U0001F600"}
        witnesses = [("".join(reps[c] for c in combo), False, list(combo)) for n in range(0, 3) for combo in itertools.product(sorted(CLASSES), repeat=n)]
    for text, claimed, combo in witnesses:
        if text is None:
            continue
        got, err, teal = real_bytes_of_str(text)
        agg["replayed"] += 1
        want = text.encode("utf-8")
        if err is not None or got != want:
            rep.violation({"kind": "str-literal", "text": text, "codepoints": [ord(c) for c in text], "classes": combo,
                           "observed": err or got.hex(), "expected": want.hex(), "teal": teal[-400:]}, ["str-literal"])
        elif claimed:
            agg["unconfirmed"] += 1
    if esc_obs:
        samples.append({"kernel": esc_src, "example": esc_obs[len(esc_obs) // 2]})
    # (1b) the assembled form: the compiler reads its own byte-op argument back (unescapeStr) before emitting pushbytes / bytecblock
    asm_obs, asm_w, asm_src = [], [], ""
    try:
        asm_obs, asm_w, asm_src = assembled_obligations(2 if t == "quick" else 3, tmo)
    except HarnessError as e:
        rep.harness_error("the read-back of byte-op arguments can no longer be interpreted from its source: %s" % e)
    for o in asm_obs:
        agg["obligations"] += 1
        if o["result"] == "unsat":
            agg["discharged"] += 1
        elif o["result"] != "sat":
            agg["inconclusive"] += 1
        solver_time += o.get("time", 0)
    for text, claimed, combo in list(witnesses) + asm_w:
        if text is None:
            continue
        got, err, teal = real_bytes_of_str(text, assemble=True)
        agg["replayed"] += 1
        want = text.encode("utf-8")
        if err is not None or got != want:
            rep.violation({"kind": "str-literal", "assemble": True, "text": text, "codepoints": [ord(c) for c in text], "classes": combo,
                           "observed": err or got.hex(), "expected": want.hex(), "teal": teal[-400:]}, ["str-literal"])
        elif claimed and (text, True, combo) in asm_w:
            agg["unconfirmed"] += 1
    if asm_obs:
        samples.append({"kernel": asm_src, "example": asm_obs[len(asm_obs) // 2]})
    # (2)
    try:
        vobs, members = validator_obligations(tmo)
    except HarnessError as e:
        rep.harness_error("validators can no longer be translated: %s" % e)
        vobs, members = [], []
    for o in vobs:
        agg["obligations"] += 1
        solver_time += o["time"]
        if o["result"] == "unsat":
            agg["discharged"] += 1
        elif o["result"] == "sat":
            why = replay_validator_witness(o)
            agg["replayed"] += 1
            if why:
                rep.violation({"kind": "validator", "validator": o["validator"], "direction": o["direction"], "witness": o["witness"], "why": why}, ["validator"])
            else:
                agg["unconfirmed"] += 1
        else:
            agg["inconclusive"] += 1
    for name, text in members:
        agg["replayed"] += 1
        why = replay_member(name, text)
        if why:
            rep.violation({"kind": "based-literal", "validator": name, "text": text, "why": why}, ["based-literal"])
    samples += vobs[:2]
    # (2b)
    try:
        cobs = constructor_obligations(tmo)
    except HarnessError as e:
        rep.harness_error("Bytes.__init__ can no longer be translated: %s" % e)
        cobs = []
    for o in cobs:
        agg["obligations"] += 1
        solver_time += o["time"]
        if o["result"] == "unsat":
            agg["discharged"] += 1
        elif o["result"] == "sat":
            agg["replayed"] += 1
            why = replay_constructor_witness(o["base"], o["witness"])
            if why:
                rep.violation({"kind": "constructor", "base": o["base"], "obligation": o["obligation"], "text": o["witness"], "why": why}, ["based-literal"])
            else:
                agg["unconfirmed"] += 1
        else:
            agg["inconclusive"] += 1
    # fixed near-miss texts (one per way of being malformed), whatever the solver said
    for base, text in (("base16", "0x0xabcd"), ("base16", "ab0xcd"), ("base16", "0xab0x"), ("base16", "0Xab"), ("base16", "abc"), ("base16", "0xabc"), ("base16", "ab cd"),
                       ("base16", "x0ab"), ("base16", "0x"), ("base16", ""), ("base16", "0xAbCd"), ("base32", "ME======"), ("base32", "ME"), ("base32", "M"), ("base32", "ME="),
                       ("base32", "me======"), ("base32", "MFRGG==="), ("base32", "MFRGG"), ("base32", "MFRGGZDF"), ("base32", "ME======ME======"),
                       ("base64", "YQ=="), ("base64", "YQ="), ("base64", "YQ"), ("base64", "YWI="), ("base64", "YWJj"), ("base64", "YW Jj"), ("base64", "YQ==YQ=="), ("base64", "=")):
        agg["replayed"] += 1
        why = replay_constructor_witness(base, text)
        if why:
            rep.violation({"kind": "constructor", "base": base, "obligation": "fixed near-miss", "text": text, "why": why}, ["based-literal"])
    samples += cobs[:1]
    # (3)
    try:
        iobs = int_guard_obligations(tmo)
    except HarnessError as e:
        rep.harness_error("Int.__init__ can no longer be translated: %s" % e)
        iobs = []
    for o in iobs:
        agg["obligations"] += 1
        if o["result"] == "unsat":
            agg["discharged"] += 1
        elif o["result"] == "sat":
            w = o["witness"]
            agg["replayed"] += 1
            r = replay_int(w)
            bad = (r != "rejected") if not (0 <= w < 1 << 64) else (r is not None)
            if bad:
                rep.violation({"kind": "int", "obligation": o["obligation"], "n": w, "observed": r}, ["int"])
            else:
                agg["unconfirmed"] += 1
        else:
            agg["inconclusive"] += 1
    for v in (0, 1, 127, 128, 255, 256, (1 << 32) - 1, 1 << 32, (1 << 63), (1 << 64) - 1):
        agg["replayed"] += 1
        r = replay_int(v)
        if r is not None:
            rep.violation({"kind": "int", "n": v, "observed": r}, ["int"])
    for v in (-1, 1 << 64, (1 << 64) + 1, -(1 << 63)):
        agg["replayed"] += 1
        if replay_int(v) != "rejected":
            rep.violation({"kind": "int", "n": v, "observed": "accepted"}, ["int"])
    samples += iobs[:1]
    # (4)
    for a in address_members(tmo):
        agg["replayed"] += 1
        why = replay_address(a)
        if why:
            rep.violation({"kind": "address", "address": a, "why": why}, ["address-checksum-not-validated"])
    for txt in method_text_witnesses(tmo):
        agg["replayed"] += 1
        why = replay_method_text(txt)
        if why:
            rep.violation({"kind": "method-signature", "text": txt, "why": why}, ["method-signature-text-unescaped"])
    cov = {"explanation": "escapeStr interpreted from its AST over symbolic strings (class combinations enumerated, code points symbolic within a class) and read back by the "
                          "literal grammar lifted to terms (z3 bit-vectors, bounded: N code points); base16/32/64 validators proved language-equivalent to RFC 4648 grammars "
                          "(z3 regex, unbounded length); Int guard translated to z3 Int; solver-chosen members / witnesses replayed through the real constructors, compileTeal "
                          "and the independent front-end",
           "evaluations": agg["obligations"] + agg["replayed"], "distinct_nontrivial": agg["obligations"],
           "rule": "one obligation per class combination / regex inclusion / guard direction; each is a distinct solver query",
           "obligations": agg["obligations"], "discharged": agg["discharged"], "inconclusive": agg["inconclusive"], "samples": samples or [{"none": True}],
           "states": agg["obligations"], "transitions": agg["obligations"], "traces_validated_against_impl": agg["replayed"], "unconfirmed_models": agg["unconfirmed"],
           "programs": agg["replayed"], "disagreements_checked": agg["replayed"],
           "bounds": {"string length": 2 if t == "quick" else 3, "code points": "all scalar values, 11 classes", "regex equivalence": "unbounded"},
           "solver_time_s": round(solver_time, 2), "known_findings_hit": dict(rep.known_hits),
           "functions_encoded": ["pyteal/util.py:escapeStr", "pyteal/util.py:unescapeStr (composed with escapeStr; shape of pyteal/compiler/constants.py:extractBytesValue checked)", "pyteal/types.py:valid_base16/valid_base32/valid_base64 (re literals)", "pyteal/ast/bytes.py:Bytes.__init__ (base branches)", "pyteal/ast/int.py:Int.__init__",
                                 "pyteal/types.py:valid_address and pyteal/ast/methodsig.py (members replayed)"]}
    write_evidence(PROP, "other", cov, ["the string literal is the last token of its line (plain TEAL, no source-map annotation)",
                                        "the tokenizer/literal grammar of verif/teal/parse.py models the assembler's",
                                        "CPython's codecs behave as documented (utf-8, latin-1, unicode-escape for U+0000..U+00FF)"], rep.wall(), len(rep.violations))
    return rep.finish(inconclusive=agg["inconclusive"] + agg["unconfirmed"], obligations=max(1, agg["obligations"]), budget=0.05)


def replay_validator_witness(o):
    """is the witness really accepted by one side and not the other?"""
    import pyteal.types as PT
    import pyteal as pt
    fn = getattr(PT, o["validator"])
    w = re.sub(r"\\u\{([0-9a-fA-F]+)\}", lambda m: chr(int(m.group(1), 16)), o["witness"])
    try:
        fn(w)
        accepted = True
    except pt.TealInputError:
        accepted = False
    ref = {"valid_base16": r"([0-9a-fA-F]{2})*", "valid_base32": r"([A-Z2-7]{8})*([A-Z2-7]{2}(={6})?|[A-Z2-7]{4}(={4})?|[A-Z2-7]{5}(={3})?|[A-Z2-7]{7}(=)?)?",
           "valid_base64": r"([A-Za-z0-9+/]{4})*([A-Za-z0-9+/]{2}==|[A-Za-z0-9+/]{3}=)?"}[o["validator"]]
    inref = re.fullmatch(ref, w) is not None
    if accepted != inref:
        return "PyTeal %s %r, RFC 4648 %s it" % ("accepts" if accepted else "rejects", w, "contains" if inref else "does not contain")
    return None


def replay(record):
    k = record.get("kind")
    if k == "str-literal":
        got, err, teal = real_bytes_of_str(record["text"], assemble=bool(record.get("assemble")))
        print(err or got.hex(), "expected", record["expected"])
        return err is not None or got.hex() != record["expected"]
    if k == "based-literal":
        return replay_member(record["validator"], record["text"]) is not None
    if k == "int":
        r = replay_int(record["n"])
        return (r != "rejected") if not (0 <= record["n"] < 1 << 64) else (r is not None)
    if k == "address":
        return replay_address(record["address"]) is not None
    if k == "method-signature":
        return replay_method_text(record["text"]) is not None
    if k == "validator":
        return replay_validator_witness(record) is not None
    if k == "constructor":
        return replay_constructor_witness(record["base"], record["text"]) is not None
    return False


if __name__ == "__main__":
    sys.exit(main())
