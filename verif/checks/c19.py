"""C19 - ABI assignability implies identical encoding.

For every ordered pair (A, B) of a bounded universe of type shapes and every site where PyTeal
decides whether a value of type A may be used where B is expected (type_spec_is_assignable_to
itself, an ABI-typed subroutine parameter, B.set(value of A), storing / setting the result of an
ABIReturnSubroutine whose output is an A into a B, storing an element of an A[] into a B), acceptance yields one obligation:
z3 must show that no value v of A (all leaf values, the stated length vectors) has
enc_A(v) != enc_B(v read at B by position).  Models are replayed with algosdk.abi (encode at A,
decode at B, compare)."""
import itertools
import random
import sys
import time
from collections import Counter

import z3

from ..common import Report, from_json, run_jobs, seed, tier, to_json, write_evidence
from ..arc4 import gen_shapes as G, model as M, types as T

PROP = "C19"


def universe(t_, sd):
    U8, U16, U64, BOOL, BYTE, STR, DB, ADDR = G.U8, G.U16, G.U64, G.BOOL, G.BYTE, G.STR, G.DB, G.ADDR
    tup, ntup = G.tup, G.ntup
    base = list(G.LEAVES) + [("sbytes", 32), ("sbytes", 4), ("sarray", BYTE, 32), ("sarray", U8, 32), ("sarray", BYTE, 4), ("sarray", BOOL, 32),
                             ("sarray", U16, 32), ("sarray", U64, 32), ("sarray", tup(BYTE, BOOL), 32), ("sarray", U8, 4), ("sarray", U16, 4),
                             ("darray", BYTE), ("darray", U8), ("darray", U16), ("darray", BOOL), ("sarray", STR, 3), ("darray", STR), ("sarray", DB, 3),
                             ("darray", DB), ("darray", ("darray", BYTE)), ("sarray", ("darray", BYTE), 2), ("darray", ("sarray", BYTE, 2)),
                             ("sarray", U64, 3), ("darray", U64), ("sarray", ADDR, 2), ("darray", ADDR), ("sarray", ("sbytes", 32), 2),
                             tup(), tup(U8), tup(BYTE), tup(U8, STR), tup(BYTE, DB), tup(U8, STR, U8), tup(U64, U64), tup(U64, U64, U64), ntup(U64, U64), ntup(U8, STR),
                             ("ntuple", (U64, U64), ("a", "b")), ("ntuple", (U8, STR), ("x", "y")), tup(ADDR, STR), tup(("sbytes", 32), DB),
                             tup(tup(U8, STR), U8), tup(tup(BYTE, DB), BYTE), tup(tup(U8, STR, U8), U8), ("darray", tup(U64, U64)), ("darray", tup(U64, U64, U64)),
                             ("darray", ntup(U64, U64)), ("sarray", tup(U8, STR), 2), ("darray", tup(U8, STR)),
                             ("ref", "account"), ("ref", "asset"), ("ref", "application"),
                             ("txn", "txn"), ("txn", "pay"), ("txn", "keyreg"), ("txn", "acfg"), ("txn", "axfer"), ("txn", "afrz"), ("txn", "appl")]
    if t_ != "quick":
        base += G.curated()[::2]
        rng = random.Random(sd * 313 + 5)
        base += [G.random_shape(rng, 2) for _ in range(120)]
    return G._dedup(base)


def has_encoding(t):
    if t[0] == "txn":
        return False
    if t[0] in ("sarray", "darray"):
        return has_encoding(t[1])
    if t[0] in ("tuple", "ntuple"):
        return all(has_encoding(m) for m in t[1])
    return True


def accepted_at(site, a, b):
    """does PyTeal accept a value of type a where b is expected, at the given site?  -> True / False / None (site not applicable)"""
    import pyteal as pt
    sa, sb = T.to_spec(a), T.to_spec(b)
    if site == "relation":
        from pyteal.ast.abi.util import type_spec_is_assignable_to
        return bool(type_spec_is_assignable_to(sa, sb))
    if a[0] == "txn" or b[0] == "txn":
        return None
    if site == "subroutine":
        def f(x):
            return pt.Seq()
        f.__annotations__ = {"x": sb.annotation_type(), "return": pt.Expr}
        try:
            sub = pt.Subroutine(pt.TealType.none)(f)
            sub(sa.new_instance())
            return True
        except (pt.TealInputError, pt.TealTypeError):
            return False
    if site == "set":
        if a[0] == "ref" or b[0] == "ref" or b[0] in ("tuple", "ntuple"):
            return None     # Tuple.set(x) takes the MEMBERS as arguments; it is not an assignment of x to the tuple
        inst_b, inst_a = sb.new_instance(), sa.new_instance()
        try:
            inst_b.set(inst_a)
            return True
        except (pt.TealInputError, pt.TealTypeError, TypeError, AttributeError, ValueError):
            return False
    if site in ("returned", "returned-set"):
        # the value comes back from an ABIReturnSubroutine whose output has type A and is stored into / set on a B
        if a[0] == "ref" or b[0] == "ref" or (site == "returned-set" and b[0] in ("tuple", "ntuple")):
            return None
        def g(*, output):
            return pt.Seq()
        try:
            g.__annotations__ = {"output": sa.annotation_type(), "return": pt.Expr}
        except TypeError:
            return None     # PyTeal cannot spell the type as an annotation
        rv = pt.ABIReturnSubroutine(g)()
        inst_b = sb.new_instance()
        try:
            if site == "returned":
                rv.store_into(inst_b)
            else:
                inst_b.set(rv)
            return True
        except (pt.TealInputError, pt.TealTypeError, TypeError, AttributeError, ValueError):
            return False
    if site == "element":
        # the value is element 0 of an A[1] and is stored into a B
        if a[0] == "ref" or b[0] == "ref":
            return None
        arr = T.to_spec(("sarray", a, 1)).new_instance()
        try:
            arr[0].store_into(sb.new_instance())
            return True
        except (pt.TealInputError, pt.TealTypeError, TypeError, AttributeError, ValueError):
            return False
    raise ValueError(site)


SITES = ("relation", "subroutine", "set", "returned", "returned-set", "element")


def pair_job(job):
    from ..arc4.abijob import tt
    a, b = tt(job["a"]), tt(job["b"])
    out = {"id": job["id"], "accepted": {}, "obligations": 0, "discharged": 0, "inconclusive": 0, "violations": [], "solver_time": 0.0,
           "replayed": 0, "no_encoding": 0}
    sites = []
    for site in SITES:
        try:
            r = accepted_at(site, a, b)
        except Exception as e:  # noqa
            out.setdefault("site_errors", []).append("%s: %s: %s" % (site, type(e).__name__, str(e)[:100]))
            r = None
        finally:
            from ..recipe.build import reset_pyteal_state
            reset_pyteal_state()
        out["accepted"][site] = r
        if r:
            sites.append(site)
    if not sites:
        return out
    if not (has_encoding(a) and has_encoding(b)):
        out["no_encoding"] = 1
        return out
    for lv in job["lens"]:
        out["obligations"] += 1
        leaves = []
        v = M.fresh_value(a, "v", M.LenPlan(lv), leaves)
        ea = M.enc(a, v)
        try:
            eb = M.enc(b, v)
            structural = None
        except (AssertionError, IndexError, TypeError, ValueError, AttributeError, KeyError, z3.Z3Exception) as e:
            eb, structural = None, "the value of A cannot be read at B by position (%s)" % type(e).__name__
        model = None
        if structural is None:
            if len(ea) != len(eb):
                structural = "encodings have different lengths (%d vs %d)" % (len(ea), len(eb))
            else:
                diffs = []
                for x, y in zip(ea, eb):
                    if isinstance(x, int) and isinstance(y, int):
                        if x != y:
                            structural = "encodings differ in a constant byte"
                            break
                    elif not (not isinstance(x, int) and not isinstance(y, int) and z3.eq(x, y)):
                        diffs.append((x if not isinstance(x, int) else z3.BitVecVal(x, 8)) != (y if not isinstance(y, int) else z3.BitVecVal(y, 8)))
                if structural is None:
                    if not diffs:
                        out["discharged"] += 1
                        continue
                    s = z3.Solver()
                    s.set("timeout", 20000)
                    s.add(z3.Or(*diffs))
                    t0 = time.time()
                    r = str(s.check())
                    out["solver_time"] += time.time() - t0
                    if r == "unsat":
                        out["discharged"] += 1
                        continue
                    if r != "sat":
                        out["inconclusive"] += 1
                        continue
                    model = s.model()
        # candidate: replay with algosdk
        if model is None:
            s = z3.Solver()
            s.check()
            model = s.model()
        cv = M.eval_value(v, model)
        out["replayed"] += 1
        bad, how = replay_pair(a, b, cv)
        if bad:
            out["violations"].append({"kind": "assignable-but-different-encoding", "a": T.T_str(a), "b": T.T_str(b), "sites": sites, "lens": lv,
                                      "value": to_json(cv), "why": structural or "solver model", "replay": how, "job": job})
            break
        out["discharged"] += 0
        out["inconclusive"] += 1
    return out


def replay_pair(a, b, cv):
    """encode at A with algosdk, decode at B, re-encode: any failure or difference confirms"""
    try:
        ea = M.sdk_encode(a, cv)
    except Exception as e:  # noqa
        return False, "cannot encode at A: %s" % e
    try:
        vb = M.sdk_type(b).decode(ea)
        eb = M.sdk_type(b).encode(vb)
    except Exception as e:  # noqa
        return True, "bytes of A do not decode at B: %s: %s" % (type(e).__name__, str(e)[:100])
    if eb != ea:
        return True, "re-encoding at B differs: %s vs %s" % (ea.hex()[:60], eb.hex()[:60])
    va = M.sdk_type(a).decode(ea)
    if _norm(va) != _norm(vb):
        return True, "decoded values differ"
    return False, "same"


def _norm(x):
    if isinstance(x, (list, tuple)):
        return [_norm(y) for y in x]
    if isinstance(x, (bytes, bytearray)):
        return list(x)
    return x


def main():
    t, sd = tier(), seed()
    rep = Report(PROP)
    uni = universe(t, sd)
    jobs = []
    for a, b in itertools.product(uni, repeat=2):
        lens = [[2], [1, 2, 0, 2]] if t == "quick" else [[0], [1], [2], [3], [2, 1, 0, 2, 1], [1, 3, 2]]
        jobs.append({"id": "%s -> %s" % (T.T_str(a), T.T_str(b)), "a": to_json(a), "b": to_json(b), "lens": lens})
    results = run_jobs("verif.checks.c19:pair_job", jobs, chunksize=32)
    agg = Counter()
    acc = Counter()
    samples = []
    st = 0.0
    for r in results:
        if "harness_error" in r:
            rep.harness_error("%s: %s" % (r.get("_job"), r["harness_error"]))
            continue
        if r.get("timed_out"):
            agg["inconclusive"] += 1
            continue
        for k in ("obligations", "discharged", "inconclusive", "replayed", "no_encoding"):
            agg[k] += r.get(k, 0)
        st += r.get("solver_time", 0)
        for site, v in r["accepted"].items():
            if v:
                acc[site] += 1
        if any(r["accepted"].values()) and len(samples) < 6 and r["obligations"]:
            samples.append({"pair": r["id"], "accepted_at": r["accepted"], "obligations": r["obligations"], "discharged": r["discharged"]})
        for v in r["violations"]:
            rep.violation(v, [])
        for e in r.get("site_errors", [])[:1]:
            agg["site_errors"] += 1
    cov = {"states": len(jobs), "transitions": agg["obligations"], "traces_validated_against_impl": agg["replayed"], "samples": samples or [{"pair": "none"}],
           "evaluations": len(jobs), "distinct_nontrivial": sum(acc.values()),
           "rule": "all ordered pairs of the type universe (%d types); non-trivial = accepted at some site" % len(uni),
           "obligations": agg["obligations"], "discharged": agg["discharged"], "inconclusive": agg["inconclusive"],
           "accepted_pairs_per_site": dict(acc), "accepted_pairs_without_encoding (transaction types)": agg["no_encoding"],
           "site_errors": agg["site_errors"], "solver_time_s": round(st, 2), "universe": [T.T_str(x) for x in uni][:120], "exhaustive": True,
           "functions_encoded": "pyteal/ast/abi/util.py:type_spec_is_assignable_to and the call sites SubroutineDefinition.invoke / BaseType.set / ReturnedValue.store_into / "
                                "set(ReturnedValue) / array element store_into (run concretely per pair); "
                                "encodings by verif/arc4/model.py, equality decided by z3 for all leaf values"}
    write_evidence(PROP, "model_checking", cov, ["the converse (same encoding => assignable) is not demanded", "values are read at B by position",
                                                 "dynamic lengths take the listed vectors only"], rep.wall(), len(rep.violations))
    return rep.finish(inconclusive=agg["inconclusive"], obligations=max(1, agg["obligations"]))


def replay(record):
    r = pair_job(dict(record["job"]))
    print([(v["why"], v["replay"]) for v in r["violations"]])
    return bool(r["violations"])


if __name__ == "__main__":
    sys.exit(main())
