"""C14 - inner method calls are marshalled per ARC-4.

InnerTxnBuilder.ExecuteMethodCall is compiled for enumerated signatures and argument forms (ABI
values built with set(...) from symbolic outer arguments, already-encoded byte expressions,
reference arguments, transaction argument dictionaries, ill-typed arguments); SymAVM records the
submitted inner group and z3 proves it equal, for all argument values, to the group the ARC-4
client model prescribes."""
import random
import sys

from ..common import Report, run_jobs, seed, tier, to_json
from ..arc4 import gen_shapes as G
from .c01 import summarize

PROP = "C14"
U64, U8, STR, BOOL, DB, ADDR = G.U64, G.U8, G.STR, G.BOOL, G.DB, G.ADDR


def A(t):
    return {"kind": "abi", "t": to_json(t)}


def R(t, n=3):
    return {"kind": "raw", "t": to_json(t), "len": n}


def RF(k):
    return {"kind": "ref", "t": k}


def TX(k, given=None):
    d = {"kind": "txn", "t": k}
    if given:
        d["given"] = given
    return d


def W(t, given):
    return {"kind": "wrong", "t": to_json(t), "given": to_json(given)}


def calls(t, sd):
    rng = random.Random(sd * 733 + 9)
    out = []

    def add(name, args, **kw):
        d = {"name": name, "args": args}
        d.update(kw)
        out.append(d)

    add("noargs", [])
    add("noargs_noextra", [], extra=False)
    # method names outside ASCII: the selector is the hash of the UTF-8 signature text
    add("gr\u00f6\u00dfe", [A(U64)])
    add("set_\u03c0", [R(STR, 3), RF("asset")])
    add("\u8ee2\u9001", [])
    types = [U64, U8, BOOL, STR, DB, ADDR, G.tup(U64, STR), ("sarray", G.U16, 2), ("darray", U8), G.tup(BOOL, BOOL, U8)]
    for i, ty in enumerate(types):
        add("abi%d" % i, [A(ty)])
        add("abi%d_second" % i, [R(U64, 8), A(ty)])
    add("raw3", [R(STR, 5), R(U64, 8), R(BOOL, 1)])
    for n in (2, 14, 15, 16, 17):
        add("n%d_raw" % n, [R(U64, 8) for _ in range(n)])
        mix = [A(U64) if (i % 14) % 2 else R(U64, 8) for i in range(n)]
        add("n%d_mix" % n, mix)
        if n >= 15:
            m2 = [R(U64, 8) for _ in range(n)]
            m2[n - 1] = A(STR)
            m2[(n - 1) % 14] = A(STR)
            add("n%d_lastdyn" % n, m2)
    # reference arguments: one of each kind, several of one kind, mixed with plain ones
    for k in ("account", "asset", "application"):
        add("ref_%s" % k, [RF(k)])
        add("ref_%s_x2" % k, [RF(k), A(U64), RF(k)])
        add("ref_%s_x3" % k, [RF(k), RF(k), RF(k)])
    # one expression object passed for two reference parameters of the same kind: two entries in the foreign array
    for k in ("account", "asset", "application"):
        add("ref_%s_sameobj" % k, [RF(k), A(U64), dict(RF(k), same=0)])
    add("refs_sameobj_mixed", [RF("asset"), RF("account"), dict(RF("asset"), same=0), dict(RF("account"), same=1), A(U64)])
    add("refs_mixed", [RF("account"), RF("asset"), A(STR), RF("application"), RF("account"), RF("asset"), RF("application")])
    # transaction arguments
    for k in ("pay", "axfer", "keyreg", "acfg", "afrz", "appl"):
        add("tx_%s" % k, [TX(k)])
    add("tx_generic", [TX("txn", "axfer")])
    add("tx_two", [TX("pay"), A(U64), TX("axfer"), RF("account")])
    add("tx_three_first", [TX("pay"), TX("pay"), TX("appl"), R(STR, 4)])
    # ill-typed arguments must be rejected when built
    add("wrong_uint", [W(U64, U8)])
    add("wrong_str", [W(STR, U64)])
    add("wrong_tuple_longer", [W(G.tup(U64, STR), G.tup(U64, STR, U64))])
    add("wrong_tuple_shorter", [W(G.tup(U64, STR, U64), G.tup(U64, STR))])
    add("wrong_nested_longer", [W(("darray", G.tup(U64, U64)), ("darray", G.tup(U64, U64, U64)))])
    add("wrong_static_dynamic", [W(("darray", STR), ("sarray", STR, 2))])
    add("wrong_dbytes_to_string", [W(STR, DB)])
    add("wrong_txn_type", [TX("pay", "axfer")])
    add("wrong_second", [A(U64), W(BOOL, U8)])
    # widths PyTeal has no type for: nothing PyTeal can build fits them
    for bits, given in ((24, G.U32), (40, U64), (48, U64), (56, U64), (24, U64), (128, U64)):
        add("wrong_uint%d_from_%d" % (bits, given[1]), [W(("uint", bits), given)])
    if t != "quick":
        for j in range(400):
            n = rng.choice([1, 2, 3, 4, 6])
            args = []
            for _ in range(n):
                r = rng.random()
                if r < 0.2:
                    args.append(RF(rng.choice(["account", "asset", "application"])))
                elif r < 0.35:
                    args.append(TX(rng.choice(["pay", "axfer", "appl"])))
                elif r < 0.7:
                    args.append(A(rng.choice(types)))
                else:
                    args.append(R(rng.choice(types), rng.choice([1, 3, 8])))
            add("rnd%d" % j, args)
    return out


def build_jobs(t, sd):
    jobs = []
    for ci, c in enumerate(calls(t, sd)):
        for v in ([6, 7, 8, 9, 10] if t != "quick" else [6, 8, 10]):
            if t == "quick" and v == 10 and ci % 3:
                continue
            jobs.append({"id": "%s@v%d" % (c["name"], v), "family": "inner:" + c["name"].split("_")[0].rstrip("0123456789"), "call": c, "version": v})
            if t != "quick" or v == 8 or c["name"].startswith("tx_"):
                # the same call with assembled constants (the transaction-type and on-completion enums then travel as numbers)
                jobs.append(dict(jobs[-1], id=jobs[-1]["id"] + "/asm", assemble=True))
    for j in jobs[:: max(1, len(jobs) // 5)]:
        j["want_sample"] = True
        j["keep_teal"] = True
    return jobs


def main():
    t, sd = tier(), seed()
    rep = Report(PROP)
    jobs = build_jobs(t, sd)
    results = run_jobs("verif.innercall:inner_job", jobs, chunksize=2)
    return summarize(rep, jobs, results, PROP, "model_checking",
                     "inner method calls: 0..17 arguments around the 15-argument cut-off, plain arguments as ABI values of several types or as encoded byte "
                     "expressions, reference arguments (one, several of one kind, mixed), transaction arguments of every kind and position, ill-typed arguments",
                     extra_cov={"functions_encoded": "emitted TEAL of InnerTxnBuilder.ExecuteMethodCall programs (pyteal/ast/itxn.py MethodCall) under SymAVM; oracle = ARC-4 client model (verif/innercall.py)"},
                     features_fn=lambda v: v.get("features", []))


def replay(record):
    from ..innercall import inner_job
    r = inner_job(dict(record["job"]))
    print([(v["kind"], v.get("teal_outcome"), v.get("reference_outcome")) for v in r["violations"]][:2])
    return bool(r["violations"])


if __name__ == "__main__":
    sys.exit(main())
