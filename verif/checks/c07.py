"""C07 - ABI decoding and element access return the encoded components.

Input = the reference encoding of a symbolic value of the type (offsets and length prefixes are
the concrete numbers the ARC-4 model writes, payload symbolic); program = decode() then one access
path (tuple member, named field, array element at a constant / out-of-range / run-time index,
nested one level) and an observation (encode(), get(), length()).  z3 proves the logged bytes equal
the component's own reference encoding for every value and every in-range run-time index, and that
every out-of-range index (all 2^64 values on one symbolic path) makes the program fail."""
import sys

from ..common import Report, run_jobs, seed, tier, to_json
from ..arc4 import gen_shapes as G, types as T
from .c01 import summarize

PROP = "C07"


def build_jobs(t_, sd):
    thorough = t_ != "quick"
    jobs = []
    versions = [5, 6, 8, 10] if thorough else [6, 8]
    shapes = G.shapes(t_, sd)
    for si, t in enumerate(shapes):
        for li, lv in enumerate(G.len_vectors(t, t_, sd)):
            if G.size_of(t, lv) > (90 if thorough else 50):
                continue
            paths = G.access_paths(t, lv, t_)
            from ..arc4 import model as M
            enc_len = len(M.enc(t, M.fresh_value(t, "p", M.LenPlan(lv), [])))
            for pi, (path, ob) in enumerate(paths):
                rt = any(s[0] == "rt" for s in path)
                if rt and T.is_dynamic(t) and enc_len > (120 if thorough else 60):
                    continue     # run-time index into a long encoding of dynamic elements: minutes per job (stated bound)
                for vi, v in enumerate(versions):
                    if not thorough and (pi + vi + li) % 2:
                        continue
                    be = "main" if (v < 8 or (pi + si) % 3 == 0) else "sub"
                    jobs.append({"cost": enc_len * (5 if rt else 1), "id": "acc:%s:%s:%s:%s@v%d/%s" % (T.T_str(t), lv, path, ob, v, be), "family": "access:" + ob,
                                 "type": to_json(t), "lens": lv, "path": to_json(path), "observe": ob, "version": v, "backend": be})
    jobs.sort(key=lambda j: -j["cost"])      # longest first: keeps the pool busy to the end
    for j in jobs[:: max(1, len(jobs) // 5)]:
        j["want_sample"] = True
        j["keep_teal"] = True
    return jobs


def main():
    t, sd = tier(), seed()
    rep = Report(PROP)
    jobs = build_jobs(t, sd)
    results = run_jobs("verif.arc4.abijob:access_job", jobs, chunksize=8)
    return summarize(rep, jobs, results, PROP, "model_checking",
                     "type shapes x length vectors x access paths (every tuple member / named field; arrays at constant in-range indices, at the first "
                     "out-of-range index and at a run-time index; one nested step) x observations (encode, get, length) x versions x storage back-ends",
                     extra_cov={"functions_encoded": "emitted TEAL of decode/access programs (pyteal/ast/abi/{tuple,array_base,array_static,array_dynamic,bool,uint,string,address}.py) "
                                                     "under SymAVM; oracle verif/arc4/model.py (validated against algosdk.abi)"},
                     features_fn=lambda v: v.get("features", []))


def replay(record):
    from ..arc4.abijob import access_job
    r = access_job(dict(record["job"]))
    print([(v.get("teal_outcome"), v.get("reference_outcome")) for v in r["violations"]][:2])
    return bool(r["violations"])


if __name__ == "__main__":
    sys.exit(main())
