"""C09 - routed methods receive ARC-4 arguments and log ARC-4 results.

Method signatures (0..17+ plain parameters around the tuple cut-off, every leaf and several
composite types as a parameter, transaction parameters of every kind in every position, reference
parameters, void / echoing / constant results, overridden names) are registered on a Router built
through the public API; the call is constructed by the ARC-4 model with SYMBOLIC argument values;
SymAVM runs the approval program and z3 shows that the handler's ordered logs (what it received,
then 0x151f7c75 + the result's encoding) equal the model's for all argument values and preceding
transaction types; the contract must describe exactly the registered signature and the program
must dispatch on its selector."""
import itertools
import random
import sys

from ..common import Report, run_jobs, seed, tier, to_json
from ..arc4 import gen_shapes as G
from .c01 import summarize

PROP = "C09"
U64, U8, STR, BOOL, ADDR, DB = G.U64, G.U8, G.STR, G.BOOL, G.ADDR, G.DB


def P(t):
    return {"kind": "plain", "t": to_json(t)}


def TX(k):
    return {"kind": "txn", "t": k}


def RF(k):
    return {"kind": "ref", "t": k}


def signatures(t, sd):
    rng = random.Random(sd * 911 + 1)
    out = []

    def add(name, params, ret=None, echo=None, **kw):
        d = {"name": name, "params": params, "ret": to_json(ret) if ret is not None else None, "echo": echo}
        d.update(kw)
        out.append(d)

    add("noargs", [])
    add("noargs_ret", [], U64)
    # every type as a single echoed parameter
    types = list(G.LEAVES) + [G.tup(U8, STR), ("darray", STR), ("sarray", BOOL, 9), ("sarray", G.U16, 2), G.tup(BOOL, BOOL, BOOL, STR, BOOL), ("darray", U64),
                              G.tup(STR, STR), ("darray", G.tup(U8, STR)), G.ntup(U64, STR), G.tup(ADDR, DB), ("sarray", U8, 0) if False else ("sarray", U8, 3)]
    for i, ty in enumerate(types):
        add("echo%d" % i, [P(ty)], ty, 0)
        add("two%d" % i, [P(U8), P(ty)], ty, 1)
    # the tuple cut-off: n plain parameters, last ones of mixed static / dynamic types
    for n in (13, 14, 15, 16, 17, 18, 20):
        base = [P(U64 if i % 3 else U8) for i in range(n)]
        add("n%d_static" % n, list(base))
        b2 = list(base)
        b2[n - 1] = P(STR)
        add("n%d_lastdyn" % n, b2, STR, n - 1)
        if n >= 15:
            b3 = list(base)
            b3[14] = P(STR)
            add("n%d_15thdyn" % n, b3, STR, 14)
            b4 = list(base)
            b4[13] = P(STR)
            b4[n - 1] = P(BOOL)
            add("n%d_14thdyn_lastbool" % n, b4, U64, 1)
    # transaction parameters: each kind, 1..3, every position among two plain parameters
    kinds = ["txn", "pay", "keyreg", "acfg", "axfer", "afrz", "appl"]
    for k in kinds:
        add("tx_%s" % k, [TX(k)])
        add("tx_%s_mid" % k, [P(U64), TX(k), P(STR)], STR, 2)
    for pos in itertools.permutations(range(4), 2):
        ps = [P(U64), P(STR), None, None]
        lay = [None] * 4
        lay[pos[0]], lay[pos[1]] = TX("pay"), TX("axfer")
        rest = [P(U64), P(STR)]
        params = [x if x is not None else rest.pop(0) for x in lay]
        add("tx2_%d%d" % pos, params)
    add("tx3", [TX("pay"), TX("txn"), TX("appl"), P(U64)], U64, 3)
    # more than 15 parameters in total but at most 15 application arguments
    for nplain, ntx in ((15, 1), (14, 2), (13, 3), (15, 2), (16, 1)):
        ps = [P(U64) for _ in range(nplain)]
        ps[nplain - 1] = P(STR)
        if nplain >= 15:
            ps[14] = P(STR)
        params = ps + [TX("pay")] * ntx
        add("mix_%dp_%dt_txlast" % (nplain, ntx), params, STR, nplain - 1)
        add("mix_%dp_%dt_txfirst" % (nplain, ntx), [TX("pay")] * ntx + ps, STR, ntx + nplain - 1)
    # reference parameters
    for k in ("account", "asset", "application"):
        add("ref_%s" % k, [RF(k)])
        add("ref_%s_mid" % k, [P(STR), RF(k), P(U64)], U64, 2)
    add("refs_all", [RF("account"), RF("asset"), RF("application"), P(U8)], U8, 3)
    add("refs_16", [P(U64)] * 14 + [RF("account"), P(STR)], STR, 15)
    # constant results of composite types
    for i, ty in enumerate([BOOL, U8, STR, G.tup(U64, STR), ("sarray", U8, 2), ("darray", BOOL), ADDR]):
        add("const%d" % i, [P(U8)], ty, None)
    # several methods on one router: the method under test before / between / after siblings with other signatures
    sibs = [{"name": "sib_a", "params": [P(U64)], "ret": to_json(U64), "echo": 0}, {"name": "sib_b", "params": [P(STR), TX("pay")], "ret": None, "echo": None},
            {"name": "sib_c", "params": [], "ret": to_json(STR), "echo": None}]
    for pos in (0, 1, 3):
        add("multi_pos%d" % pos, [P(U8), P(STR), RF("asset")], STR, 1, siblings=sibs, position=pos)
        add("multi_tx_pos%d" % pos, [TX("axfer"), P(U64)], U64, 1, siblings=sibs[:2], position=min(pos, 2))
    # parameter names that are fragments of "return" / "output" (the contract must still list every parameter)
    add("pn_frag", [P(U64), P(U8), P(STR)], STR, 2, pnames={"0": "r", "1": "turn", "2": "n"})
    add("pn_frag2", [P(U8), TX("pay"), P(U64)], U64, 2, pnames={"0": "ret", "1": "e", "2": "u"})
    add("pn_outputish", [RF("account"), P(U64)], None, None, pnames={"0": "out", "1": "put"})
    add("pn_keywordish", [P(BOOL), P(U64)], U64, 1, pnames={"0": "return_", "1": "output_"})
    # overridden names
    add("impl_fn", [P(U64)], U64, 0, registered_name="public_name")
    add("impl_void", [P(STR)], None, None, registered_name="other")
    if t != "quick":
        for j in range(250):
            n = rng.choice([1, 2, 3, 5, 14, 15, 16, 17])
            params = []
            for i in range(n):
                r = rng.random()
                if r < 0.15:
                    params.append(TX(rng.choice(kinds)))
                elif r < 0.25:
                    params.append(RF(rng.choice(["account", "asset", "application"])))
                else:
                    params.append(P(rng.choice([U64, U8, STR, BOOL, G.tup(U8, STR), ("darray", U8), ADDR])))
            plain_idx = [i for i, p in enumerate(params) if p["kind"] == "plain"]
            if plain_idx and rng.random() < 0.6:
                e = rng.choice(plain_idx)
                add("rnd%d" % j, params, tuple(_t(params[e]["t"])), e)
            else:
                add("rnd%d" % j, params)
    return out


def _t(x):
    from ..arc4.abijob import tt
    return tt(x)


def build_jobs(t, sd):
    jobs = []
    sigs = signatures(t, sd)
    versions = [6, 7, 8, 9, 10] if t != "quick" else [6, 8]
    for si, s in enumerate(sigs):
        for v in versions:
            opts = [None] + ([{"frame_pointers": False}] if v >= 8 and (t != "quick" or si % 5 == 0) else [])
            for opt in opts:
                for lv in ([[2], [0], [1, 2, 0]] if t != "quick" else [[2]]):
                    jobs.append({"id": "%s:%s@v%d%s" % (s["name"], lv, v, "" if opt is None else "/nofp"), "family": "method:" + s["name"].split("_")[0].rstrip("0123456789"),
                                 "sig": s, "version": v, "optimize": opt, "lens": lv, "cost": len(s["params"])})
            # the same call with assembled constants (named transaction-type constants, selectors from the constant block)
            if any(p["kind"] == "txn" for p in s["params"]) or si % 7 == 0 or t != "quick":
                jobs.append({"id": "%s:[2]@v%d/asm" % (s["name"], v), "family": "method-asm", "sig": s, "version": v, "optimize": None, "lens": [2],
                             "assemble": True, "cost": len(s["params"])})
    jobs.sort(key=lambda j: -j["cost"])
    for j in jobs[:: max(1, len(jobs) // 5)]:
        j["want_sample"] = True
        j["keep_teal"] = True
    return jobs


def main():
    t, sd = tier(), seed()
    rep = Report(PROP)
    jobs = build_jobs(t, sd)
    results = run_jobs("verif.methodcall:method_job", jobs, chunksize=2)
    return summarize(rep, jobs, results, PROP, "model_checking",
                     "method signatures: 0..20 plain parameters around the 15-argument cut-off (static / dynamic 14th, 15th and last), every leaf and several composite "
                     "types as a parameter, transaction parameters of every kind in every position, more than 15 parameters with at most 15 application arguments, "
                     "reference parameters, void / echoed / constant results, overridden names; versions 6..10, frame pointers on/off",
                     extra_cov={"functions_encoded": "emitted approval program of pyteal.Router with one method (pyteal/ast/router.py ASTBuilder, pyteal/ast/subroutine.py) under SymAVM; "
                                                     "oracle = ARC-4 calling convention on verif/arc4/model.py (verif/methodcall.py)"},
                     features_fn=lambda v: v.get("features", []))


def replay(record):
    from ..methodcall import method_job
    r = method_job(dict(record["job"]))
    print([(v["kind"], v.get("detail"), v.get("teal_outcome"), v.get("reference_outcome")) for v in r["violations"]][:2])
    return bool(r["violations"])


if __name__ == "__main__":
    sys.exit(main())
