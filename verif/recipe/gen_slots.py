"""Marker programs (C10): n variables each stored a distinct marker derived from a symbolic input,
all loaded back and logged; automatic, explicitly numbered (incl. colliding ids), dynamically
indexed variables; spread over main and subroutines (local vs shared)."""
from typing import Any, Dict, List, Tuple

from .gen import Env, prog


def marker(e: Env, k: int):
    # xor never fails and is injective in k, so two different variables always hold different markers
    return ("Bin", "BitwiseXor", ("Txn", "Fee"), ("Int", k))


def slot_program(mode: str, version: int, n_auto: int, explicit: List[int], placement: str, dyn: bool = False):
    """-> (recipe, needed distinct slots, has duplicate explicit ids)"""
    e = Env(mode, version)
    V: Dict[str, Dict] = {}
    autos = ["a%d" % i for i in range(n_auto)]
    for a in autos:
        V[a] = {"t": "u"}
    exps = []
    for j, sid in enumerate(explicit):
        name = "e%d" % j
        V[name] = {"t": "u", "slot": sid}
        exps.append(name)
    in_sub = []
    if placement == "split" and n_auto >= 2:
        in_sub = autos[n_auto // 2:]
    in_main = [a for a in autos if a not in in_sub]
    st: List[Any] = []
    for i, a in enumerate(in_main):
        st.append(("Store", a, marker(e, i)))
    for j, x in enumerate(exps):
        st.append(("Store", x, marker(e, 1000 + j)))
    subs = {}
    if placement in ("split", "shared-explicit"):
        body: List[Any] = []
        for i, a in enumerate(in_sub):
            body.append(("Store", a, marker(e, 5000 + i)))
        loads = [("Un", "Itob", ("Load", a)) for a in in_sub]
        if placement in ("split", "shared-explicit") and exps:
            loads += [("Un", "Itob", ("Load", x)) for x in exps]       # explicit variables are shared with main
            body.append(("Store", exps[0], ("Bin", "BitwiseXor", ("Load", exps[0]), ("Int", 4096))))
        if loads:
            body.append(("Un", "Log", _concat(loads)))
        else:
            body.append(e.tag(1))
        subs["f"] = {"params": [], "ret": "n", "body": ("Seq",) + tuple(body)}
        st.append(("Call", "f"))
    if dyn and exps and version >= 5:
        V["d"] = {"t": "u", "dyn": True}
        st.append(("DynSet", "d", exps[-1]))
        st.append(("DynStore", "d", ("Bin", "BitwiseXor", ("DynLoad", "d"), ("Int", 8192))))
    # (a statement between the last store and the first load: the scratch-slot optimiser must not be able
    # to cancel a variable, otherwise the number of slots the program needs is not the number of variables)
    st.append(e.tag(77))
    loads = [("Un", "Itob", ("Load", a)) for a in in_main] + [("Un", "Itob", ("Load", x)) for x in exps]
    if exps:
        loads += [("Un", "Itob", ("SlotIndex", x)) for x in exps]
    if loads:
        # the log is limited to 1024 bytes per call: chunk the observations
        for c in range(0, len(loads), 100):
            st.append(("Un", "Log", _concat(loads[c:c + 100])))
    st.append(("Return", ("Int", 1)))
    needed = n_auto + len(set(explicit)) + (1 if (dyn and exps and version >= 5) else 0)
    dup = len(set(explicit)) != len(explicit)
    return prog(mode, ("Seq",) + tuple(st), V, subs), needed, dup


def _concat(items):
    if len(items) == 1:
        return items[0]
    return ("Nary", "Concat") + tuple(items)


def slot_family(mode: str, version: int, thorough: bool):
    out = []
    small = [1, 2, 3, 10]
    big = [127, 128, 129, 200, 250, 254, 255, 256, 257, 300]
    exp_small = [[], [0], [1], [0, 1], [5], [128], [254, 255], [255], [3, 3], [7, 9, 7], list(range(10)), [2, 4, 6, 8]]
    exp_big = [[], [0], [255], [5], [128, 129], [5, 5]]
    for n in small:
        for ex in exp_small:
            for pl in ("main", "split", "shared-explicit"):
                for dyn in (False, True):
                    if dyn and (not ex or pl != "main"):
                        continue
                    out.append(("slots:n%d:e%s:%s%s" % (n, "-".join(map(str, ex)) or "none", pl, ":dyn" if dyn else ""),) + slot_program(mode, version, n, ex, pl, dyn))
    for n in (big if thorough else [127, 128, 200, 254, 255, 256, 257, 300]):
        for ex in exp_big:
            for pl in ("main", "split") if (thorough or n in (128, 255, 256)) else ("main",):
                out.append(("slots:n%d:e%s:%s" % (n, "-".join(map(str, ex)) or "none", pl),) + slot_program(mode, version, n, ex, pl))
    # a shared explicit id below the number of automatic variables (the allocator must skip it)
    for n in (6, 12, 40):
        for ex in ([3], [0, 5], [11]):
            out.append(("slots:skip:n%d:e%s" % (n, "-".join(map(str, ex))),) + slot_program(mode, version, n, ex, "shared-explicit"))
    return out


def typed_slot_program(mode: str, version: int, n_auto: int, explicit: List[int], placement: str = "main"):
    """automatic uint64 variables next to explicitly numbered BYTES variables: were two of them to share a
    slot, a consumer would meet a value of the wrong type (C05), not just a wrong value"""
    e = Env(mode, version)
    V: Dict[str, Dict] = {}
    autos = ["a%d" % i for i in range(n_auto)]
    for a in autos:
        V[a] = {"t": "u"}
    exps = []
    for j, sid in enumerate(explicit):
        V["e%d" % j] = {"t": "b", "slot": sid}
        exps.append("e%d" % j)
    st: List[Any] = []
    half = autos[: n_auto // 2] if placement == "interleaved" else autos
    rest = [a for a in autos if a not in half]
    for i, a in enumerate(half):
        st.append(("Store", a, marker(e, i)))
    for j, x in enumerate(exps):
        st.append(("Store", x, ("Un", "Itob", marker(e, 1000 + j))))
    for i, a in enumerate(rest):
        st.append(("Store", a, marker(e, 500 + i)))
    st.append(e.tag(77))
    for a in autos:
        st.append(("Un", "Pop", ("Bin", "Add", ("Load", a), ("Int", 1))))
    for x in exps:
        st.append(("Un", "Pop", ("Un", "Len", ("Load", x))))
    st.append(("Return", ("Int", 1)))
    return prog(mode, ("Seq",) + tuple(st), V, {})


def typed_slot_family(mode: str, version: int):
    out = []
    for n, ex in ((3, [1, 2]), (4, [3]), (6, [2, 3, 4]), (3, [0, 1]), (5, [1, 3]), (4, [0, 2, 3]), (2, [1]), (7, [5, 6]), (9, [8]), (12, [10])):
        for pl in ("main", "interleaved"):
            out.append(("slots-typed:n%d:e%s:%s" % (n, "-".join(map(str, ex)), pl), typed_slot_program(mode, version, n, ex, pl), {}))
    return out
