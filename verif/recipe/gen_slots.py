"""Marker programs (C10): n variables each stored a distinct marker derived from a symbolic input,
all loaded back and logged; automatic, explicitly numbered (incl. colliding ids), dynamically
indexed variables; spread over main and subroutines (local vs shared)."""
from typing import Any, Dict, List, Tuple

from .gen import Env, prog


def marker(e: Env, k: int):
    # xor never fails and is injective in k, so two different variables always hold different markers
    return ("Bin", "BitwiseXor", ("Txn", "Fee"), ("Int", k))


def slot_program(mode: str, version: int, n_auto: int, explicit: List[int], placement: str, dyn: bool = False):
    """-> (recipe, needed distinct slots, has duplicate explicit ids)"""
    e = Env(mode, version)
    V: Dict[str, Dict] = {}
    autos = ["a%d" % i for i in range(n_auto)]
    for a in autos:
        V[a] = {"t": "u"}
    exps = []
    for j, sid in enumerate(explicit):
        name = "e%d" % j
        V[name] = {"t": "u", "slot": sid}
        exps.append(name)
    in_sub = []
    if placement == "split" and n_auto >= 2:
        in_sub = autos[n_auto // 2:]
    in_main = [a for a in autos if a not in in_sub]
    st: List[Any] = []
    for i, a in enumerate(in_main):
        st.append(("Store", a, marker(e, i)))
    for j, x in enumerate(exps):
        st.append(("Store", x, marker(e, 1000 + j)))
    subs = {}
    if placement in ("split", "shared-explicit"):
        body: List[Any] = []
        for i, a in enumerate(in_sub):
            body.append(("Store", a, marker(e, 5000 + i)))
        loads = [("Un", "Itob", ("Load", a)) for a in in_sub]
        if placement in ("split", "shared-explicit") and exps:
            loads += [("Un", "Itob", ("Load", x)) for x in exps]       # explicit variables are shared with main
            body.append(("Store", exps[0], ("Bin", "BitwiseXor", ("Load", exps[0]), ("Int", 4096))))
        if loads:
            body.append(("Un", "Log", _concat(loads)))
        else:
            body.append(e.tag(1))
        subs["f"] = {"params": [], "ret": "n", "body": ("Seq",) + tuple(body)}
        st.append(("Call", "f"))
    if dyn and exps and version >= 5:
        V["d"] = {"t": "u", "dyn": True}
        st.append(("DynSet", "d", exps[-1]))
        st.append(("DynStore", "d", ("Bin", "BitwiseXor", ("DynLoad", "d"), ("Int", 8192))))
    # (a statement between the last store and the first load: the scratch-slot optimiser must not be able
    # to cancel a variable, otherwise the number of slots the program needs is not the number of variables)
    st.append(e.tag(77))
    loads = [("Un", "Itob", ("Load", a)) for a in in_main] + [("Un", "Itob", ("Load", x)) for x in exps]
    if exps:
        loads += [("Un", "Itob", ("SlotIndex", x)) for x in exps]
    if loads:
        # the log is limited to 1024 bytes per call: chunk the observations
        for c in range(0, len(loads), 100):
            st.append(("Un", "Log", _concat(loads[c:c + 100])))
    st.append(("Return", ("Int", 1)))
    needed = n_auto + len(set(explicit)) + (1 if (dyn and exps and version >= 5) else 0)
    dup = len(set(explicit)) != len(explicit)
    return prog(mode, ("Seq",) + tuple(st), V, subs), needed, dup


def _concat(items):
    if len(items) == 1:
        return items[0]
    return ("Nary", "Concat") + tuple(items)


def slot_family(mode: str, version: int, thorough: bool):
    out = []
    small = [1, 2, 3, 10]
    big = [127, 128, 129, 200, 250, 254, 255, 256, 257, 300]
    exp_small = [[], [0], [1], [0, 1], [5], [128], [254, 255], [255], [3, 3], [7, 9, 7], list(range(10)), [2, 4, 6, 8]]
    exp_big = [[], [0], [255], [5], [128, 129], [5, 5]]
    for n in small:
        for ex in exp_small:
            for pl in ("main", "split", "shared-explicit"):
                for dyn in (False, True):
                    if dyn and (not ex or pl != "main"):
                        continue
                    out.append(("slots:n%d:e%s:%s%s" % (n, "-".join(map(str, ex)) or "none", pl, ":dyn" if dyn else ""),) + slot_program(mode, version, n, ex, pl, dyn))
    for n in (big if thorough else [127, 128, 200, 254, 255, 256, 257, 300]):
        for ex in exp_big:
            for pl in ("main", "split") if (thorough or n in (128, 255, 256)) else ("main",):
                out.append(("slots:n%d:e%s:%s" % (n, "-".join(map(str, ex)) or "none", pl),) + slot_program(mode, version, n, ex, pl))
    # a shared explicit id below the number of automatic variables (the allocator must skip it)
    for n in (6, 12, 40):
        for ex in ([3], [0, 5], [11]):
            out.append(("slots:skip:n%d:e%s" % (n, "-".join(map(str, ex))),) + slot_program(mode, version, n, ex, "shared-explicit"))
    return out


def typed_slot_program(mode: str, version: int, n_auto: int, explicit: List[int], placement: str = "main"):
    """automatic uint64 variables next to explicitly numbered BYTES variables: were two of them to share a
    slot, a consumer would meet a value of the wrong type (C05), not just a wrong value"""
    e = Env(mode, version)
    V: Dict[str, Dict] = {}
    autos = ["a%d" % i for i in range(n_auto)]
    for a in autos:
        V[a] = {"t": "u"}
    exps = []
    for j, sid in enumerate(explicit):
        V["e%d" % j] = {"t": "b", "slot": sid}
        exps.append("e%d" % j)
    st: List[Any] = []
    half = autos[: n_auto // 2] if placement == "interleaved" else autos
    rest = [a for a in autos if a not in half]
    for i, a in enumerate(half):
        st.append(("Store", a, marker(e, i)))
    for j, x in enumerate(exps):
        st.append(("Store", x, ("Un", "Itob", marker(e, 1000 + j))))
    for i, a in enumerate(rest):
        st.append(("Store", a, marker(e, 500 + i)))
    st.append(e.tag(77))
    for a in autos:
        st.append(("Un", "Pop", ("Bin", "Add", ("Load", a), ("Int", 1))))
    for x in exps:
        st.append(("Un", "Pop", ("Un", "Len", ("Load", x))))
    st.append(("Return", ("Int", 1)))
    return prog(mode, ("Seq",) + tuple(st), V, {})


def typed_slot_family(mode: str, version: int):
    out = []
    for n, ex in ((3, [1, 2]), (4, [3]), (6, [2, 3, 4]), (3, [0, 1]), (5, [1, 3]), (4, [0, 2, 3]), (2, [1]), (7, [5, 6]), (9, [8]), (12, [10])):
        for pl in ("main", "interleaved"):
            out.append(("slots-typed:n%d:e%s:%s" % (n, "-".join(map(str, ex)), pl), typed_slot_program(mode, version, n, ex, pl), {}))
    return out


def byref_forward_family(mode: str, version: int):
    """a variable passed by reference through TWO routine levels (the outer routine hands its by-reference
    parameter on); automatic and explicitly numbered variables; -> (name, recipe, needed, dup)"""
    out = []
    e = Env(mode, version)
    N = ("Txn", "Fee")
    inner = {"params": [("ref", "q")], "ret": "n", "body": ("PStore", "q", ("Bin", "BitwiseXor", ("PLoad", "q"), ("Int", 7)))}
    inner2 = {"params": [("ref", "q"), ("val", "k")], "ret": "n",
              "body": ("PStore", "q", ("Bin", "BitwiseXor", ("PLoad", "q"), ("Param", "k")))}
    outer = {"params": [("ref", "p")], "ret": "n",
             "body": ("Seq", ("Call", "inner", ("PRef", "p")), ("PStore", "p", ("Bin", "BitwiseXor", ("PLoad", "p"), ("Int", 256))),
                      ("Call", "inner2", ("PRef", "p"), ("Int", 4096)))}
    outer2 = {"params": [("ref", "a"), ("ref", "b")], "ret": "u",
              "body": ("Seq", ("Call", "inner2", ("PRef", "b"), ("Int", 1 << 20)), ("Call", "inner", ("PRef", "a")),
                       ("Return", ("Bin", "BitwiseXor", ("PLoad", "a"), ("PLoad", "b"))))}
    subs = {"inner": inner, "inner2": inner2, "outer": outer, "outer2": outer2}

    def logs(vs):
        return ("Un", "Log", _concat([("Un", "Itob", ("Load", v)) for v in vs])) if mode == "A" and version >= 5 else \
            ("Seq",) + tuple(("Assert", ("Bin", "Ge", ("Load", v), ("Int", 0))) for v in vs)

    for label, slots in (("auto", (None, None, None)), ("explicit", (5, None, 200)), ("explicit-low", (0, 1, None)), ("explicit-adjacent", (None, 2, 3))):
        V = {}
        for nm, sid in zip(("v", "w", "z"), slots):
            V[nm] = {"t": "u"} if sid is None else {"t": "u", "slot": sid}
        main = ("Seq", ("Store", "v", N), ("Store", "w", marker(e, 11)), ("Store", "z", marker(e, 22)),
                ("Call", "outer", ("Ref", "v")), ("Call", "outer", ("Ref", "z")),
                ("Store", "w", ("Bin", "BitwiseXor", ("Load", "w"), ("Call", "outer2", ("Ref", "v"), ("Ref", "w")))),
                e.tag(77), logs(["v", "w", "z"]), ("Return", ("Int", 1)))
        out.append(("slots:byref-forward:%s" % label, prog(mode, main, V, dict(subs)), 3 + 6, False))
    return out


def index_only_family(mode: str, version: int):
    """explicitly numbered variables that are reached ONLY through their index (a dynamic variable pointing at them, a
    by-reference argument), next to automatic variables that would fit onto their ids; and variables whose direct store is
    immediately followed by their only direct load while they are also read through their index.  -> (name, recipe, needed, dup)"""
    out = []
    e = Env(mode, version)
    setter = {"params": [("ref", "q")], "ret": "n", "body": ("PStore", "q", marker(e, 900))}
    getter = {"params": [("ref", "q")], "ret": "u", "body": ("Return", ("PLoad", "q"))}
    for sid in (0, 1, 2, 5):
        for n_auto in (2, 4, 8):
            autos = ["a%d" % i for i in range(n_auto)]
            V = {a: {"t": "u"} for a in autos}
            V["r"] = {"t": "u", "slot": sid}
            V["d"] = {"t": "u", "dyn": True}
            st = [("Store", a, marker(e, i)) for i, a in enumerate(autos)]
            # (a) through a dynamic variable only
            body = st + [("DynSet", "d", "r"), ("DynStore", "d", marker(e, 700)), e.tag(77),
                         ("Un", "Log", _concat([("Un", "Itob", ("Load", a)) for a in autos] + [("Un", "Itob", ("DynLoad", "d"))])), ("Return", ("Int", 1))]
            out.append(("slots:index-only:dyn:s%d:n%d" % (sid, n_auto), prog(mode, ("Seq",) + tuple(body), dict(V)), n_auto + 2, False))
            # (b) through by-reference arguments only
            V2 = {k: v for k, v in V.items() if k != "d"}
            body = st + [("Call", "setter", ("Ref", "r")), e.tag(77),
                         ("Un", "Log", _concat([("Un", "Itob", ("Load", a)) for a in autos] + [("Un", "Itob", ("Call", "getter", ("Ref", "r")))])), ("Return", ("Int", 1))]
            out.append(("slots:index-only:byref:s%d:n%d" % (sid, n_auto), prog(mode, ("Seq",) + tuple(body), V2, {"setter": setter, "getter": getter}), n_auto + 3, False))
    # a direct store immediately followed by the only direct load, plus a read through the index
    for sid in (None, 3, 200):
        V = {"x": {"t": "u"} if sid is None else {"t": "u", "slot": sid}, "d": {"t": "u", "dyn": True}, "y": {"t": "u"}}
        body = [("Store", "x", marker(e, 1)), ("Store", "y", ("Bin", "BitwiseXor", ("Load", "x"), ("Int", 64))), ("DynSet", "d", "x"), e.tag(77),
                ("Un", "Log", _concat([("Un", "Itob", ("DynLoad", "d")), ("Un", "Itob", ("Load", "y"))])), ("Return", ("Int", 1))]
        out.append(("slots:adjacent-then-index:dyn:%s" % ("auto" if sid is None else "s%d" % sid), prog(mode, ("Seq",) + tuple(body), dict(V)), 3, False))
        V2 = {k: v for k, v in V.items() if k != "d"}
        body = [("Store", "x", marker(e, 1)), ("Store", "y", ("Bin", "BitwiseXor", ("Load", "x"), ("Int", 64))), e.tag(77),
                ("Un", "Log", _concat([("Un", "Itob", ("Call", "getter", ("Ref", "x"))), ("Un", "Itob", ("Load", "y"))])), ("Return", ("Int", 1))]
        out.append(("slots:adjacent-then-index:byref:%s" % ("auto" if sid is None else "s%d" % sid), prog(mode, ("Seq",) + tuple(body), V2, {"getter": getter}), 3, False))
    return out
