"""Recipe families with subroutines (C02, reused by C03/C05/C04/C17): call graphs with self and
mutual recursion, arities 0..4, by-value and by-reference parameters, return kinds
none/uint64/bytes, call sites in statement position and nested inside operands (pending
operands), Return at several positions of the body, local variables that must survive calls."""
import itertools
import random
from typing import Any, Dict, List, Tuple

from .gen import Env, prog


def _n(e: Env, bound: int = None):
    """the recursion-driving input (uint64)"""
    return e.u(0)


def _sub(params, ret, body, name=None):
    d = {"params": list(params), "ret": ret, "body": body}
    if name is not None:
        d["name"] = name
    return d


def inc(v):
    return ("Store", v, ("Bin", "Add", ("Load", v), ("Int", 1)))


def sub_family(mode: str, version: int, thorough: bool = False) -> List[Tuple[str, Dict[str, Any], Dict[str, Any]]]:
    out = []
    e = Env(mode, version)
    N = e.u(0)
    M = e.u(1)
    P = ("Param", "n")

    def add(name, main, subs, vars=None, opts=None):
        out.append(("sub:" + name, prog(mode, main, vars or {}, subs), opts or {}))

    dec = ("Bin", "Minus", P, ("Int", 1))
    # ---- self recursion, uint64 result, call nested on the right / left of a pending operand
    add("fact", ("Return", ("Call", "f", N)),
        {"f": _sub([("val", "n")], "u", ("If", ("Bin", "Le", P, ("Int", 1)), ("Int", 1), ("Bin", "Mul", P, ("Call", "f", dec))))})
    add("fact-callL", ("Return", ("Call", "f", N)),
        {"f": _sub([("val", "n")], "u", ("If", ("Bin", "Le", P, ("Int", 1)), ("Int", 1), ("Bin", "Mul", ("Call", "f", dec), P)))})
    add("fib", ("Return", ("Call", "f", N)),
        {"f": _sub([("val", "n")], "u", ("If", ("Bin", "Le", P, ("Int", 1)), P,
                                         ("Bin", "Add", ("Call", "f", dec), ("Call", "f", ("Bin", "Minus", P, ("Int", 2))))))},
        opts={"call_depth": 3})
    # ---- local variable that must survive the recursive call (spill/restore)
    for nlocals in (1, 2, 3):
        vs = {"x%d" % i: {"t": "u"} for i in range(nlocals)}
        vs["r"] = {"t": "u"}
        body = ("Seq",) + tuple(("Store", "x%d" % i, ("Bin", "Add", P, ("Int", 10 * (i + 1)))) for i in range(nlocals)) + (
            ("If", ("Bin", "Eq", P, ("Int", 0)), ("Return", ("Int", 7))),
            ("Store", "r", ("Call", "f", dec)),
            ("Return", ("Nary", "Add", ("Load", "r")) + tuple(("Load", "x%d" % i) for i in range(nlocals))),
        )
        add("locals%d" % nlocals, ("Return", ("Call", "f", N)), {"f": _sub([("val", "n")], "u", body)}, vs)
    # locals + pending operand + several args
    for nargs in (1, 2, 3, 4):
        params = [("val", "n")] + [("val", "a%d" % i) for i in range(1, nargs)]
        extra = tuple(("Bin", "Add", ("Param", "a%d" % i), ("Int", i)) for i in range(1, nargs))
        body = ("Seq", ("Store", "x", ("Bin", "Mul", P, ("Int", 3))),
                ("If", ("Bin", "Eq", P, ("Int", 0)),
                 ("Return", ("Nary", "Add", ("Int", 1)) + tuple(("Param", "a%d" % i) for i in range(1, nargs)) if nargs > 1 else ("Int", 1))),
                ("Return", ("Bin", "Add", ("Load", "x"), ("Bin", "Add", ("Call", "f", dec) + extra, ("Load", "x")))))
        args = (N,) + tuple(e.tagged(e.u(i + 1), 20 + i) for i in range(1, nargs))
        add("args%d-local-pending" % nargs, ("Return", ("Call", "f") + args), {"f": _sub(params, "u", body)}, {"x": {"t": "u"}})
    # more locals than args and fewer locals than args (cover vs uncover variants of the spill code)
    params = [("val", "n"), ("val", "a"), ("val", "b")]
    body = ("Seq", ("Store", "x", ("Bin", "Add", ("Param", "a"), ("Param", "b"))),
            ("If", ("Bin", "Eq", P, ("Int", 0)), ("Return", ("Load", "x"))),
            ("Store", "r", ("Call", "f", dec, ("Bin", "Add", ("Param", "a"), ("Int", 1)), ("Param", "b"))),
            ("Return", ("Bin", "Add", ("Load", "r"), ("Load", "x"))))
    add("args3-locals2", ("Return", ("Call", "f", N, M, e.u(2))), {"f": _sub(params, "u", body)}, {"x": {"t": "u"}, "r": {"t": "u"}})
    # ---- bytes result
    add("rep-bytes", ("Seq", ("Un", "Log", ("Call", "f", N)), ("Return", ("Int", 1))) if (mode == "A" and version >= 5) else
        ("Return", ("Un", "Len", ("Call", "f", N))),
        {"f": _sub([("val", "n")], "b", ("If", ("Bin", "Eq", P, ("Int", 0)), ("Bytes", b""),
                                         ("Nary", "Concat", ("Bytes", b"a"), ("Call", "f", dec))))})
    # bytes result with a bytes local
    add("rep-bytes-local", ("Return", ("Un", "Len", ("Call", "f", N))),
        {"f": _sub([("val", "n")], "b", ("Seq", ("Store", "s", ("Un", "Itob", P)),
                                         ("If", ("Bin", "Eq", P, ("Int", 0)), ("Return", ("Bytes", b"z"))),
                                         ("Return", ("Nary", "Concat", ("Load", "s"), ("Call", "f", dec), ("Load", "s")))))},
        {"s": {"t": "b"}})
    # ---- no result: statement-position calls, effects in order
    add("countdown", ("Seq", ("Call", "f", N), e.tag(9), ("Return", ("Int", 1))),
        {"f": _sub([("val", "n")], "n", ("Seq", e.tag(1), ("If", P, ("Call", "f", dec)), e.tag(2)))})
    add("countdown-local", ("Seq", ("Call", "f", N), ("Return", ("Int", 1))),
        {"f": _sub([("val", "n")], "n", ("Seq", ("Store", "x", ("Bin", "Add", P, ("Int", 5))),
                                         ("If", P, ("Call", "f", dec)),
                                         ("Assert", ("Bin", "Eq", ("Load", "x"), ("Bin", "Add", P, ("Int", 5)))), e.tag(2)))},
        {"x": {"t": "u"}})
    for nloc in (0, 2, 3):
        vs = {"cx%d" % i: {"t": "u"} for i in range(nloc)}
        st = tuple(("Store", "cx%d" % i, ("Bin", "Add", P, ("Int", 7 * (i + 1)))) for i in range(nloc))
        chk = tuple(("Assert", ("Bin", "Eq", ("Load", "cx%d" % i), ("Bin", "Add", P, ("Int", 7 * (i + 1))))) for i in range(nloc))
        add("countdown-%dlocals-1arg" % nloc, ("Seq", ("Call", "f", N), ("Return", ("Int", 1))),
            {"f": _sub([("val", "n")], "n", ("Seq",) + st + (("If", P, ("Call", "f", dec)),) + chk + (e.tag(2),))}, vs)
        add("countdown-%dlocals-3args" % nloc, ("Seq", ("Call", "f", N, M, ("Int", 3)), ("Return", ("Int", 1))),
            {"f": _sub([("val", "n"), ("val", "a"), ("val", "b")], "n",
                       ("Seq",) + st + (("If", P, ("Call", "f", dec, ("Param", "b"), ("Param", "a"))),) + chk + (("Un", "Pop", ("Bin", "Add", ("Param", "a"), ("Param", "b"))), e.tag(2)))}, vs)
    # ---- by-reference parameters
    add("byref-inc", ("Seq", ("Store", "v", N), ("Call", "f", ("Ref", "v")), ("Call", "f", ("Ref", "v")), ("Return", ("Load", "v"))),
        {"f": _sub([("ref", "p")], "n", ("PStore", "p", ("Bin", "Add", ("PLoad", "p"), ("Int", 1))))}, {"v": {"t": "u"}})
    add("byref-two", ("Seq", ("Store", "v", N), ("Store", "w", M), ("Call", "f", ("Ref", "v"), ("Ref", "w")),
                      ("Return", ("Bin", "Minus", ("Load", "v"), ("Load", "w")))),
        {"f": _sub([("ref", "p"), ("ref", "q")], "n",
                   ("Seq", ("PStore", "p", ("Bin", "Add", ("PLoad", "p"), ("PLoad", "q"))), ("PStore", "q", ("Int", 1))))},
        {"v": {"t": "u"}, "w": {"t": "u"}})
    add("byref-recursive", ("Seq", ("Store", "acc", ("Int", 0)), ("Call", "f", N, ("Ref", "acc")), ("Return", ("Load", "acc"))),
        {"f": _sub([("val", "n"), ("ref", "a")], "n",
                   ("Seq", ("PStore", "a", ("Bin", "Add", ("PLoad", "a"), P)),
                    ("If", P, ("Call", "f", dec, ("PRef", "a")))))},
        {"acc": {"t": "u"}})
    add("byref-mixed-value", ("Seq", ("Store", "v", ("Int", 3)), ("Return", ("Bin", "Add", ("Call", "f", N, ("Ref", "v"), M), ("Load", "v")))),
        {"f": _sub([("val", "a"), ("ref", "p"), ("val", "b")], "u",
                   ("Seq", ("PStore", "p", ("Bin", "Add", ("PLoad", "p"), ("Param", "a"))), ("Bin", "Minus", ("Param", "a"), ("Param", "b"))))},
        {"v": {"t": "u"}})
    # ---- a by-reference parameter handed on by reference (two routine levels)
    from .gen_slots import byref_forward_family
    for (nm, rec, _needed, _dup) in (byref_forward_family(mode, version) if version >= 5 else []):
        out.append(("sub:" + nm.split(":", 1)[1], rec, {}))
    # ---- mutual recursion, same and different result kinds / arities
    Q = ("Param", "m")
    decm = ("Bin", "Minus", Q, ("Int", 1))
    add("even-odd", ("Return", ("Call", "ev", N)),
        {"ev": _sub([("val", "n")], "u", ("If", ("Bin", "Eq", P, ("Int", 0)), ("Int", 1), ("Call", "od", dec))),
         "od": _sub([("val", "m")], "u", ("If", ("Bin", "Eq", Q, ("Int", 0)), ("Int", 0), ("Call", "ev", decm)))})
    # A returns uint64 and has a local; B returns nothing (defect #1 on the pinned tree)
    add("mutual-u-none", ("Return", ("Call", "A", N)),
        {"A": _sub([("val", "n")], "u", ("Seq", ("Store", "x", ("Bin", "Add", P, ("Int", 100))),
                                         ("If", P, ("Call", "B", dec)),
                                         ("Return", ("Load", "x")))),
         "B": _sub([("val", "m")], "n", ("Seq", ("Store", "y", ("Bin", "Add", Q, ("Int", 50))),
                                         ("Un", "Pop", ("Call", "A", Q)),
                                         ("Assert", ("Bin", "Eq", ("Load", "y"), ("Bin", "Add", Q, ("Int", 50))))))},
        {"x": {"t": "u"}, "y": {"t": "u"}})
    add("mutual-none-u", ("Seq", ("Call", "B", N), ("Return", ("Int", 1))),
        {"A": _sub([("val", "n")], "u", ("Seq", ("Store", "x", ("Bin", "Add", P, ("Int", 100))),
                                         ("If", P, ("Call", "B", dec)),
                                         ("Return", ("Load", "x")))),
         "B": _sub([("val", "m")], "n", ("Seq", ("Store", "y", ("Bin", "Add", Q, ("Int", 50))),
                                         ("Store", "z", ("Call", "A", Q)),
                                         ("Assert", ("Bin", "Eq", ("Load", "y"), ("Bin", "Add", Q, ("Int", 50)))),
                                         ("Assert", ("Bin", "Eq", ("Load", "z"), ("Bin", "Add", Q, ("Int", 100))))))},
        {"x": {"t": "u"}, "y": {"t": "u"}, "z": {"t": "u"}})
    # A: bytes, 2 args ; B: uint64, 1 arg
    add("mutual-b-u", ("Return", ("Un", "Len", ("Call", "A", N, ("Bytes", b"q")))),
        {"A": _sub([("val", "n"), ("val", "s")], "b",
                   ("Seq", ("Store", "t", ("Nary", "Concat", ("Param", "s"), ("Bytes", b"x"))),
                    ("If", ("Bin", "Eq", P, ("Int", 0)), ("Return", ("Load", "t"))),
                    ("Return", ("Nary", "Concat", ("Load", "t"), ("Un", "Itob", ("Call", "B", dec)), ("Load", "t"))))),
         "B": _sub([("val", "m")], "u",
                   ("Seq", ("Store", "k", ("Bin", "Mul", Q, ("Int", 2))),
                    ("Return", ("Bin", "Add", ("Un", "Len", ("Call", "A", Q, ("Bytes", b"p"))), ("Load", "k")))))},
        {"t": {"t": "b"}, "k": {"t": "u"}})
    # chain A -> B -> C -> A
    add("chain3", ("Return", ("Call", "A", N)),
        {"A": _sub([("val", "n")], "u", ("Seq", ("Store", "xa", P), ("If", ("Bin", "Eq", P, ("Int", 0)), ("Return", ("Int", 1))),
                                         ("Return", ("Bin", "Add", ("Call", "B", dec, ("Int", 2)), ("Load", "xa"))))),
         "B": _sub([("val", "m"), ("val", "k")], "u", ("Seq", ("Store", "xb", ("Param", "k")),
                                                       ("Return", ("Bin", "Add", ("Call", "C", Q), ("Load", "xb"))))),
         "C": _sub([("val", "n")], "u", ("Bin", "Add", ("Call", "A", P), ("Int", 1)))},
        {"xa": {"t": "u"}, "xb": {"t": "u"}})
    # rings of 4 and 5 mutually recursive routines (different arities / result kinds), each reading a local after its call
    for size in (4, 5):
        names = ["R%d" % i for i in range(size)]
        subs, vs = {}, {}
        for i, nm in enumerate(names):
            nxt = names[(i + 1) % size]
            loc = "x%d" % i
            vs[loc] = {"t": "u"}
            extra = [("val", "a%d" % t) for t in range(i % 3)]
            nxt_extra = tuple(("Int", 3 + t) for t in range(((i + 1) % size) % 3))
            callnext = ("Call", nxt, dec) + nxt_extra
            if (i + 1) % size == 2:
                callnext = ("Un", "Len", callnext)           # routine 2 returns bytes
            body_val = ("Bin", "Add", callnext, ("Load", loc))
            if i == 2:
                body = ("Seq", ("Store", loc, ("Bin", "Add", P, ("Int", 10 * (i + 1)))), ("If", ("Bin", "Eq", P, ("Int", 0)), ("Return", ("Bytes", b"z"))),
                        ("Return", ("Un", "BytesZero", ("Bin", "Mod", body_val, ("Int", 50)))))
            else:
                body = ("Seq", ("Store", loc, ("Bin", "Add", P, ("Int", 10 * (i + 1)))), ("If", ("Bin", "Eq", P, ("Int", 0)), ("Return", ("Int", i + 1))),
                        ("Return", body_val))
            subs[nm] = _sub([("val", "n")] + extra, "b" if i == 2 else "u", body)
        add("ring%d" % size, ("Return", ("Call", "R0", ("Bin", "Mod", N, ("Int", size + 2)))), subs, vs, {"call_depth": size + 3, "max_paths": 6000})
    # ---- Return positions
    add("ret-in-loop", ("Return", ("Call", "f", N)),
        {"f": _sub([("val", "n")], "u", ("Seq", ("Store", "i", ("Int", 0)),
                                         ("While", ("Int", 1), ("Seq", ("If", ("Bin", "Ge", ("Load", "i"), P), ("Return", ("Load", "i"))), inc("i"))),
                                         ("Return", ("Int", 99))))}, {"i": {"t": "u"}})
    add("ret-in-branches", ("Return", ("Bin", "Add", ("Call", "f", N), ("Call", "f", M))),
        {"f": _sub([("val", "n")], "u", ("Seq", ("If", ("Bin", "Eq", P, ("Int", 0)), ("Return", ("Int", 10))),
                                         ("IfChain", ((("Bin", "Eq", P, ("Int", 1)), ("Return", ("Int", 20))),
                                                      (("Bin", "Eq", P, ("Int", 2)), e.tag(3))), ("Return", ("Int", 30))),
                                         ("Return", ("Int", 40))))})
    add("ret-none-early", ("Seq", ("Call", "f", N), e.tag(8), ("Return", ("Int", 1))),
        {"f": _sub([("val", "n")], "n", ("Seq", ("If", P, ("Return",)), e.tag(1)))})
    # Return reached while an operand of an enclosing expression is pending (defect #11)
    add("ret-inside-pending", ("Return", ("Call", "f", N)),
        {"f": _sub([("val", "n")], "u", ("Bin", "Add", ("Int", 5), ("Seq", ("If", P, ("Return", ("Int", 7))), ("Int", 1))))})
    # call as argument of a call, evaluation order of arguments
    add("call-in-arg", ("Return", ("Call", "g", e.tagged(("Call", "h", e.tagged(N, 1)), 2), e.tagged(("Call", "h", e.tagged(M, 3)), 4))),
        {"g": _sub([("val", "a"), ("val", "b")], "u", ("Bin", "Minus", ("Param", "a"), ("Param", "b"))),
         "h": _sub([("val", "n")], "u", ("Seq", e.tag(5), ("Bin", "Add", P, ("Int", 1))))})
    # zero-arity routine, called twice, with a local
    add("arity0", ("Return", ("Bin", "Add", ("Call", "z"), ("Call", "z"))),
        {"z": _sub([], "u", ("Seq", ("Store", "q", N), e.tag(1), ("Bin", "Add", ("Load", "q"), ("Int", 1))))}, {"q": {"t": "u"}})
    # main's own variables and pending operands around a recursive call
    add("main-pending", ("Seq", ("Store", "mv", M), ("Return", ("Bin", "Minus", ("Bin", "Add", ("Load", "mv"), ("Call", "f", N)), ("Load", "mv")))),
        {"f": _sub([("val", "n")], "u", ("If", P, ("Bin", "Add", ("Int", 1), ("Call", "f", dec)), ("Int", 0)))}, {"mv": {"t": "u"}})
    out.extend(trailing_family(mode, version, e))
    return [x for x in out if x is not None]


def trailing_family(mode, version, e):
    """routines whose LAST expression is a conditional construct with every mixture of arms that
    complete normally / return / exit the program (the compiler must close each routine exactly
    where control can leave it), followed in the layout by another routine"""
    out = []
    arms_n = {"tag": lambda k: e.tag(70 + k), "ret": lambda k: ("Return",), "rej": lambda k: ("Reject",), "err": lambda k: ("Err",)}
    arms_u = {"val": lambda k: ("Int", 10 + k), "ret": lambda k: ("Return", ("Int", 20 + k)), "rej": lambda k: ("Reject",), "err": lambda k: ("Err",)}
    g = {"params": [], "ret": "n", "body": e.tag(79)}
    for kind, arms in (("n", arms_n), ("u", arms_u)):
        names = sorted(a for a in arms if a != "err")
        for n in (2, 3):
            for combo in itertools.product(names + (["err"] if n == 2 else []), repeat=n):
                if kind == "u" and all(c != "val" for c in combo) and False:
                    continue
                conds = [e.u(i) for i in range(n)]
                built = [arms[c](i) for i, c in enumerate(combo)]
                shapes = {"cond": ("Cond",) + tuple((conds[i], built[i]) for i in range(n)),
                          "ifchain": ("IfChain", tuple((conds[i], built[i]) for i in range(n - 1)), built[n - 1])}
                if n == 2:
                    shapes["ifelse"] = ("If", conds[0], built[0], built[1])
                    if kind == "n":
                        shapes["ifonly"] = ("If", conds[0], built[0])
                if kind == "n":
                    # an If / ElseIf chain WITHOUT a final Else: control can always leave it normally
                    shapes["ifchain-noelse"] = ("IfChain", tuple((conds[i], built[i]) for i in range(n)), None)
                for sname, body in shapes.items():
                    f = {"params": [], "ret": kind, "body": ("Seq", e.tag(60), body)}
                    if kind == "n":
                        main = ("Seq", ("Call", "f"), e.tag(61), ("Call", "g"), ("Return", ("Int", 1)))
                    else:
                        main = ("Seq", ("Call", "g"), ("Return", ("Bin", "Add", ("Call", "f"), ("Int", 1))))
                    out.append(("sub:trail:%s:%s:%s" % (kind, sname, "-".join(combo)), prog(mode, main, {}, {"f": f, "g": g}), {}))
                    if kind == "u":
                        # the same construct as the LAST expression of the main routine (followed in the layout by routine g);
                        # arms that complete normally deliver the program's result
                        mainp = ("Seq", ("Call", "g"), e.tag(62), body)
                        out.append(("sub:trail-main:%s:%s" % (sname, "-".join(combo)), prog(mode, mainp, {}, {"g": g}), {}))
                    elif "tag" not in combo:
                        # none-typed arms that all leave the program: legal as the end of main only if control cannot fall out of it
                        mainp = ("Seq", ("Call", "g"), e.tag(62), tuple(body[:1]) + tuple(body[1:]))
                        mainp = _replace_bare_returns(mainp)
                        out.append(("sub:trail-main:%s:%s" % (sname, "-".join(combo)), prog(mode, mainp, {}, {"g": g}), {}))
    # routines whose LAST expression is a loop whose body always returns: the loop can run zero times (or be left by Break),
    # so control does reach the end of the routine
    c0, c1 = e.u(0), e.u(1)
    loops = {
        "while-ret": ("While", c0, ("Seq", e.tag(63), ("Return",))),
        "while-ifret": ("While", c0, ("If", c1, ("Return",), ("Seq", e.tag(64), ("Return",)))),
        "for-ret": ("For", ("Store", "lq", ("Int", 0)), ("Bin", "Lt", ("Load", "lq"), c0), ("Store", "lq", ("Bin", "Add", ("Load", "lq"), ("Int", 1))),
                    ("Seq", e.tag(65), ("Return",))),
        "for-break-ret": ("For", ("Store", "lq", ("Int", 0)), ("Bin", "Lt", ("Load", "lq"), c0), ("Store", "lq", ("Bin", "Add", ("Load", "lq"), ("Int", 1))),
                          ("Seq", ("If", c1, ("Break",)), e.tag(66), ("Return",))),
        "for-ifret": ("For", ("Store", "lq", ("Int", 0)), ("Bin", "Lt", ("Load", "lq"), c0), ("Store", "lq", ("Bin", "Add", ("Load", "lq"), ("Int", 1))),
                      ("If", c1, ("Return",), ("Return",))),
    }
    for lname, loop in loops.items():
        f = {"params": [], "ret": "n", "body": ("Seq", e.tag(60), loop)}
        main = ("Seq", ("Call", "f"), e.tag(61), ("Call", "g"), ("Return", ("Int", 1)))
        out.append(("sub:trail:n:loop:%s" % lname, prog(mode, main, {"lq": {"t": "u"}}, {"f": f, "g": g}), {}))
        # the same loop as the last statement of the main routine before its closing Return is ordinary code; as the
        # body of a value-returning routine it is followed by the result
        fu = {"params": [], "ret": "u", "body": ("Seq", e.tag(60), _with_values(loop), ("Int", 9))}
        mainu = ("Seq", ("Call", "g"), ("Return", ("Bin", "Add", ("Call", "fu"), ("Int", 1))))
        out.append(("sub:trail:u:loop:%s" % lname, prog(mode, mainu, {"lq": {"t": "u"}}, {"fu": fu, "g": g}), {}))
    return out


def _with_values(e):
    """Return() -> Return(Int(21)) for use inside a value-returning routine"""
    if isinstance(e, tuple):
        if e == ("Return",):
            return ("Return", ("Int", 21))
        return tuple(_with_values(c) for c in e)
    return e


def _replace_bare_returns(e):
    """Return() without a value is not allowed in the main routine: use Approve()"""
    if isinstance(e, tuple):
        if e == ("Return",):
            return ("Approve",)
        return tuple(_replace_bare_returns(c) for c in e)
    return e


def sub_options(version: int, thorough: bool):
    """option settings to compile each routine family member under"""
    opts = [None]
    if thorough or version in (4, 6, 8, 10):
        opts.append({"scratch_slots": True})
    if version >= 8:
        opts.append({"frame_pointers": False})
        if thorough:
            opts.append({"frame_pointers": False, "scratch_slots": True})
            opts.append({"frame_pointers": True, "scratch_slots": True})
    return opts


def abi_sub_family(mode: str, version: int):
    """routines with ABI-typed (abi.Uint64) parameters mixed with Expr / ScratchVar parameters in every
    order, and ABIReturnSubroutines with an output, also recursive (version >= 6 for the ABI types)"""
    out = []
    if version < 6:
        return out
    e = Env(mode, version)
    N, M = e.u(0), e.u(1)

    def add(name, main, subs, vars=None, opts=None):
        out.append(("sub:abi-" + name, prog(mode, main, vars or {}, subs), opts or {}))

    def P(n):
        return ("Param", n)
    # every order of one abi, one Expr and (optionally) one by-reference parameter
    for order in itertools.permutations(["abi", "val", "ref"], 3):
        params = [(k, "p%d" % i) for i, k in enumerate(order)]
        pa = [n for k, n in params if k == "abi"][0]
        pv = [n for k, n in params if k == "val"][0]
        pr = [n for k, n in params if k == "ref"][0]
        body = ("Seq", ("PStore", pr, ("Bin", "Add", ("PLoad", pr), ("Bin", "Mul", P(pa), ("Int", 10)))),
                ("Bin", "Add", ("Bin", "Mul", P(pa), ("Int", 100)), P(pv)))
        args = {"abi": e.tagged(N, 1), "val": e.tagged(M, 2), "ref": ("Ref", "v")}
        for ret in ("u", "a"):
            add("order-%s-%s" % ("".join(k[0] for k in order), ret),
                ("Seq", ("Store", "v", ("Int", 3)), ("Return", ("Bin", "Add", ("Call", "f") + tuple(args[k] for k in order), ("Load", "v")))),
                {"f": _sub(params, ret, body)}, {"v": {"t": "u"}})
    for order in itertools.permutations(["abi", "val"], 2):
        params = [(k, "p%d" % i) for i, k in enumerate(order)] + [("abi", "p2")]
        body = ("Bin", "Add", ("Bin", "Mul", P("p0"), ("Int", 100)), ("Bin", "Add", ("Bin", "Mul", P("p1"), ("Int", 10)), P("p2")))
        for ret in ("u", "a", "n"):
            b = body if ret != "n" else ("Un", "Log", ("Un", "Itob", body))
            main = ("Return", ("Call", "f", N, M, e.u(2))) if ret != "n" else ("Seq", ("Call", "f", N, M, e.u(2)), ("Return", ("Int", 1)))
            add("two-%s-%s" % ("".join(k[0] for k in order), ret), main, {"f": _sub(params, ret, b)})
    # recursive ABI-output subroutine with a local that must survive the call (scratch convention: spill/restore)
    Pn = P("n")
    dec = ("Bin", "Minus", Pn, ("Int", 1))
    add("fact-output", ("Return", ("Call", "f", N)),
        {"f": _sub([("abi", "n")], "a", ("If", ("Bin", "Le", Pn, ("Int", 1)), ("Int", 1), ("Bin", "Mul", Pn, ("Call", "f", dec))))})
    add("fact-output-expr-param", ("Return", ("Call", "f", N)),
        {"f": _sub([("val", "n")], "a", ("If", ("Bin", "Le", Pn, ("Int", 1)), ("Int", 1), ("Bin", "Mul", ("Call", "f", dec), Pn)))})
    add("mutual-output-plain", ("Return", ("Call", "A", N)),
        {"A": _sub([("abi", "n")], "a", ("If", ("Bin", "Eq", Pn, ("Int", 0)), ("Int", 5), ("Bin", "Add", ("Call", "B", dec, ("Int", 2)), Pn))),
         "B": _sub([("val", "m"), ("abi", "k")], "u", ("Bin", "Add", ("Call", "A", ("Param", "m")), ("Param", "k")))})
    add("mutual-output-none", ("Seq", ("Call", "B", N), ("Return", ("Int", 1))),
        {"A": _sub([("abi", "n")], "a", ("Seq", ("If", Pn, ("Call", "B", dec)), ("Bin", "Add", Pn, ("Int", 100)))),
         "B": _sub([("val", "m")], "n", ("Seq", ("Store", "y", ("Bin", "Add", ("Param", "m"), ("Int", 50))),
                                         ("Store", "z", ("Call", "A", ("Param", "m"))),
                                         ("Assert", ("Bin", "Eq", ("Load", "y"), ("Bin", "Add", ("Param", "m"), ("Int", 50)))),
                                         ("Assert", ("Bin", "Eq", ("Load", "z"), ("Bin", "Add", ("Param", "m"), ("Int", 100))))))},
        {"y": {"t": "u"}, "z": {"t": "u"}})
    return out


def random_sub_family(mode: str, version: int, seed: int, n: int):
    """seeded random call graphs: 2-3 routines of random arity (1..4) and result kind (uint64 / none / bytes),
    1-2 locals each, every call passes a strictly smaller first argument and is guarded, so all programs
    terminate; calls appear in statement position, inside operands (pending values) and as arguments"""
    out = []
    for i in range(n):
        rng = random.Random((seed * 7907 + i) * 13 + version)
        e = Env(mode, version)
        k = rng.choice([2, 2, 3])
        names = ["R%d" % j for j in range(k)]
        kinds = [rng.choice(["u", "u", "n", "b"]) for _ in names]
        arity = [rng.choice([1, 2, 3, 4]) for _ in names]
        V = {}
        subs = {}

        def call(j, narg):
            """call of routine j with first argument narg, as an expression of its kind"""
            extra = tuple(rng.choice([("Int", rng.randrange(5)), e.u(rng.randrange(1, 6))]) for _ in range(arity[j] - 1))
            return ("Call", names[j], narg) + extra

        def uexpr_of_call(j, narg):
            c = call(j, narg)
            if kinds[j] == "u":
                return c
            if kinds[j] == "b":
                return ("Un", "Len", c)
            return ("Seq", c, ("Int", 1))

        for j, nm in enumerate(names):
            params = [("val", "n")] + [("val", "a%d" % t) for t in range(1, arity[j])]
            P = ("Param", "n")
            dec = ("Bin", "Minus", P, ("Int", 1))
            loc = ["%s_l%d" % (nm, t) for t in range(rng.choice([1, 2]))]
            for v in loc:
                V[v] = {"t": "u"}
            st = [("Store", v, ("Bin", "Add", P, ("Int", 10 * (t + 1)))) for t, v in enumerate(loc)]
            st.append(e.tag(rng.randrange(1, 9)))
            tgt = rng.randrange(k)
            tgt2 = rng.randrange(k)
            ps = [("Param", "a%d" % t) for t in range(1, arity[j])]
            mix = ("Nary", "Add", ("Load", loc[0])) + tuple(ps) if ps else ("Load", loc[0])
            shape = rng.choice(["pending-left", "pending-right", "stored", "two-calls", "arg-of-call"])
            if shape == "pending-left":
                rec_val = ("Bin", "Add", mix, uexpr_of_call(tgt, dec))
            elif shape == "pending-right":
                rec_val = ("Bin", "Add", uexpr_of_call(tgt, dec), mix)
            elif shape == "stored":
                tmp = "%s_t" % nm
                V[tmp] = {"t": "u"}
                st.append(("If", P, ("Store", tmp, uexpr_of_call(tgt, dec)), ("Store", tmp, ("Int", 3))))
                rec_val = ("Bin", "Add", ("Load", tmp), mix)
                shape = "stored-guarded"
            elif shape == "two-calls":
                rec_val = ("Bin", "Add", uexpr_of_call(tgt, dec), ("Bin", "Add", ("Load", loc[-1]), uexpr_of_call(tgt2, dec)))
            else:
                inner = uexpr_of_call(tgt2, dec)
                rec_val = ("Bin", "Add", uexpr_of_call(tgt, ("Bin", "Mod", inner, ("Bin", "Add", dec, ("Int", 1)))), mix) \
                    if False else ("Bin", "Add", uexpr_of_call(tgt, dec), ("Bin", "Add", inner, mix))
            base = ("Nary", "Add", ("Int", 7), ("Load", loc[0])) if len(loc) == 1 else ("Nary", "Add", ("Int", 7), ("Load", loc[0]), ("Load", loc[1]))
            val = rec_val if shape == "stored-guarded" else ("If", P, rec_val, base)
            if kinds[j] == "u":
                body = ("Seq",) + tuple(st) + (val,)
                if rng.random() < 0.4:
                    body = ("Seq",) + tuple(st) + (("If", ("Bin", "Eq", P, ("Int", 0)), ("Return", base)), ("Return", rec_val if shape != "stored-guarded" else val))
                    if shape == "stored-guarded":
                        body = ("Seq",) + tuple(st) + (("Return", val),)
            elif kinds[j] == "b":
                body = ("Seq",) + tuple(st) + (("Un", "Itob", val),)
            else:
                body = ("Seq",) + tuple(st) + (("Un", "Pop", val), ("Assert", ("Bin", "Eq", ("Load", loc[0]), ("Bin", "Add", P, ("Int", 10)))), e.tag(9))
            subs[nm] = _sub(params, kinds[j], body)
        top = uexpr_of_call(0, e.u(0))
        main = ("Seq", ("Store", "mv", e.u(7)), ("Return", ("Bin", "Add", ("Bin", "Add", ("Load", "mv"), top), ("Load", "mv"))))
        V["mv"] = {"t": "u"}
        out.append(("sub:rnd%d:%d" % (seed, i), prog(mode, main, V, subs), {"call_depth": 3, "max_paths": 6000}))
    return out
