"""Constant-multiset recipe families (C12, reused by C13/C04): frequency patterns x magnitude
classes x spellings of byte constants, equal values under different spellings, templates, named
enum values, and the 255/256/257 distinct-repeated boundary."""
import base64
import itertools
import random
from typing import Any, Dict, List, Tuple

from .gen import Env, prog

ADDR1 = "7777777777777777777777777777777777777777777777777774MSJUVU"
ADDR2 = "AAAAAAAAAAAAAAAAAAAAAAAAAAAAAAAAAAAAAAAAAAAAAAAAAAAAY5HFKQ"
ADDR_T1 = "TMPLAAAAAAAAAAAAAAAAAAAAAAAAAAAAAAAAAAAAAAAAAAAAAAAPQWW44I"
ADDR_T2 = "TMPL77777777777777777777777777777777777777777777777UTR5ZHY"

INT_POOL = [0, 1, 2, 5, 127, 128, 129, 255, 256, 1000, 2 ** 32 - 1, 2 ** 32, 2 ** 63, 2 ** 64 - 1]


def observe(e: Env, mode: str, version: int, c, k: int):
    """statement that makes constant expression c observable; k distinguishes keys"""
    isb = c[0] in ("Bytes", "BytesStr", "BytesBase", "Addr", "MethodSig", "TmplBytes", "TmplAddr")
    if mode == "A" and version >= 5:
        return ("Un", "Log", c if isb else ("Un", "Itob", c))
    if mode == "A":
        return ("GPut", ("Bytes", b"k%d" % (k % 7)), c)
    if isb:
        return ("Assert", ("Bin", "Neq", c, ("Txn", "Note")))
    return ("Assert", ("Bin", "Neq", c, ("Txn", "Fee")))


def mk(mode, version, name, consts, opts=None):
    e = Env(mode, version)
    st = [observe(e, mode, version, c, i) for i, c in enumerate(consts)]
    return ("const:" + name, prog(mode, ("Seq",) + tuple(st) + (("Return", ("Int", 1)),)), opts or {})


FREQ_PATTERNS = [
    (1,), (2,), (1, 1, 1), (2, 1), (1, 2), (2, 2), (3, 2, 1), (1, 2, 3), (2, 2, 2, 2), (2, 2, 2, 2, 2), (3, 3, 3, 3, 2, 2),
    (2, 2, 2, 2, 2, 2), (3, 3, 3, 3, 2, 2, 2), (4, 3, 2, 1, 1, 2), (2, 1, 2, 1, 2, 1, 2),
]


def int_lists(rng: random.Random, n_per_pattern: int):
    for fp in FREQ_PATTERNS:
        for _ in range(n_per_pattern):
            vals = rng.sample(INT_POOL, len(fp))
            occ = []
            for v, f in zip(vals, fp):
                occ += [v] * f
            # two orders: grouped and interleaved
            yield fp, vals, list(occ)
            sh = list(occ)
            rng.shuffle(sh)
            yield fp, vals, sh


def byte_spellings(b: bytes) -> List[Tuple]:
    """different spellings of the same byte string"""
    out = [("Bytes", b), ("BytesBase", "base16", b.hex()), ("BytesBase", "base16", "0x" + b.hex().upper())]
    out.append(("BytesBase", "base64", base64.b64encode(b).decode()))
    b32 = base64.b32encode(b).decode()
    out.append(("BytesBase", "base32", b32))
    if b32.endswith("="):
        out.append(("BytesBase", "base32", b32.rstrip("=")))
    try:
        t = b.decode("utf-8")
        out.append(("BytesStr", t))
    except UnicodeDecodeError:
        pass
    return out


TEXTS = ["abc", "", "a b", 'q"uote', "back\\slash", "new\nline", "tab\t", "semi;colon", "sl//ash", "café", "漢 \U0001F600",
         "\x00\x01", "\x7f", "'single'", "//", "\\", '"', "\\x41", "\r"]


def const_family(mode: str, version: int, seed: int, thorough: bool = False):
    out = []
    rng = random.Random(seed * 7919 + version)
    # integers
    for i, (fp, vals, occ) in enumerate(int_lists(rng, 3 if thorough else 1)):
        out.append(mk(mode, version, "int:%s:%d" % ("-".join(map(str, fp)), i), [("Int", v) for v in occ]))
    # the pushint-vs-block boundary: >4 repeated ints with a small one ranked 5th or later followed by large ones
    out.append(mk(mode, version, "int:small-after-top4",
                  [("Int", v) for v in [1000] * 3 + [2000] * 3 + [3000] * 3 + [4000] * 3 + [10] * 2 + [5000] * 2 + [6000] * 2 + [11] * 2 + [7000] * 2]))
    out.append(mk(mode, version, "int:small-in-top4",
                  [("Int", v) for v in [3] * 4 + [4] * 4 + [1000] * 3 + [2000] * 3 + [5] * 2 + [128] * 2 + [127] * 2 + [6000] * 2]))
    # named enum values and templates mixed with equal plain ints
    out.append(mk(mode, version, "int:enums",
                  [("EnumInt", "OnComplete", "OptIn"), ("Int", 1), ("EnumInt", "TxnType", "Payment"), ("EnumInt", "OnComplete", "DeleteApplication"),
                   ("Int", 5), ("EnumInt", "TxnType", "ApplicationCall"), ("Int", 6), ("EnumInt", "TxnType", "ApplicationCall"),
                   ("EnumInt", "OnComplete", "NoOp"), ("Int", 0), ("EnumInt", "TxnType", "Unknown")]))
    allnames = [("EnumInt", "OnComplete", n) for n in ("NoOp", "OptIn", "CloseOut", "ClearState", "UpdateApplication", "DeleteApplication")] + \
               [("EnumInt", "TxnType", n) for n in ("Unknown", "Payment", "KeyRegistration", "AssetConfig", "AssetTransfer", "AssetFreeze", "ApplicationCall")]
    out.append(mk(mode, version, "int:enums-all-once", allnames))
    out.append(mk(mode, version, "int:enums-all-twice", allnames + allnames[::-1]))
    out.append(mk(mode, version, "int:enums-with-equal-ints", allnames + [("Int", k) for k in range(7)] + allnames[3:9]))
    out.append(mk(mode, version, "int:tmpl",
                  [("TmplInt", "TMPL_A"), ("Int", 7), ("TmplInt", "TMPL_A"), ("TmplInt", "TMPL_B"), ("Int", 7), ("Int", 300), ("Int", 300),
                   ("TmplInt", "TMPL_C"), ("TmplInt", "TMPL_C"), ("TmplInt", "TMPL_C"), ("Int", 9), ("Int", 9), ("Int", 8), ("Int", 8), ("Int", 6), ("Int", 6)]))
    # byte strings: every spelling of a few values, repeated / unique, equal values under different spellings
    vals = [b"abc", b"", b"\x00\xff", b"hello world", bytes(range(32)), b"\xc3\xa9"]
    for i, b in enumerate(vals):
        sp = byte_spellings(b)
        out.append(mk(mode, version, "bytes:spellings:%d" % i, sp))
        out.append(mk(mode, version, "bytes:spellings-twice:%d" % i, sp + sp[::-1]))
    for fp in [(2, 1), (2, 2, 2, 2, 2), (3, 2, 1, 1), (2, 2, 2, 2, 2, 2)]:
        bs = [bytes([65 + k]) * (k + 1) for k in range(len(fp))]
        occ = []
        for b, f in zip(bs, fp):
            for j in range(f):
                sp = byte_spellings(b)
                occ.append(sp[(j + len(b)) % len(sp)])
        rng.shuffle(occ)
        out.append(mk(mode, version, "bytes:freq:%s" % "-".join(map(str, fp)), occ))
    # utf-8 literals with escapes
    for i in range(0, len(TEXTS), 4):
        ts = TEXTS[i:i + 4]
        out.append(mk(mode, version, "bytes:text:%d" % i, [("BytesStr", t) for t in ts] + [("BytesStr", t) for t in ts[:2]] +
                      [("Bytes", ts[0].encode("utf-8"))]))
    # addresses, method selectors, templates
    msel = [("MethodSig", "add(uint64,uint64)uint64"), ("MethodSig", "f()void")]
    out.append(mk(mode, version, "bytes:addr-method",
                  [("Addr", ADDR1), ("Addr", ADDR2), ("Addr", ADDR1), msel[0], msel[1], msel[0],
                   ("Bytes", bytes(32)), ("Addr", ADDR2), ("BytesBase", "base16", "fe6baa64"), ("BytesBase", "base16", "fe6baa64")]))
    # addresses whose text begins with the letters of the template prefix (T, M, P, L are base32 letters) are ordinary addresses
    out.append(mk(mode, version, "bytes:addr-tmpl-lookalike",
                  [("Addr", ADDR_T1), ("Addr", ADDR_T2), ("Addr", ADDR_T1), ("TmplAddr", "TMPL_ADDR1"), ("Addr", ADDR1), ("Addr", ADDR_T1), ("TmplAddr", "TMPL_ADDR1")]))
    # signature texts that differ only in spacing / letter case / non-ASCII letters are DIFFERENT selectors
    msel2 = [("MethodSig", "add(uint64, uint64)uint64"), ("MethodSig", "add(uint64,uint64)uint64"), ("MethodSig", "Add(uint64,uint64)uint64"),
             ("MethodSig", "gr\u00f6\u00dfe(uint64)void"), ("MethodSig", "groesse(uint64)void")]
    out.append(mk(mode, version, "bytes:method-texts", msel2 + [msel2[0], msel2[1], msel2[3], msel2[0]]))
    out.append(mk(mode, version, "bytes:tmpl",
                  [("TmplBytes", "TMPL_BX"), ("TmplBytes", "TMPL_BX"), ("TmplBytes", "TMPL_BY"), ("TmplAddr", "TMPL_ADDR1"), ("TmplAddr", "TMPL_ADDR1"),
                   ("TmplAddr", "TMPL_ADDR2"), ("Bytes", b"z"), ("Bytes", b"z")]))
    # mixed program with control flow: constants in both arms of a branch and in a loop
    e = Env(mode, version)
    out.append(("const:mixed-control",
                prog(mode, ("Seq", ("Store", "i", ("Int", 0)),
                            ("While", ("Bin", "Lt", ("Load", "i"), ("Int", 3)),
                             ("Seq", ("Store", "i", ("Bin", "Add", ("Load", "i"), ("Int", 1))),
                              ("If", ("Bin", "Eq", e.u(0), ("Int", 1000)), observe(e, mode, version, ("Int", 1000), 1), observe(e, mode, version, ("Bytes", b"no"), 2)))),
                            ("If", ("Bin", "Gt", e.u(1), ("Int", 3)), observe(e, mode, version, ("Bytes", b"no"), 3)),
                            ("Return", ("Bin", "Eq", ("Load", "i"), ("Int", 3)))), {"i": {"t": "u"}}), {}))
    return out


def boundary_family(mode: str, version: int, n: int, kind: str):
    """n distinct constants, each occurring twice (n around 255/256/257)"""
    st = []
    for i in range(n):
        if kind == "int":
            st.append(("Un", "Pop", ("Bin", "BitwiseXor", ("Int", 1000 + i), ("Int", 1000 + i))))
        else:
            b = b"c%03d" % i
            st.append(("Un", "Pop", ("Nary", "Concat", ("Bytes", b), ("Bytes", b))))
    # the last constants are made observable
    last = ("Int", 1000 + n - 1) if kind == "int" else ("Un", "Btoi", ("Bytes", b"c%03d" % (n - 1)))
    return ("const:boundary:%s:%d" % (kind, n), prog(mode, ("Seq",) + tuple(st) + (("Return", last),)), {"max_steps": 5000})
