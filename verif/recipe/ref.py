"""Reference semantics of recipes: a structural evaluator written against PyTeal's
documentation (left-to-right, exactly-once operand evaluation; And/Or evaluate all operands;
Cond errs when no arm matches; Assert checks its conditions in order; Return per routine;
ScratchVars are cells, local per invocation when used by a single routine; by-reference
parameters alias the caller's variable).  Primitive operators denote the AVM operation of the
same name (shared op semantics from avm.sym.Ops); everything structural is independent of
the compiler.

See recipe/lang.md-style summary in build.py for the recipe forms.
"""
from typing import Any, Dict, List, Optional, Tuple

import z3

from ..avm.ctx import CtxConfig, World
from ..avm.engine import HarnessError, Outcome, Path, PathEnd
from ..avm.sym import Bounds, Ops
from ..avm.values import Bs, Ob, U, b_not, from_bool, b_and, b_or

UN_OPS = {"Btoi": "btoi", "Itob": "itob", "Len": "len", "Not": "!", "BitwiseNot": "~", "Sqrt": "sqrt",
          "BitLen": "bitlen", "BytesNot": "b~", "BytesSqrt": "bsqrt", "BytesZero": "bzero",
          "Sha256": "sha256", "Sha512_256": "sha512_256", "Sha3_256": "sha3_256",
          "Keccak256": "keccak256", "Balance": "balance", "MinBalance": "min_balance"}
BIN_OPS = {"Add": "+", "Minus": "-", "Mul": "*", "Div": "/", "Mod": "%", "Exp": "exp", "Eq": "==",
           "Neq": "!=", "Lt": "<", "Le": "<=", "Gt": ">", "Ge": ">=", "BitwiseAnd": "&",
           "BitwiseOr": "|", "BitwiseXor": "^", "ShiftLeft": "shl", "ShiftRight": "shr",
           "GetBit": "getbit", "GetByte": "getbyte", "BytesAdd": "b+", "BytesMinus": "b-",
           "BytesDiv": "b/", "BytesMul": "b*", "BytesMod": "b%", "BytesAnd": "b&", "BytesOr": "b|",
           "BytesXor": "b^", "BytesEq": "b==", "BytesNeq": "b!=", "BytesLt": "b<", "BytesLe": "b<=",
           "BytesGt": "b>", "BytesGe": "b>=", "ExtractUint16": "extract_uint16",
           "ExtractUint32": "extract_uint32", "ExtractUint64": "extract_uint64",
           "And": "&&", "Or": "||", "Concat": "concat"}
TERN_OPS = {"SetBit": "setbit", "SetByte": "setbyte", "Divw": "divw"}


# written from the TEAL specification's named constants (not read from pyteal)
ENUMS = {"OnComplete": {"NoOp": 0, "OptIn": 1, "CloseOut": 2, "ClearState": 3, "UpdateApplication": 4,
                        "DeleteApplication": 5},
         "TxnType": {"Unknown": 0, "Payment": 1, "KeyRegistration": 2, "AssetConfig": 3, "AssetTransfer": 4,
                     "AssetFreeze": 5, "ApplicationCall": 6}}


def decode_based(base: str, text: str) -> bytes:
    """reference decoding of base16/base32/base64 literals (RFC 4648; padding optional for base32)"""
    import base64
    if base == "base16":
        t = text[2:] if text.startswith("0x") else text
        return bytes.fromhex(t)
    if base == "base32":
        t = text.rstrip("=")
        t += "=" * ((8 - len(t) % 8) % 8)
        return base64.b32decode(t)
    if base == "base64":
        return base64.b64decode(text)
    raise HarnessError("unknown base %r" % base)


class _Break(Exception):
    pass


class _Continue(Exception):
    pass


class _Return(Exception):
    def __init__(self, v):
        self.v = v


class _Exit(Exception):
    def __init__(self, v):
        self.v = v


class _Frame:
    def __init__(self, sub: Optional[str]):
        self.sub = sub
        self.params: Dict[str, Any] = {}
        self.locals: Dict[str, Any] = {}


def var_owners(rec) -> Dict[str, Any]:
    """variable -> routine that owns it (None = main) or '*' when used by several routines"""
    owners: Dict[str, Any] = {}

    def visit(e, who):
        if not isinstance(e, tuple):
            return
        if e and e[0] == "DynSet":
            owners[e[1]] = "*"
            owners[e[2]] = "*"
        if e and e[0] in ("Load", "Store", "Ref", "SlotIndex"):
            v = e[1]
            if v in owners and owners[v] != who:
                owners[v] = "*"
            elif v not in owners:
                owners[v] = who
        for c in e[1:]:
            if isinstance(c, tuple):
                visit(c, who)
            elif isinstance(c, list):
                for d in c:
                    visit(d, who)

    visit(rec["main"], None)
    for name, sd in rec.get("subs", {}).items():
        visit(sd["body"], name)
    # explicit-slot variables, and variables reached through DynamicScratchVar, are global cells
    for v, d in rec.get("vars", {}).items():
        if d.get("shared"):
            owners[v] = "*"
    return owners


class RefEval:
    def __init__(self, rec: Dict[str, Any], cfg: CtxConfig, bounds: Optional[Bounds] = None):
        self.rec = rec
        self.cfg = cfg
        self.bounds = bounds or Bounds()
        self.owners = var_owners(rec)

    # ------------------------------------------------------------------
    def run(self, path: Path) -> Outcome:
        self.path = path
        self.w = World(self.cfg, path)
        self.ops = Ops(self.cfg, path, self.w, self.bounds)
        self.globals: Dict[str, Any] = {}
        self.iters: Dict[int, int] = {}
        self.depth = 0
        fr = _Frame(None)
        try:
            v = self.ev(self.rec["main"], fr)
        except _Return as r:
            v = r.v
        except _Exit as x:
            v = x.v
        except (_Break, _Continue):
            raise HarnessError("Break/Continue outside loop in recipe")
        if not isinstance(v, U):
            raise HarnessError("main routine did not produce a uint64: %r" % (v,))
        return Outcome([], "return", ret=v, effects=list(path.effects),
                       extra={"globals": dict(self.globals), "locals": dict(fr.locals)})

    # ------------------------------------------------------------------
    def _cell(self, var: str, fr: _Frame):
        own = self.owners.get(var, None)
        if own == "*":
            return self.globals
        if own == fr.sub:
            return fr.locals
        raise HarnessError("variable %s used outside its owner" % var)

    def load(self, var, fr):
        d = self._cell(var, fr)
        if var not in d:
            if self.owners.get(var) == "*":
                return U(0)     # shared slot never written: AVM zero
            raise HarnessError("recipe reads local variable %s before writing it" % var)
        return d[var]

    def store(self, var, v, fr):
        self._cell(var, fr)[var] = v

    def truth(self, v) -> bool:
        if not isinstance(v, U):
            raise HarnessError("condition is not uint64")
        return self.path.branch(v.nz())

    # ------------------------------------------------------------------
    def ev(self, e, fr: _Frame):
        k = e[0]
        m = getattr(self, "ev_" + k, None)
        if m is None:
            raise HarnessError("unknown recipe form %s" % k)
        return m(e, fr)

    # leaves
    def ev_Int(self, e, fr):
        return U(e[1])

    def ev_Bytes(self, e, fr):
        return Bs(list(e[1]))

    def ev_BytesStr(self, e, fr):
        return Bs(list(e[1].encode("utf-8")))

    def ev_BytesBase(self, e, fr):
        return Bs(list(decode_based(e[1], e[2])))

    def ev_Addr(self, e, fr):
        from algosdk import encoding
        return Bs(list(encoding.decode_address(e[1])))

    def ev_MethodSig(self, e, fr):
        from Cryptodome.Hash import SHA512
        h = SHA512.new(truncate="256")
        h.update(e[1].encode("utf-8"))
        return Bs(list(h.digest()[:4]))

    def ev_EnumInt(self, e, fr):
        return U(ENUMS[e[1]][e[2]])

    def ev_TmplBytes(self, e, fr):
        if self.cfg.concrete is not None:
            return Bs(list(self.cfg.concrete.get(e[1], b"")))
        from ..avm.values import BytesSort
        return Ob(z3.Const(e[1], BytesSort))

    def ev_TmplAddr(self, e, fr):
        if self.cfg.concrete is not None:
            return Bs([int(self.cfg.concrete.get("%s#%d" % (e[1], i), 0)) for i in range(32)])
        return Bs([z3.BitVec("%s#%d" % (e[1], i), 8) for i in range(32)])

    def ev_TmplInt(self, e, fr):
        if self.cfg.concrete is not None:
            return U(int(self.cfg.concrete.get(e[1], 0)))
        return U(z3.BitVec(e[1], 64))

    def ev_AppArg(self, e, fr):
        return self.w.txn_field("ApplicationArgs", None, e[1])

    def _conc_index(self, u, limit: int, what: str) -> int:
        """a uint64 used as an index: fails above the limit, otherwise one path per feasible value"""
        if u.concrete:
            self.path.fail_if(u.e > limit, "range:" + what)
            return u.e
        self.path.fail_if(z3.UGT(u.e, z3.BitVecVal(limit, 64)), "range:" + what)
        return self.path.choose(limit + 1, [u.e == z3.BitVecVal(i, 64) for i in range(limit + 1)])

    def ev_AppArgRt(self, e, fr):
        i = self.ev(e[1], fr)
        return self.w.txn_field("ApplicationArgs", None, self._conc_index(i, 255, "txnas index"))

    def ev_LsigArgRt(self, e, fr):
        i = self.ev(e[1], fr)
        return self.w.arg(self._conc_index(i, 255, "args index"))

    def ev_GtxnRt(self, e, fr):
        g = self.ev(e[1], fr)
        return self.w.txn_field(e[2], self._conc_index(g, 15, "gtxns group index"))

    def ev_GtxnArgRt(self, e, fr):
        g = e[1] if isinstance(e[1], int) else None
        if g is None:
            g = self._conc_index(self.ev(e[1], fr), 15, "gtxnsas group index")
        i = e[2] if isinstance(e[2], int) else None
        if i is None:
            i = self._conc_index(self.ev(e[2], fr), 255, "gtxnsas index")
        return self.w.txn_field("ApplicationArgs", g, i)

    def ev_LsigArg(self, e, fr):
        return self.w.arg(e[1])

    def ev_Txn(self, e, fr):
        return self.w.txn_field(e[1])

    def ev_Gtxn(self, e, fr):
        return self.w.txn_field(e[2], e[1])

    def ev_Global(self, e, fr):
        return self.w.global_field(e[1])

    # operators
    def ev_Un(self, e, fr):
        x = self.ev(e[2], fr)
        if e[1] == "Pop":
            return None
        if e[1] == "Log":
            self.w.log(x)
            return None
        return self.ops.apply1(UN_OPS[e[1]], [], x)

    def ev_Bin(self, e, fr):
        x = self.ev(e[2], fr)
        y = self.ev(e[3], fr)
        return self.ops.apply1(BIN_OPS[e[1]], [], x, y)

    def ev_Nary(self, e, fr):
        acc = self.ev(e[2], fr)
        for c in e[3:]:
            y = self.ev(c, fr)
            acc = self.ops.apply1(BIN_OPS[e[1]], [], acc, y)
        return acc

    def ev_Tern(self, e, fr):
        x = self.ev(e[2], fr)
        y = self.ev(e[3], fr)
        z = self.ev(e[4], fr)
        if e[1] == "Substring":
            return self.ops._substring3(x, y, z)
        if e[1] == "Extract":
            return self.ops._extract3(x, y, z)
        if e[1] == "Replace":
            return self.ops.apply1("replace3", [], x, y, z)
        return self.ops.apply1(TERN_OPS[e[1]], [], x, y, z)

    def ev_WideRatio(self, e, fr):
        """floor(prod N / prod D); fails when a running product (left to right) needs more than 128
        bits, the denominator is 0 or the quotient needs more than 64 bits"""
        ns = [self.ev(c, fr) for c in e[1]]
        ds = [self.ev(c, fr) for c in e[2]]
        W = 256

        def prod(vs):
            if all(v.concrete for v in vs):
                acc = 1
                for v in vs:
                    acc *= v.e
                    if acc >= 1 << 128:
                        self.path.fail("arith:wide product overflow")
                return acc
            acc = None
            for v in vs:
                t = z3.ZeroExt(W - 64, v.z())
                acc = t if acc is None else acc * t
                self.path.fail_if(z3.UGE(acc, z3.BitVecVal(1 << 128, W)), "arith:wide product overflow")
            return acc
        n = prod(ns)
        d = prod(ds)
        if isinstance(n, int) and isinstance(d, int):
            if d == 0:
                self.path.fail("arith:wide division by zero")
            q = n // d
            if q >= 1 << 64:
                self.path.fail("arith:wide quotient overflow")
            return U(q)
        nz = z3.BitVecVal(n, W) if isinstance(n, int) else n
        dz = z3.BitVecVal(d, W) if isinstance(d, int) else d
        self.path.fail_if(dz == z3.BitVecVal(0, W), "arith:wide division by zero")
        q = z3.UDiv(nz, dz)
        self.path.fail_if(z3.UGE(q, z3.BitVecVal(1 << 64, W)), "arith:wide quotient overflow")
        return U(z3.Extract(63, 0, q))

    def ev_Suffix(self, e, fr):
        x = self.ev(e[1], fr)
        s = self.ev(e[2], fr)
        return self.ops._substring3(x, s, U(len(x)))

    # variables
    def ev_Load(self, e, fr):
        return self.load(e[1], fr)

    def ev_Store(self, e, fr):
        v = self.ev(e[2], fr)
        self.store(e[1], v, fr)
        return None

    def ev_DynSet(self, e, fr):
        self.globals["@" + e[1]] = e[2]
        return None

    def ev_DynLoad(self, e, fr):
        tgt = self.globals.get("@" + e[1])
        if tgt is None:
            raise HarnessError("dynamic variable used before set_index")
        return self.load(tgt, fr)

    def ev_DynStore(self, e, fr):
        v = self.ev(e[2], fr)
        tgt = self.globals.get("@" + e[1])
        if tgt is None:
            raise HarnessError("dynamic variable used before set_index")
        self.store(tgt, v, fr)
        return None

    def ev_SlotIndex(self, e, fr):
        d = self.rec["vars"][e[1]]
        if d.get("slot") is None:
            raise HarnessError("SlotIndex of an automatically numbered variable has no reference value")
        return U(d["slot"])

    def ev_Param(self, e, fr):
        return fr.params[e[1]]

    def ev_PLoad(self, e, fr):
        d, var = fr.params[e[1]]
        if var not in d:
            raise HarnessError("by-ref parameter read before write")
        return d[var]

    def ev_PStore(self, e, fr):
        v = self.ev(e[2], fr)
        d, var = fr.params[e[1]]
        d[var] = v
        return None

    # control
    def ev_Seq(self, e, fr):
        v = None
        for c in e[1:]:
            v = self.ev(c, fr)
        return v

    def ev_If(self, e, fr):
        c = self.ev(e[1], fr)
        if self.truth(c):
            return self.ev(e[2], fr)
        if len(e) > 3 and e[3] is not None:
            return self.ev(e[3], fr)
        return None

    def ev_IfChain(self, e, fr):
        # ('IfChain', [(c1, t1), (c2, t2), ...], else_or_None)
        for c, t in e[1]:
            if self.truth(self.ev(c, fr)):
                return self.ev(t, fr)
        if e[2] is not None:
            return self.ev(e[2], fr)
        return None

    def ev_Cond(self, e, fr):
        for c, v in e[1:]:
            if self.truth(self.ev(c, fr)):
                return self.ev(v, fr)
        self.path.fail("err")

    def _iter(self, e):
        k = id(e)
        self.iters[k] = self.iters.get(k, 0) + 1
        if self.iters[k] > self.bounds.loop_k:
            self.path.cut("loop")

    def ev_While(self, e, fr):
        while True:
            if not self.truth(self.ev(e[1], fr)):
                break
            try:
                self.ev(e[2], fr)
            except _Break:
                break
            except _Continue:
                pass
            self._iter(e)
        return None

    def ev_For(self, e, fr):
        self.ev(e[1], fr)
        while True:
            if not self.truth(self.ev(e[2], fr)):
                break
            try:
                self.ev(e[4], fr)
            except _Break:
                break
            except _Continue:
                pass
            self.ev(e[3], fr)
            self._iter(e)
        return None

    def ev_Break(self, e, fr):
        raise _Break()

    def ev_Continue(self, e, fr):
        raise _Continue()

    def ev_Assert(self, e, fr):
        for c in e[1:]:
            v = self.ev(c, fr)
            if not isinstance(v, U):
                raise HarnessError("assert on bytes")
            self.path.fail_if(b_not(v.nz()), "assert")
        return None

    def ev_AssertC(self, e, fr):
        return self.ev_Assert(("Assert",) + tuple(e[2:]), fr)

    def ev_Return(self, e, fr):
        v = self.ev(e[1], fr) if len(e) > 1 and e[1] is not None else None
        raise _Return(v)

    def ev_Approve(self, e, fr):
        raise _Exit(U(1))

    def ev_Reject(self, e, fr):
        raise _Exit(U(0))

    def ev_Err(self, e, fr):
        self.path.fail("err")

    # annotations (no semantics)
    def ev_Comment(self, e, fr):
        return self.ev(e[2], fr)

    def ev_Pragma(self, e, fr):
        return self.ev(e[1], fr)

    def ev_Nonce(self, e, fr):
        return self.ev(e[3], fr)

    # state
    def ev_GGet(self, e, fr):
        return self.w.global_get(self.ev(e[1], fr))

    def ev_GPut(self, e, fr):
        k = self.ev(e[1], fr)
        v = self.ev(e[2], fr)
        self.w.global_put(k, v)
        return None

    def ev_GDel(self, e, fr):
        self.w.global_del(self.ev(e[1], fr))
        return None

    def ev_LGet(self, e, fr):
        a = self.ev(e[1], fr)
        k = self.ev(e[2], fr)
        return self.w.local_get(a, k)

    def ev_LPut(self, e, fr):
        a = self.ev(e[1], fr)
        k = self.ev(e[2], fr)
        v = self.ev(e[3], fr)
        self.w.local_put(a, k, v)
        return None

    def ev_LDel(self, e, fr):
        a = self.ev(e[1], fr)
        k = self.ev(e[2], fr)
        self.w.local_del(a, k)
        return None

    def ev_MaybeSeq(self, e, fr):
        """('MaybeSeq', kind, args, body): evaluates the MaybeValue (its arguments left to
        right, then the lookup), binds (#has, #val) for ('MHas',) / ('MVal',) inside body"""
        kind = e[1]
        args = [self.ev(a, fr) for a in e[2]]
        if kind == "GGetEx":
            v, ex = self.w.global_get_ex(args[0], args[1])
        elif kind == "LGetEx":
            v, ex = self.w.local_get_ex(args[0], args[1], args[2])
        elif kind[0] == "maybe":
            # ('maybe', opname, fieldname, ty)
            v, ex = self.w.maybe(kind[1], kind[2], kind[3], args)
        else:
            raise HarnessError("unknown maybe kind %r" % (kind,))
        saved = fr.params.get("#maybe")
        fr.params["#maybe"] = (v, ex)
        try:
            return self.ev(e[3], fr)
        finally:
            fr.params["#maybe"] = saved

    def ev_MHas(self, e, fr):
        return fr.params["#maybe"][1]

    def ev_MVal(self, e, fr):
        return fr.params["#maybe"][0]

    # inner transactions
    def ev_Itxn(self, e, fr):
        getattr(self.w, "itxn_" + e[1].lower())()
        return None

    def ev_ItxnField(self, e, fr):
        v = self.ev(e[2], fr)
        self.w.itxn_field(e[1], v)
        return None

    # calls
    def ev_Call(self, e, fr):
        sd = self.rec["subs"][e[1]]
        nf = _Frame(e[1])
        for (p, a) in zip(sd["params"], e[2:]):
            kind, pname = p[0], p[1]
            if kind == "ref":
                # a is ('Ref', var)
                if a[0] == "PRef":
                    nf.params[pname] = fr.params[a[1]]
                elif a[0] != "Ref":
                    raise HarnessError("by-ref argument must be ('Ref', var)")
                else:
                    nf.params[pname] = (self._cell(a[1], fr), a[1])
            else:
                nf.params[pname] = self.ev(a, fr)
        self.depth += 1
        if self.depth > self.bounds.call_depth:
            self.path.cut("depth")
        try:
            try:
                v = self.ev(sd["body"], nf)
            except _Return as r:
                v = r.v
        finally:
            self.depth -= 1
        if sd["ret"] == "n":
            return None
        return v


def run_ref(rec, cfg: CtxConfig, eng, bounds: Optional[Bounds] = None) -> List[Outcome]:
    r = RefEval(rec, cfg, bounds)
    return eng.explore(r.run)
