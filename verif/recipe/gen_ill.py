"""Ill-typed source programs (C05, C02): each breaks one typing rule of the source language (a value
where none is expected, none where a value is expected, the wrong value type, a routine whose body
or Return does not deliver what it declares).  The compiler is expected to reject them; C05 only
speaks about ACCEPTED programs, so the check demands nothing when they are rejected - but whenever
one is accepted, the emitted program has to keep the stack/type discipline like any other."""
from typing import Any, Dict, List, Tuple

from .gen import Env, prog


def ill_family(mode: str, version: int) -> List[Tuple[str, Dict[str, Any], Dict[str, Any]]]:
    out = []
    e = Env(mode, version)
    P = ("Param", "n")
    U1, U2 = e.u(1), e.u(2)
    B1 = e.b(0)
    V = {"x": {"t": "u"}, "s": {"t": "b"}}

    def add(name, main, subs=None, vars=None):
        out.append(("ill:%s" % name, prog(mode, main, dict(vars or V), subs or {}), {}))

    def ret1():
        return ("Return", ("Int", 1))

    # ---- main routine
    add("seq-middle-value", ("Seq", ("Int", 7), ret1()))
    add("seq-middle-bytes", ("Seq", B1, ret1()))
    add("if-arms-differ", ("Seq", ("Un", "Pop", ("If", U1, ("Int", 1), B1)), ret1()))
    add("if-value-without-else", ("Seq", ("Un", "Pop", ("If", U1, ("Int", 1))), ret1()))
    add("if-none-arm-vs-value", ("Seq", ("Un", "Pop", ("If", U1, ("Int", 1), e.tag(1))), ret1()))
    add("if-condition-bytes", ("Seq", ("If", B1, e.tag(1)), ret1()))
    add("if-condition-none", ("Seq", ("If", e.tag(1), e.tag(2)), ret1()))
    add("while-body-value", ("Seq", ("While", U1, ("Seq", ("Int", 3), ("Break",))), ret1()))
    add("while-condition-bytes", ("Seq", ("While", B1, ("Break",)), ret1()))
    add("for-step-value", ("Seq", ("For", ("Store", "x", ("Int", 0)), ("Bin", "Lt", ("Load", "x"), U1), ("Int", 1), ("Break",)), ret1()))
    add("cond-arms-differ", ("Seq", ("Un", "Pop", ("Cond", (U1, ("Int", 1)), (U2, B1))), ret1()))
    add("cond-condition-bytes", ("Seq", ("Cond", (B1, e.tag(1)), (U2, e.tag(2))), ret1()))
    add("add-bytes-operand", ("Seq", ("Un", "Pop", ("Bin", "Add", B1, U1)), ret1()))
    add("len-of-uint", ("Seq", ("Un", "Pop", ("Un", "Len", U1)), ret1()))
    add("itob-of-bytes", ("Seq", ("Un", "Pop", ("Un", "Itob", B1)), ret1()))
    add("pop-of-none", ("Seq", ("Un", "Pop", e.tag(1)), ret1()))
    add("assert-bytes", ("Seq", ("Assert", B1), ret1()))
    add("assert-none", ("Seq", ("Assert", e.tag(1)), ret1()))
    add("store-bytes-in-uint-var", ("Seq", ("Store", "x", B1), ("Return", ("Load", "x"))))
    add("store-uint-in-bytes-var", ("Seq", ("Store", "s", U1), ("Return", ("Un", "Len", ("Load", "s")))))
    add("store-none", ("Seq", ("Store", "x", e.tag(1)), ("Return", ("Load", "x"))))
    add("return-bytes-from-main", ("Return", B1))
    add("return-none-from-main", ("Return", e.tag(1)))
    add("main-ends-with-value-less-if", ("If", U1, ret1()))
    add("concat-with-uint", ("Seq", ("Un", "Pop", ("Nary", "Concat", B1, U1)), ret1()))
    add("nary-and-with-bytes", ("Seq", ("Un", "Pop", ("Nary", "And", U1, B1)), ret1()))
    if mode == "A":
        add("gput-key-uint", ("Seq", ("GPut", U1, U2), ret1()))
        # an anytype-typed value where nothing is expected (App.globalGet is anytype)
        K = ("Bytes", b"k")
        add("seq-middle-anytype", ("Seq", ("GGet", K), ret1()))
        add("seq-middle-anytype-in-operand", ("Return", ("Bin", "Minus", ("Int", 10), ("Seq", ("If", U1, ("GGet", K)), ("Int", 3)))))
        add("if-arm-anytype", ("Seq", ("If", U1, ("GGet", K)), ret1()))
        add("while-body-anytype", ("Seq", ("While", U1, ("Seq", ("GGet", K))), ret1()))
        add("for-body-anytype", ("Seq", ("For", ("Store", "x", ("Int", 0)), ("Bin", "Lt", ("Load", "x"), U1), ("Store", "x", ("Bin", "Add", ("Load", "x"), ("Int", 1))), ("GGet", K)), ret1()))
    if mode == "A" and version >= 6:
        # ABI values set from an expression of the wrong type (main routine: scratch-backed; see the routine variants below)
        add("abi-uint64-from-bytes", ("Return", ("AbiTmp", "u64", B1)))
        add("abi-uint16-from-bytes", ("Return", ("AbiTmp", "u16", B1)))
        add("abi-string-from-uint", ("Return", ("Un", "Len", ("AbiTmp", "str", U1))))
        add("abi-bool-from-bytes", ("Return", ("AbiTmp", "bool", B1)))
    if mode == "A" and version >= 5:
        add("log-uint", ("Seq", ("Un", "Log", U1), ret1()))
    if version < 4:
        return out

    # ---- routines: what the body / a Return delivers against what the routine declares
    def sub(ret, body, params=(("val", "n"),)):
        return {"f": {"params": list(params), "ret": ret, "body": body}}

    callv = ("Return", ("Call", "f", U1))
    calln = ("Seq", ("Call", "f", U1), ret1())
    guard_bare = ("Seq", ("If", ("Un", "Not", P), ("Return",)), ("Return", ("Bin", "Add", P, ("Int", 1))))
    add("value-routine-bare-return-in-guard", callv, sub("u", guard_bare))
    add("value-routine-bare-return-in-guard-operand", ("Return", ("Bin", "Add", ("Int", 5), ("Call", "f", U1))), sub("u", guard_bare))
    add("value-routine-bare-return-only", callv, sub("u", ("Return",)))
    add("value-routine-none-body", callv, sub("u", e.tag(2)))
    add("value-routine-none-body-seq", callv, sub("u", ("Seq", ("Store", "x", P), e.tag(2))))
    add("value-routine-if-without-else", callv, sub("u", ("If", P, ("Return", ("Int", 1)))))
    add("value-routine-bytes-body", callv, sub("u", B1))
    add("value-routine-returns-bytes", callv, sub("u", ("Return", B1)))
    add("value-routine-returns-bytes-in-guard", callv, sub("u", ("Seq", ("If", ("Un", "Not", P), ("Return", B1)), ("Return", P))))
    add("bytes-routine-returns-uint", ("Return", ("Un", "Len", ("Call", "f", U1))), sub("b", ("Return", ("Bin", "Add", P, ("Int", 1)))))
    add("bytes-routine-bare-return-in-guard", ("Return", ("Un", "Len", ("Call", "f", U1))),
        sub("b", ("Seq", ("If", ("Un", "Not", P), ("Return",)), ("Return", ("Un", "Itob", P)))))
    add("none-routine-returns-value", calln, sub("n", ("Return", P)))
    add("none-routine-returns-value-in-guard", calln, sub("n", ("Seq", ("If", P, ("Return", ("Int", 1))), e.tag(2))))
    add("none-routine-value-body", calln, sub("n", ("Bin", "Add", P, ("Int", 1))))
    add("none-routine-used-as-value", ("Return", ("Call", "f", U1)), sub("n", e.tag(2)))
    add("value-routine-used-as-statement", calln, sub("u", ("Return", P)))
    add("value-routine-recursive-bare-return", callv,
        sub("u", ("Seq", ("If", ("Un", "Not", P), ("Return",)), ("Return", ("Bin", "Add", ("Int", 1), ("Call", "f", ("Bin", "Minus", P, ("Int", 1))))))))
    add("value-routine-bare-return-in-loop", callv,
        sub("u", ("Seq", ("While", P, ("Seq", ("Return",))), ("Return", ("Int", 2)))))
    if mode == "A" and version >= 6:
        # the same inside routines (frame-backed from version 8)
        add("routine-abi-uint64-from-bytes", callv, sub("u", ("Bin", "Add", ("AbiTmp", "u64", B1), P)))
        add("routine-abi-uint8-from-bytes", callv, sub("u", ("Bin", "Add", ("AbiTmp", "u8", B1), P)))
        add("routine-abi-string-from-uint", callv, sub("u", ("Un", "Len", ("AbiTmp", "str", ("Bin", "Add", P, ("Int", 1))))))
        add("abi-output-routine-abi-uint64-from-bytes", ("Return", ("Call", "f", U1)),
            {"f": {"params": [("val", "n")], "ret": "a", "body": ("Bin", "Add", ("AbiTmp", "u64", B1), P)}})
    if mode == "A" and version >= 6:
        add("abi-routine-bare-return-in-guard", ("Return", ("Call", "f", U1)),
            {"f": {"params": [("val", "n")], "ret": "a", "body": ("Seq", ("If", ("Un", "Not", P), ("Return",)), ("Bin", "Add", P, ("Int", 1)))}})
    return out
