"""Type-probe family (C05, C04): for every transaction/global field of the independent langspec
table, two probes - one that uses the field as a uint64, one that uses it as bytes.  PyTeal
accepts the probe that matches ITS declared type; the emitted code is then checked against the
langspec's type for that field."""
from typing import Any, Dict, List, Tuple

from ..teal import langspec as LS
from .gen import prog


def field_probes(mode: str, version: int, all_versions: bool = False):
    out = []
    for name, (mv, ty, arr) in sorted(LS.TXN_FIELDS.items()):
        if mv > version and not all_versions:
            continue
        if arr:
            if name == "ApplicationArgs":
                leaf = ("AppArg", 0)
            else:
                continue
        else:
            leaf = ("Txn", name)
        out.append(("field:txn:%s:asU" % name, prog(mode, ("Seq", ("Un", "Pop", ("Bin", "Add", leaf, ("Int", 1))), ("Return", ("Int", 1)))), {}))
        out.append(("field:txn:%s:asB" % name, prog(mode, ("Seq", ("Un", "Pop", ("Un", "Len", leaf)), ("Return", ("Int", 1)))), {}))
        if version >= 3 and not arr and mode == "A":
            g = ("Gtxn", 0, name)
            out.append(("field:gtxn:%s:asU" % name, prog(mode, ("Seq", ("Un", "Pop", ("Bin", "Add", g, ("Int", 1))), ("Return", ("Int", 1)))), {}))
            out.append(("field:gtxn:%s:asB" % name, prog(mode, ("Seq", ("Un", "Pop", ("Un", "Len", g)), ("Return", ("Int", 1)))), {}))
    for name, (mv, ty) in sorted(LS.GLOBAL_FIELDS.items()):
        if mv > version and not all_versions:
            continue
        if mode == "S" and name in LS.GLOBAL_APP_ONLY:
            continue
        leaf = ("Global", name)
        out.append(("field:global:%s:asU" % name, prog(mode, ("Seq", ("Un", "Pop", ("Bin", "Add", leaf, ("Int", 1))), ("Return", ("Int", 1)))), {}))
        out.append(("field:global:%s:asB" % name, prog(mode, ("Seq", ("Un", "Pop", ("Un", "Len", leaf)), ("Return", ("Int", 1)))), {}))
    return out


def maybe_probes(mode: str, version: int, all_versions: bool = False):
    """the same two probes for the value of every asset / application / account parameter lookup"""
    from .build import _MAYBE_NAMES
    out = []
    if mode != "A":
        return out
    groups = {"asset_holding_get": LS.ASSET_HOLDING_FIELDS, "asset_params_get": LS.ASSET_PARAMS_FIELDS,
              "app_params_get": LS.APP_PARAMS_FIELDS, "acct_params_get": LS.ACCT_PARAMS_FIELDS}
    for op, fields in groups.items():
        nargs = _MAYBE_NAMES[op][1]
        for name, (mv, ty) in sorted(fields.items()):
            if name not in _MAYBE_NAMES[op][2]:
                continue
            if max(mv, LS.OPS[op].minv) > version and not all_versions:
                continue
            args = (("Int", 0), ("Txn", "Fee")) if nargs == 2 else (("Txn", "Fee"),)
            if op == "acct_params_get":
                args = (("Txn", "Sender"),)
            kind = ("maybe", op, name, ty)
            out.append(("field:%s:%s:asU" % (op, name), prog(mode, ("MaybeSeq", kind, args, ("Seq", ("Un", "Pop", ("Bin", "Add", ("MVal",), ("Int", 1))), ("Return", ("MHas",))))), {}))
            out.append(("field:%s:%s:asB" % (op, name), prog(mode, ("MaybeSeq", kind, args, ("Seq", ("Un", "Pop", ("Un", "Len", ("MVal",))), ("Return", ("MHas",))))), {}))
    return out
