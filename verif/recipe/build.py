"""Recipe -> PyTeal AST, through the public constructors exactly as a user would write them.

Recipe forms (nested tuples; a program recipe is a dict
  {"mode": "A"|"S", "vars": {name: {"t": "u"|"b"|"a", "slot": int|None, "shared": bool}},
   "subs": {name: {"params": [(kind, pname)], "ret": "n"|"u"|"b", "body": recipe, "name": str|None}},
   "main": recipe})

 leaves   ("Int", n) ("Bytes", b) ("TmplInt", "TMPL_X") ("AppArg", i) ("LsigArg", i) ("Txn", Field)
          ("Gtxn", g, Field) ("Global", Field)
 ops      ("Un", Name, x) ("Bin", Name, x, y) ("Nary", Name, x...) ("Tern", Name, x, y, z) ("Suffix", s, i)
 vars     ("Load", v) ("Store", v, e) ("Param", p) ("PLoad", p) ("PStore", p, e) ("Ref", v)
 control  ("Seq", e...) ("If", c, t[, e]) ("IfChain", [(c, t)...], else|None) ("Cond", (c, v)...)
          ("While", c, body) ("For", init, c, step, body) ("Break",) ("Continue",)
          ("Assert", c...) ("AssertC", comment, c...) ("Return"[, e]) ("Approve",) ("Reject",) ("Err",)
 state    ("GGet", k) ("GPut", k, v) ("GDel", k) ("LGet", a, k) ("LPut", a, k, v) ("LDel", a, k)
          ("MaybeSeq", kind, [args], body) with ("MHas",) ("MVal",) inside body
 itxn     ("Itxn", "Begin"|"Next"|"Submit") ("ItxnField", Field, e)
 calls    ("Call", sub, arg...)
 notes    ("Comment", text, e) ("Pragma", e, versionspec) ("Nonce", base, text, e)
"""
from typing import Any, Dict, List, Optional

import pyteal as pt

from ..avm.engine import HarnessError

_T = {"u": pt.TealType.uint64, "b": pt.TealType.bytes, "a": pt.TealType.anytype, "n": pt.TealType.none}
# (for subroutines, ret "a" means an ABIReturnSubroutine with an abi.Uint64 output)

_TXN_FIELD_BY_NAME = {f.arg_name: f for f in pt.TxnField}
_GLOBAL_BY_NAME = {f.arg_name: f for f in pt.GlobalField}


def reset_pyteal_state():
    """process-global state of pyteal that a failed compilation may leave behind"""
    from pyteal.ast.subroutine import SubroutineEval
    try:
        SubroutineEval._current_proto = None
    except Exception:
        pass


class Builder:
    def __init__(self, rec: Dict[str, Any]):
        self.rec = rec
        self.vars: Dict[str, pt.ScratchVar] = {}
        self.subs: Dict[str, Any] = {}
        self._maybe_stack: List[Any] = []
        self.load_sites: Dict[int, Any] = {}
        self._keep: List[Any] = []
        for name, d in rec.get("vars", {}).items():
            if d.get("dyn"):
                self.vars[name] = pt.DynamicScratchVar(_T[d.get("t", "u")])
            else:
                self.vars[name] = pt.ScratchVar(_T[d.get("t", "u")], d.get("slot"))
        for name in rec.get("subs", {}):
            self._declare_sub(name)

    # ------------------------------------------------------------------
    def _declare_sub(self, name: str):
        sd = self.rec["subs"][name]
        params = sd["params"]
        builder = self

        def body_fn(*args):
            env = {}
            for (p, a) in zip(params, args):
                env[p[1]] = a
            return builder.b(sd["body"], env)

        ann = {"val": "Expr", "ref": "ScratchVar", "abi": "AbiU64"}
        plist = ", ".join("%s: %s" % (p[1], ann[p[0]]) for p in params)
        alist = ", ".join(p[1] for p in params)
        pyname = sd.get("pyname") or name
        g = {"Expr": pt.Expr, "ScratchVar": pt.ScratchVar, "AbiU64": pt.abi.Uint64, "__body": body_fn}
        if sd["ret"] == "a":
            # ABIReturnSubroutine with an abi.Uint64 output: the recipe body is a uint64-valued expression
            def body_out(*args, output=None):
                return output.set(body_fn(*args))
            g["__body"] = body_out
            src = "def %s(%s*, output: AbiU64) -> Expr:\n    return __body(%soutput=output)\n" % (
                pyname, (plist + ", ") if plist else "", (alist + ", ") if alist else "")
            exec(src, g)
            self.subs[name] = pt.ABIReturnSubroutine(g[pyname])
            return
        src = "def %s(%s) -> Expr:\n    return __body(%s)\n" % (pyname, plist, alist)
        exec(src, g)
        fn = g[pyname]
        if sd.get("name") is not None:
            self.subs[name] = pt.Subroutine(_T[sd["ret"]], name=sd["name"])(fn)
        else:
            self.subs[name] = pt.Subroutine(_T[sd["ret"]])(fn)

    def main(self) -> pt.Expr:
        return self.b(self.rec["main"], {})

    # ------------------------------------------------------------------
    def b(self, e, env) -> pt.Expr:
        k = e[0]
        m = getattr(self, "b_" + k, None)
        if m is None:
            raise HarnessError("unknown recipe form %s" % k)
        return m(e, env)

    def b_Int(self, e, env):
        return pt.Int(e[1])

    def b_Bytes(self, e, env):
        return pt.Bytes(bytes(e[1]))

    def b_BytesStr(self, e, env):
        return pt.Bytes(e[1])

    def b_BytesBase(self, e, env):
        return pt.Bytes(e[1], e[2])

    def b_Addr(self, e, env):
        return pt.Addr(e[1])

    def b_MethodSig(self, e, env):
        return pt.MethodSignature(e[1])

    def b_EnumInt(self, e, env):
        return getattr(getattr(pt, e[1]), e[2])

    def b_TmplBytes(self, e, env):
        return pt.Tmpl.Bytes(e[1])

    def b_TmplAddr(self, e, env):
        return pt.Tmpl.Addr(e[1])

    def b_TmplInt(self, e, env):
        return pt.Tmpl.Int(e[1])

    def b_AppArg(self, e, env):
        return pt.Txn.application_args[e[1]]

    def b_LsigArg(self, e, env):
        return pt.Arg(e[1])

    # run-time indices (txnas / args / gtxns forms)
    def b_AppArgRt(self, e, env):
        return pt.Txn.application_args[self.b(e[1], env)]

    def b_LsigArgRt(self, e, env):
        return pt.Arg(self.b(e[1], env))

    def b_GtxnRt(self, e, env):
        return _txn_getter(pt.Gtxn[self.b(e[1], env)], e[2])

    def b_GtxnArgRt(self, e, env):
        """("GtxnArgRt", group index expr | int, arg index expr | int)"""
        g = e[1] if isinstance(e[1], int) else self.b(e[1], env)
        i = e[2] if isinstance(e[2], int) else self.b(e[2], env)
        return pt.Gtxn[g].application_args[i]

    def b_Txn(self, e, env):
        return _txn_getter(pt.Txn, e[1])

    def b_Gtxn(self, e, env):
        return _txn_getter(pt.Gtxn[e[1]], e[2])

    def b_Global(self, e, env):
        return _global_getter(e[1])

    def b_Un(self, e, env):
        return getattr(pt, e[1])(self.b(e[2], env))

    def b_Bin(self, e, env):
        return getattr(pt, e[1])(self.b(e[2], env), self.b(e[3], env))

    def b_Nary(self, e, env):
        return getattr(pt, e[1])(*[self.b(c, env) for c in e[2:]])

    def b_Tern(self, e, env):
        return getattr(pt, e[1])(self.b(e[2], env), self.b(e[3], env), self.b(e[4], env))

    def b_PyCall(self, e, env):
        """("PyCall", "Dotted.name", arg...) - any other public constructor, used by the legality probes only;
        an argument ("PyAttr", "Dotted.name") is passed as the attribute itself (enum members)"""
        obj = pt
        for part in e[1].split("."):
            obj = getattr(obj, part)
        args = []
        for a in e[2:]:
            if isinstance(a, tuple) and a and a[0] == "PyAttr":
                x = pt
                for part in a[1].split("."):
                    x = getattr(x, part)
                args.append(x)
            elif isinstance(a, tuple) and a and a[0] == "PyTuple":
                args.append(tuple(self.b(x, env) for x in a[1:]))
            elif isinstance(a, tuple) and a and a[0] == "PyInt":
                args.append(int(a[1]))          # a Python int argument (slot ids, constant indices)
            else:
                args.append(self.b(a, env))
        return obj(*args)

    def b_MultiSeq(self, e, env):
        """("MultiSeq", multivalue-recipe, body): evaluates a MultiValue / MaybeValue and then the body"""
        mv = self.b(e[1], env)
        self._maybe_stack.append(mv)
        try:
            body = self.b(e[2], env)
        finally:
            self._maybe_stack.pop()
        return pt.Seq(mv, body)

    def b_WideRatio(self, e, env):
        return pt.WideRatio([self.b(c, env) for c in e[1]], [self.b(c, env) for c in e[2]])

    def b_Suffix(self, e, env):
        return pt.Suffix(self.b(e[1], env), self.b(e[2], env))

    def b_Load(self, e, env):
        x = self.vars[e[1]].load()
        if len(e) > 2:
            # site tag (C17): lets a compile error's sourceExpr be mapped back to the recipe
            self.load_sites[id(x)] = (e[1], e[2])
            self._keep.append(x)
        return x

    def b_Store(self, e, env):
        return self.vars[e[1]].store(self.b(e[2], env))

    def b_DynSet(self, e, env):
        return self.vars[e[1]].set_index(self.vars[e[2]])

    def b_DynLoad(self, e, env):
        return self.vars[e[1]].load()

    def b_DynStore(self, e, env):
        return self.vars[e[1]].store(self.b(e[2], env))

    def b_SlotIndex(self, e, env):
        return self.vars[e[1]].index()

    # scratch access through a computed slot number (TEAL-vs-TEAL families only: no reference semantics)
    def b_LoadAt(self, e, env):
        return pt.ScratchLoad(slot=None, type=pt.TealType.anytype, index_expression=self.b(e[1], env))

    def b_StoreAt(self, e, env):
        return pt.ScratchStore(None, self.b(e[2], env), index_expression=self.b(e[1], env))

    def b_Param(self, e, env):
        v = env[e[1]]
        if isinstance(v, pt.abi.BaseType):
            return v.get()
        return v

    def b_PLoad(self, e, env):
        return env[e[1]].load()

    def b_PStore(self, e, env):
        return env[e[1]].store(self.b(e[2], env))

    def b_Seq(self, e, env):
        return pt.Seq(*[self.b(c, env) for c in e[1:]])

    def b_If(self, e, env):
        if len(e) > 3 and e[3] is not None:
            return pt.If(self.b(e[1], env), self.b(e[2], env), self.b(e[3], env))
        return pt.If(self.b(e[1], env), self.b(e[2], env))

    def b_IfChain(self, e, env):
        arms = e[1]
        x = pt.If(self.b(arms[0][0], env)).Then(self.b(arms[0][1], env))
        for c, t in arms[1:]:
            x = x.ElseIf(self.b(c, env)).Then(self.b(t, env))
        if e[2] is not None:
            x = x.Else(self.b(e[2], env))
        return x

    def b_Cond(self, e, env):
        return pt.Cond(*[[self.b(c, env), self.b(v, env)] for c, v in e[1:]])

    def b_While(self, e, env):
        return pt.While(self.b(e[1], env)).Do(self.b(e[2], env))

    def b_For(self, e, env):
        return pt.For(self.b(e[1], env), self.b(e[2], env), self.b(e[3], env)).Do(self.b(e[4], env))

    def b_Break(self, e, env):
        return pt.Break()

    def b_Continue(self, e, env):
        return pt.Continue()

    def b_Assert(self, e, env):
        return pt.Assert(*[self.b(c, env) for c in e[1:]])

    def b_AssertC(self, e, env):
        return pt.Assert(*[self.b(c, env) for c in e[2:]], comment=e[1])

    def b_Return(self, e, env):
        if len(e) > 1 and e[1] is not None:
            return pt.Return(self.b(e[1], env))
        return pt.Return()

    def b_Approve(self, e, env):
        return pt.Approve()

    def b_Reject(self, e, env):
        return pt.Reject()

    def b_Err(self, e, env):
        return pt.Err()

    def b_Comment(self, e, env):
        return pt.Comment(e[1], self.b(e[2], env))

    def b_Pragma(self, e, env):
        return pt.Pragma(self.b(e[1], env), compiler_version=e[2])

    def b_Nonce(self, e, env):
        return pt.Nonce(e[1], e[2], self.b(e[3], env))

    def b_AbiTmp(self, e, env):
        """("AbiTmp", kind, expr): a fresh ABI value of the kind set from expr, then read back (u64/u16/u8 -> uint64, str/addr -> bytes)"""
        ctor = {"u64": pt.abi.Uint64, "u16": pt.abi.Uint16, "u8": pt.abi.Uint8, "bool": pt.abi.Bool, "str": pt.abi.String, "addr": pt.abi.Address}[e[1]]
        x = ctor()
        return pt.Seq(x.set(self.b(e[2], env)), x.get())

    def b_GGet(self, e, env):
        return pt.App.globalGet(self.b(e[1], env))

    def b_GPut(self, e, env):
        return pt.App.globalPut(self.b(e[1], env), self.b(e[2], env))

    def b_GDel(self, e, env):
        return pt.App.globalDel(self.b(e[1], env))

    def b_LGet(self, e, env):
        return pt.App.localGet(self.b(e[1], env), self.b(e[2], env))

    def b_LPut(self, e, env):
        return pt.App.localPut(self.b(e[1], env), self.b(e[2], env), self.b(e[3], env))

    def b_LDel(self, e, env):
        return pt.App.localDel(self.b(e[1], env), self.b(e[2], env))

    def b_MaybeSeq(self, e, env):
        kind = e[1]
        args = [self.b(a, env) for a in e[2]]
        if kind == "GGetEx":
            mv = pt.App.globalGetEx(*args)
        elif kind == "LGetEx":
            mv = pt.App.localGetEx(*args)
        elif kind[0] == "maybe":
            mv = _MAYBE_CTORS[(kind[1], kind[2])](*args)
        else:
            raise HarnessError("unknown maybe kind %r" % (kind,))
        self._maybe_stack.append(mv)
        try:
            body = self.b(e[3], env)
        finally:
            self._maybe_stack.pop()
        return pt.Seq(mv, body)

    def b_MHas(self, e, env):
        return self._maybe_stack[-1].hasValue()

    def b_MVal(self, e, env):
        return self._maybe_stack[-1].value()

    def b_Itxn(self, e, env):
        return getattr(pt.InnerTxnBuilder, e[1])()

    def b_ItxnField(self, e, env):
        return pt.InnerTxnBuilder.SetField(_TXN_FIELD_BY_NAME[e[1]], self.b(e[2], env))

    def b_Call(self, e, env):
        sd = self.rec["subs"][e[1]]
        args = []
        pre = []
        # an ABI-typed argument has to be set() before the call; to keep the arguments' evaluation order
        # left to right, by-value arguments of the same call are then evaluated into temporaries as well
        hoist = any(p[0] == "abi" for p in sd["params"])
        for p, a in zip(sd["params"], e[2:]):
            if p[0] == "ref":
                if a[0] == "Ref":
                    args.append(self.vars[a[1]])
                elif a[0] == "PRef":
                    args.append(env[a[1]])
                else:
                    raise HarnessError("by-ref argument must be ('Ref', var)")
            elif p[0] == "abi":
                x = pt.abi.Uint64()
                pre.append(x.set(self.b(a, env)))
                args.append(x)
            elif hoist:
                tmpv = pt.ScratchVar(pt.TealType.anytype)
                pre.append(tmpv.store(self.b(a, env)))
                args.append(tmpv.load())
            else:
                args.append(self.b(a, env))
        call = self.subs[e[1]](*args)
        if sd["ret"] == "a":
            tmp = pt.abi.Uint64()
            call = pt.Seq(call.store_into(tmp), tmp.get())
        if pre:
            return pt.Seq(*pre, call)
        return call


def _txn_getter(obj, fieldname: str):
    f = _TXN_FIELD_BY_NAME[fieldname]
    # public accessor has the snake_case name of the enum member
    return getattr(obj, f.name)()


def _global_getter(fieldname: str):
    f = _GLOBAL_BY_NAME[fieldname]
    return getattr(pt.Global, f.name)()


# TEAL field name -> the public accessor (by the naming rule of the API, written out once here)
_MAYBE_NAMES = {
    "asset_holding_get": ("AssetHolding", 2, {"AssetBalance": "balance", "AssetFrozen": "frozen"}),
    "asset_params_get": ("AssetParam", 1, {"AssetTotal": "total", "AssetDecimals": "decimals", "AssetDefaultFrozen": "defaultFrozen",
                                           "AssetUnitName": "unitName", "AssetName": "name", "AssetURL": "url", "AssetMetadataHash": "metadataHash",
                                           "AssetManager": "manager", "AssetReserve": "reserve", "AssetFreeze": "freeze", "AssetClawback": "clawback",
                                           "AssetCreator": "creator"}),
    "app_params_get": ("AppParam", 1, {"AppApprovalProgram": "approvalProgram", "AppClearStateProgram": "clearStateProgram",
                                       "AppGlobalNumUint": "globalNumUint", "AppGlobalNumByteSlice": "globalNumByteSlice",
                                       "AppLocalNumUint": "localNumUint", "AppLocalNumByteSlice": "localNumByteSlice",
                                       "AppExtraProgramPages": "extraProgramPages", "AppCreator": "creator", "AppAddress": "address"}),
    "acct_params_get": ("AccountParam", 1, {"AcctBalance": "balance", "AcctMinBalance": "minBalance", "AcctAuthAddr": "authAddr",
                                            "AcctTotalNumUint": "totalNumUint", "AcctTotalNumByteSlice": "totalNumByteSlice",
                                            "AcctTotalExtraAppPages": "totalExtraAppPages", "AcctTotalAppsCreated": "totalAppsCreated",
                                            "AcctTotalAppsOptedIn": "totalAppsOptedIn", "AcctTotalAssetsCreated": "totalAssetsCreated",
                                            "AcctTotalAssets": "totalAssets", "AcctTotalBoxes": "totalBoxes", "AcctTotalBoxBytes": "totalBoxBytes"}),
}


class _MaybeCtors(dict):
    def __missing__(self, key):
        op, field = key
        cls, nargs, names = _MAYBE_NAMES[op]
        fn = getattr(getattr(pt, cls), names[field])
        self[key] = fn
        return fn


_MAYBE_CTORS = _MaybeCtors()


def compile_recipe(rec: Dict[str, Any], version: int, optimize: Optional[Dict[str, Any]] = None,
                   assemble_constants: bool = False) -> str:
    """recipe -> TEAL text with the real compiler (public entry point)."""
    reset_pyteal_state()
    import sys
    saved = sys.getrecursionlimit()
    if any(sd.get("ret") == "a" for sd in rec.get("subs", {}).values()):
        # a recursive ABIReturnSubroutine is evaluated re-entrantly by ReturnedValue.store_into until Python's
        # recursion limit stops it (pyteal/ast/abi/type.py "HANG NOTE"); with the raised limit the workers use
        # for long programs that takes minutes, so these recipes are built under the interpreter's default limit
        sys.setrecursionlimit(1000)
    try:
        b = Builder(rec)
        ast = b.main()
        mode = pt.Mode.Application if rec.get("mode", "A") == "A" else pt.Mode.Signature
        kw = {}
        if optimize is not None:
            okw = {k: v for k, v in optimize.items() if not k.startswith("_")}
            kw["optimize"] = pt.OptimizeOptions(**okw)
            if optimize.get("_reused"):
                # the SAME options object has already been used for another program (as Router.compile_program and an
                # approval / clear-state pair do): one with an explicitly numbered and an index-taken variable
                r7 = pt.ScratchVar(pt.TealType.uint64, 7)
                dv = pt.DynamicScratchVar(pt.TealType.uint64)
                ov = pt.ScratchVar(pt.TealType.uint64)
                primer = pt.Seq(r7.store(pt.Int(1)), ov.store(r7.load()), dv.set_index(ov), pt.Return(dv.load() + r7.load()))
                pt.compileTeal(primer, mode, version=version, optimize=kw["optimize"])
        return pt.compileTeal(ast, mode, version=version, assembleConstants=assemble_constants, **kw)
    finally:
        sys.setrecursionlimit(saved)
