"""Legality probes (C04): one small program per public operator / field / construct, compiled at
EVERY version 2..10 in BOTH modes regardless of where the construct exists.  Where the target lacks
the construct PyTeal must raise; whatever it emits must pass the independent front-end."""
from typing import Any, Dict, List, Tuple

from ..teal import langspec as LS
from . import gen
from .gen import prog

U0, U1, U2 = ("Txn", "Fee"), ("Txn", "Amount"), ("Txn", "FirstValid")
B0, B1 = ("Txn", "Note"), ("Txn", "Lease")


def ret_u(e):
    return ("Return", e)


def ret_b(e):
    return ("Return", ("Un", "Len", e))


def op_probes(mode: str) -> List[Tuple[str, Dict[str, Any]]]:
    out = []

    def add(name, main, vars=None, subs=None):
        out.append(("legal:" + name, prog(mode, main, vars or {}, subs or {})))

    for name, _ in gen.U_BIN:
        add(name, ret_u(("Bin", name, U0, U1)))
    for name, _ in gen.U_UN:
        add(name, ret_u(("Un", name, U0)))
    for name, _ in gen.B_BIN_B:
        add(name, ret_b(("Bin", name, B0, B1)))
    for name, _ in gen.B_BIN_U:
        add(name, ret_u(("Bin", name, B0, B1)))
    for name, _ in gen.HASHES:
        add(name, ret_b(("Un", name, B0)))
    add("BytesNot", ret_b(("Un", "BytesNot", B0)))
    add("BytesZero", ret_b(("Un", "BytesZero", U0)))
    add("BytesSqrt", ret_b(("Un", "BytesSqrt", B0)))
    add("BitLen", ret_u(("Un", "BitLen", B0)))
    add("Itob", ret_b(("Un", "Itob", U0)))
    add("Btoi", ret_u(("Un", "Btoi", B0)))
    add("Concat", ret_b(("Nary", "Concat", B0, B1)))
    for (s, t) in [(0, 1), (1, 3), (0, 255), (0, 256), (255, 256), (100, 300), (255, 257), (256, 257), (300, 600)]:
        add("Substring:%d,%d" % (s, t), ret_b(("Tern", "Substring", B0, ("Int", s), ("Int", t))))
        add("Extract:%d,%d" % (s, t - s), ret_b(("Tern", "Extract", B0, ("Int", s), ("Int", t - s))))
    for s in (0, 1, 255, 256, 300):
        add("Suffix:%d" % s, ret_b(("Suffix", B0, ("Int", s))))
        add("Extract:%d,0" % s, ret_b(("Tern", "Extract", B0, ("Int", s), ("Int", 0))))
    add("Substring:rt", ret_b(("Tern", "Substring", B0, U0, U1)))
    add("Extract:rt", ret_b(("Tern", "Extract", B0, U0, U1)))
    add("Suffix:rt", ret_b(("Suffix", B0, U0)))
    add("GetBit", ret_u(("Bin", "GetBit", B0, U0)))
    add("GetByte", ret_u(("Bin", "GetByte", B0, U0)))
    add("SetBit", ret_b(("Tern", "SetBit", B0, U0, U1)))
    add("SetByte", ret_b(("Tern", "SetByte", B0, U0, U1)))
    for nm in ("ExtractUint16", "ExtractUint32", "ExtractUint64"):
        add(nm, ret_u(("Bin", nm, B0, U0)))
    add("Divw", ret_u(("Tern", "Divw", U0, U1, U2)))
    add("Replace:rt", ret_b(("Tern", "Replace", B0, U0, B1)))
    add("Replace:c", ret_b(("Tern", "Replace", B0, ("Int", 1), B1)))
    add("Replace:c300", ret_b(("Tern", "Replace", B0, ("Int", 300), B1)))
    add("WideRatio", ret_u(("WideRatio", (U0, U1), (U2,))))
    add("Log", ("Seq", ("Un", "Log", B0), ("Return", ("Int", 1))))
    add("Balance", ret_u(("Un", "Balance", ("Int", 0))))
    add("MinBalance", ret_u(("Un", "MinBalance", ("Int", 0))))
    K = ("Bytes", b"k")
    add("GGet", ret_u(("GGet", K)))
    add("GPut", ("Seq", ("GPut", K, U0), ("Return", ("Int", 1))))
    add("GDel", ("Seq", ("GDel", K), ("Return", ("Int", 1))))
    add("LGet", ret_u(("LGet", ("Int", 0), K)))
    add("LPut", ("Seq", ("LPut", ("Int", 0), K, U0), ("Return", ("Int", 1))))
    add("LDel", ("Seq", ("LDel", ("Int", 0), K), ("Return", ("Int", 1))))
    add("GGetEx", ("MaybeSeq", "GGetEx", (("Int", 0), K), ("Return", ("MHas",))))
    add("LGetEx", ("MaybeSeq", "LGetEx", (("Int", 0), ("Int", 0), K), ("Return", ("MHas",))))
    for kind in [("maybe", "asset_holding_get", "AssetBalance", "U"), ("maybe", "asset_holding_get", "AssetFrozen", "U")]:
        add("Maybe:%s" % kind[2], ("MaybeSeq", kind, (("Int", 0), U0), ("Return", ("MHas",))))
    for kind in [("maybe", "asset_params_get", "AssetTotal", "U"), ("maybe", "asset_params_get", "AssetName", "B"),
                 ("maybe", "asset_params_get", "AssetManager", "B"), ("maybe", "app_params_get", "AppGlobalNumUint", "U"),
                 ("maybe", "app_params_get", "AppAddress", "B"), ("maybe", "acct_params_get", "AcctBalance", "U")]:
        add("Maybe:%s" % kind[2], ("MaybeSeq", kind, (U0,), ("Return", ("MHas",))))
    add("Itxn", ("Seq", ("Itxn", "Begin"), ("ItxnField", "TypeEnum", ("Int", 1)), ("ItxnField", "Amount", U0), ("Itxn", "Submit"), ("Return", ("Int", 1))))
    add("ItxnNext", ("Seq", ("Itxn", "Begin"), ("ItxnField", "TypeEnum", ("Int", 1)), ("Itxn", "Next"), ("ItxnField", "TypeEnum", ("Int", 1)),
                     ("Itxn", "Submit"), ("Return", ("Int", 1))))
    for f in sorted(LS.TXN_FIELDS):
        if f in LS.ITXN_NOT_SETTABLE:
            continue
        ty = LS.TXN_FIELDS[f][1]
        add("ItxnField:%s" % f, ("Seq", ("Itxn", "Begin"), ("ItxnField", f, U0 if ty == "U" else B0), ("Itxn", "Submit"), ("Return", ("Int", 1))))
    for i in (0, 1, 15, 16, 17, 255, 256):
        add("Gtxn:%d" % i, ret_u(("Gtxn", i, "Amount")))
    for i in (0, 15, 16):
        add("GtxnArg:%d" % i, ret_b(("GtxnArgRt", i, 0)))
    for i in (0, 1, 255, 256):
        add("AppArg:%d" % i if i else "AppArg", ret_b(("AppArg", i)))
    add("LsigArg", ret_b(("LsigArg", 0)))
    for i in (255, 256, 257):
        add("LsigArg:%d" % i, ret_b(("LsigArg", i)))
    # explicitly numbered scratch variables at the ends of the range
    for sid in (0, 255, 256, 300):
        add("ScratchVar:slot%d" % sid, ("Seq", ("Store", "sv", U0), ("Return", ("Load", "sv"))), {"sv": {"t": "u", "slot": sid}})
    # remaining public operators, through the generic constructor form
    def C(name, *args):
        return ("PyCall", name) + args
    B32 = ("Txn", "Sender")
    add("Ed25519Verify", ret_u(C("Ed25519Verify", B0, B1, B32)))
    add("Ed25519Verify_Bare", ret_u(C("Ed25519Verify_Bare", B0, B1, B32)))
    for curve in ("Secp256k1", "Secp256r1"):
        cv = ("PyAttr", "EcdsaCurve." + curve)
        add("EcdsaVerify:" + curve, ret_u(C("EcdsaVerify", cv, B0, B1, B1, ("PyTuple", B0, B1))))
        add("EcdsaDecompress:" + curve, ("MultiSeq", C("EcdsaDecompress", cv, B0), ("Return", ("Int", 1))))
        add("EcdsaRecover:" + curve, ("MultiSeq", C("EcdsaRecover", cv, B0, U0, B1, B1), ("Return", ("Int", 1))))
    add("Block.seed", ret_b(C("Block.seed", U0)))
    add("Block.timestamp", ret_u(C("Block.timestamp", U0)))
    for f in ("bonus", "branch", "fee_sink", "fees_collected", "proposer", "proposer_payout", "protocol", "txn_counter"):
        add("Block." + f, ("Seq", ("Un", "Pop", C("Block." + f, U0)), ("Return", ("Int", 1))))
    add("JsonRef.as_uint64", ret_u(C("JsonRef.as_uint64", B0, B1)))
    add("JsonRef.as_string", ret_b(C("JsonRef.as_string", B0, B1)))
    add("JsonRef.as_object", ret_b(C("JsonRef.as_object", B0, B1)))
    add("Base64Decode.std", ret_b(C("Base64Decode.std", B0)))
    add("Base64Decode.url", ret_b(C("Base64Decode.url", B0)))
    add("VrfVerify.algorand", ("MultiSeq", C("VrfVerify.algorand", B0, B1, B32), ("Return", ("Int", 1))))
    add("BoxCreate", ret_u(C("App.box_create", B0, U0)))
    add("BoxDelete", ret_u(C("App.box_delete", B0)))
    add("BoxExtract", ret_b(C("App.box_extract", B0, U0, U1)))
    add("BoxReplace", ("Seq", C("App.box_replace", B0, U0, B1), ("Return", ("Int", 1))))
    add("BoxLen", ("MultiSeq", C("App.box_length", B0), ("Return", ("MHas",))))
    add("BoxGet", ("MultiSeq", C("App.box_get", B0), ("Return", ("MHas",))))
    add("BoxPut", ("Seq", C("App.box_put", B0, B1), ("Return", ("Int", 1))))
    add("BoxSplice", ("Seq", C("App.box_splice", B0, U0, U1, B1), ("Return", ("Int", 1))))
    add("BoxResize", ("Seq", C("App.box_resize", B0, U0), ("Return", ("Int", 1))))
    for curve in ("BN254g1", "BN254g2", "BLS12_381g1", "BLS12_381g2"):
        cv = ("PyAttr", "EllipticCurve." + curve)
        add("EcAdd:" + curve, ret_b(C("EcAdd", cv, B0, B1)))
        add("EcScalarMul:" + curve, ret_b(C("EcScalarMul", cv, B0, B1)))
        add("EcPairingCheck:" + curve, ret_u(C("EcPairingCheck", cv, B0, B1)))
        add("EcMultiScalarMul:" + curve, ret_b(C("EcMultiScalarMul", cv, B0, B1)))
        add("EcSubgroupCheck:" + curve, ret_u(C("EcSubgroupCheck", cv, B0)))
        add("EcMapTo:" + curve, ret_b(C("EcMapTo", cv, B0)))
    add("AppParam.address", ("MultiSeq", C("AppParam.address", U0), ("Return", ("MHas",))))
    for f in ("incentiveEligible", "lastHeartbeat", "lastProposed"):
        add("AccountParam." + f, ("MultiSeq", C("AccountParam." + f, B32), ("Return", ("MHas",))))
    add("InnerTxn.amount", ("Seq", ("Itxn", "Begin"), ("ItxnField", "TypeEnum", ("Int", 1)), ("Itxn", "Submit"), ret_u(C("InnerTxn.amount"))))
    add("InnerTxn.logs", ("Seq", ("Itxn", "Begin"), ("ItxnField", "TypeEnum", ("Int", 1)), ("Itxn", "Submit"), ret_b(C("InnerTxn.last_log"))))
    add("GeneratedID", ret_u(C("GeneratedID", U0)))
    # values and ids of earlier group members: constant and run-time transaction index x slot ids around the one-byte immediate
    for slot in (0, 255, 256, 300):
        add("ImportScratchValue:const-txn:slot%d" % slot, ret_u(C("ImportScratchValue", ("PyInt", 0), ("PyInt", slot))))
        add("ImportScratchValue:rt-txn:slot%d" % slot, ret_u(C("ImportScratchValue", ("Bin", "Mod", U0, ("Int", 2)), ("PyInt", slot))))
    for ti in (0, 15, 16, 255, 256):
        add("ImportScratchValue:txn%d" % ti, ret_u(C("ImportScratchValue", ("PyInt", ti), ("PyInt", 1))))
        add("GeneratedID:txn%d" % ti, ret_u(C("GeneratedID", ("PyInt", ti))))
    add("Global.opcode_budget", ret_u(("Global", "OpcodeBudget")))
    # control constructs
    V = {"i": {"t": "u"}}
    loop = ("Seq", ("Store", "i", ("Int", 0)), ("While", ("Bin", "Lt", ("Load", "i"), U0), ("Store", "i", ("Bin", "Add", ("Load", "i"), ("Int", 1)))),
            ("Return", ("Load", "i")))
    add("While", loop, V)
    add("For", ("Seq", ("Un", "Pop", ("Int", 1)), ("For", ("Store", "i", ("Int", 0)), ("Bin", "Lt", ("Load", "i"), U0),
                                                    ("Store", "i", ("Bin", "Add", ("Load", "i"), ("Int", 1))), ("Un", "Pop", ("Int", 2))),
                ("Return", ("Load", "i"))), V)
    add("Assert", ("Seq", ("Assert", U0), ("Return", ("Int", 1))))
    add("Cond", ("Seq", ("Cond", (U0, ("Un", "Pop", ("Int", 1))), (U1, ("Un", "Pop", ("Int", 2)))), ("Return", ("Int", 1))))
    add("If", ret_u(("If", U0, U1, U2)))
    add("Subroutine", ret_u(("Call", "f", U0)), None, {"f": {"params": [("val", "n")], "ret": "u", "body": ("Bin", "Add", ("Param", "n"), ("Int", 1))}})
    add("Subroutine:byref", ("Seq", ("Store", "i", U0), ("Call", "f", ("Ref", "i")), ("Return", ("Load", "i"))), V,
        {"f": {"params": [("ref", "p")], "ret": "n", "body": ("PStore", "p", ("Int", 3))}})
    add("DynamicScratchVar", ("Seq", ("Store", "i", U0), ("DynSet", "d", "i"), ("DynStore", "d", ("Int", 2)), ("Return", ("DynLoad", "d"))),
        {"i": {"t": "u"}, "d": {"t": "u", "dyn": True}})
    return out
