"""Read/write placement family (C17): sequences of statement templates over one or two
routine-local variables, with stores and loads at every position of branches, Cond arms,
zero-iteration loops, Break/Continue exits and early returns; in main and inside a subroutine."""
import itertools
import random
from typing import Any, Dict, List, Tuple

from .gen import Env, prog


class Sites:
    def __init__(self):
        self.n = 0

    def load(self, v):
        self.n += 1
        return ("Load", v, self.n)


def atoms(e: Env, st: Sites, in_loop: bool):
    """name -> thunk building a fresh statement"""
    a = {
        "Sx": lambda: ("Store", "x", e.u(1)),
        "Lx": lambda: ("Un", "Pop", st.load("x")),
        "T": lambda: e.tag(5),
        "R": lambda: ("Return", ("Int", 1)),
        "Sy": lambda: ("Store", "y", e.u(2)),
        "Ly": lambda: ("Un", "Pop", st.load("y")),
        "Sxx": lambda: ("Store", "x", ("Bin", "Add", st.load("x"), ("Int", 1))),
        "Syx": lambda: ("Store", "y", st.load("x")),
    }
    if in_loop:
        a["B"] = lambda: ("Break",)
        a["C"] = lambda: ("Continue",)
    return a


def templates(e: Env, st: Sites, level: str):
    """statement templates: name -> thunk.  level 'quick' uses fewer atoms inside compounds."""
    base = ["Sx", "Lx", "T", "R"] if level == "quick" else ["Sx", "Lx", "T", "R", "Sy", "Ly", "Sxx", "Syx"]
    inner = ["Sx", "Lx", "T", "Sy"] if level == "quick" else ["Sx", "Lx", "T", "Sy", "Syx"]
    out = {}
    A = atoms(e, st, False)
    AL = atoms(e, st, True)
    for n in base:
        out[n] = A[n]
    for a in inner + ["R"]:
        out["If(%s)" % a] = (lambda a=a: ("If", e.u(3), A[a]()))
        for b in inner + ["R"]:
            out["If(%s|%s)" % (a, b)] = (lambda a=a, b=b: ("If", e.u(3), A[a](), A[b]()))
            out["Cond(%s|%s)" % (a, b)] = (lambda a=a, b=b: ("Cond", (e.u(3), A[a]()), (e.u(4), A[b]())))
    for a in inner + ["B", "C", "R"]:
        for b in inner + ["B", "C"]:
            out["While(%s;%s)" % (a, b)] = (lambda a=a, b=b: ("While", e.u(5), ("Seq", AL[a](), AL[b]())))
            if level != "quick" or a in ("Sx", "B", "C"):
                out["WhileIf(%s;%s)" % (a, b)] = (lambda a=a, b=b: ("While", e.u(5), ("Seq", ("If", e.u(6), AL[a]()), AL[b]())))
    for a in inner:
        out["For(%s)" % a] = (lambda a=a: ("For", ("Store", "i", ("Int", 0)), ("Bin", "Lt", ("Load", "i"), e.u(5)),
                                           ("Store", "i", ("Bin", "Add", ("Load", "i"), ("Int", 1))), AL[a]()))
        out["ForInitSx(%s)" % a] = (lambda a=a: ("For", ("Store", "x", ("Int", 0)), ("Bin", "Lt", ("Int", 0), e.u(5)),
                                                 ("Store", "i", ("Int", 1)), AL[a]()))
    out["IfChain(Sx|Sx|T)"] = lambda: ("IfChain", ((e.u(3), A["Sx"]()), (e.u(4), A["Sx"]())), A["T"]())
    out["IfChain(Sx|Sx|Sx)"] = lambda: ("IfChain", ((e.u(3), A["Sx"]()), (e.u(4), A["Sx"]())), A["Sx"]())
    out["IfChain(Sx|R|Sx)"] = lambda: ("IfChain", ((e.u(3), A["Sx"]()), (e.u(4), A["R"]())), A["Sx"]())
    # stores inside the CONDITION of a branch / loop that itself starts an arm of an enclosing branch
    def cS(v, c):
        return ("Seq", ("Store", v, e.u(1)), c)
    out["If[Sx]"] = lambda: ("If", cS("x", e.u(3)), A["T"]())
    out["If(If[Sx])"] = lambda: ("If", e.u(3), ("If", cS("x", e.u(4)), A["T"]()))
    out["If(If[Sx]|T)"] = lambda: ("If", e.u(3), ("If", cS("x", e.u(4)), A["T"]()), A["T"]())
    out["If(T|If[Sx])"] = lambda: ("If", e.u(3), A["T"](), ("If", cS("x", e.u(4)), A["T"]()))
    out["If(While[Sx])"] = lambda: ("If", e.u(3), ("While", cS("x", ("Bin", "Lt", st.load("x"), e.u(5))), ("Seq", AL["T"](), AL["B"]())))
    out["While[Sx]"] = lambda: ("While", cS("x", ("Bin", "Lt", st.load("x"), e.u(5))), ("Seq", AL["T"](), AL["B"]()))
    out["While(If[Sx];B)"] = lambda: ("While", e.u(5), ("Seq", ("If", cS("x", e.u(4)), AL["T"]()), AL["B"]()))
    out["Cond(If[Sx]|T)"] = lambda: ("Cond", (e.u(3), ("If", cS("x", e.u(4)), A["T"]())), (e.u(4), A["T"]()))
    out["IfChain(If[Sx]|T|T)"] = lambda: ("IfChain", ((e.u(3), ("If", cS("x", e.u(4)), A["T"]())), (e.u(4), A["T"]())), A["T"]())
    out["If(If[Sy])"] = lambda: ("If", e.u(3), ("If", cS("y", e.u(4)), A["T"]()))
    # nested loops: Break / Continue of the INNER loop, the variable written after it and read in the inner step / condition /
    # behind the inner loop
    def istep():
        return ("Store", "i", ("Bin", "Add", ("Load", "i"), ("Int", 1)))
    def nest(body):
        return ("Seq", A["Sx"](), body)        # x is written first: the final load of x is fine, only y's traffic decides
    out["Sx+While(For(C;Sy|stepLy))"] = lambda: nest(("While", e.u(5), ("Seq", ("For", ("Store", "i", ("Int", 0)), ("Bin", "Lt", ("Load", "i"), e.u(6)),
                                                                            ("Seq", AL["Ly"](), istep()), ("Seq", ("If", e.u(7), AL["C"]()), AL["Sy"]())), AL["B"]())))
    out["Sx+While(For(Sy;C|stepLy))"] = lambda: nest(("While", e.u(5), ("Seq", ("For", ("Store", "i", ("Int", 0)), ("Bin", "Lt", ("Load", "i"), e.u(6)),
                                                                            ("Seq", AL["Ly"](), istep()), ("Seq", AL["Sy"](), ("If", e.u(7), AL["C"]()))), AL["B"]())))
    out["Sx+For(For(C;Sy|stepLy))"] = lambda: nest(("For", ("Store", "z", ("Int", 0)), ("Bin", "Lt", ("Load", "z"), e.u(5)), ("Store", "z", ("Bin", "Add", ("Load", "z"), ("Int", 1))),
                                                    ("For", ("Store", "i", ("Int", 0)), ("Bin", "Lt", ("Load", "i"), e.u(6)), ("Seq", AL["Ly"](), istep()),
                                                     ("Seq", ("If", e.u(7), AL["C"]()), AL["Sy"]()))))
    # a For body that ENDS in a bare Break: the step is reached through Continue only
    def forb(body):
        return nest(("For", ("Store", "i", ("Int", 0)), ("Bin", "Lt", ("Load", "i"), e.u(6)), ("Seq", AL["Ly"](), istep()), body))
    out["Sx+For(ifC;Sy;B|stepLy)"] = lambda: forb(("Seq", ("If", e.u(7), AL["C"]()), AL["Sy"](), AL["B"]()))
    out["Sx+For(Sy;ifC;B|stepLy)"] = lambda: forb(("Seq", AL["Sy"](), ("If", e.u(7), AL["C"]()), AL["B"]()))
    out["Sx+For(ifC|Sy;T;B|stepLy)"] = lambda: forb(("Seq", ("If", e.u(7), AL["C"](), AL["Sy"]()), AL["T"](), AL["B"]()))
    out["Sx+For(T;B|stepLy)"] = lambda: forb(("Seq", AL["T"](), AL["B"]()))
    out["Sx+While(Sy;While[Ly](C;T))"] = lambda: nest(("While", e.u(5), ("Seq", AL["Sy"](), ("While", ("Bin", "Lt", st.load("y"), e.u(6)), ("Seq", ("If", e.u(7), AL["C"]()), AL["B"]())), AL["B"]())))
    out["Sx+While(While(B;Sy;B);Ly)"] = lambda: nest(("While", e.u(5), ("Seq", ("While", ("Int", 1), ("Seq", ("If", e.u(7), AL["B"]()), AL["Sy"](), AL["B"]())), AL["Ly"](), AL["B"]())))
    out["Sx+While(While(Sy;B);Ly)"] = lambda: nest(("While", e.u(5), ("Seq", ("While", ("Int", 1), ("Seq", AL["Sy"](), AL["B"]())), AL["Ly"](), AL["B"]())))
    out["Sx+While(Sy;While(C;T);Ly)"] = lambda: nest(("While", e.u(5), ("Seq", AL["Sy"](), ("While", e.u(6), ("Seq", ("If", e.u(7), AL["C"]()), AL["B"]())), AL["Ly"](), AL["B"]())))
    out["IfValue"] = lambda: ("Store", "y", ("If", e.u(3), st.load("x"), ("Int", 0)))
    out["CondLoadInCond"] = lambda: ("If", st.load("x"), A["T"]())
    return out


def rw_family(mode: str, version: int, level: str, seed: int = 0, where: str = "main", nrandom: int = 0, xslot=None, offset: int = 0):
    out = []
    e = Env(mode, version)
    V = {"x": {"t": "u"}, "y": {"t": "u"}, "i": {"t": "u"}, "z": {"t": "u"}}
    if xslot is not None:
        V["x"] = {"t": "u", "slot": xslot}
    names = sorted(templates(e, Sites(), level))
    maxlen = 2
    combos = []
    for n in range(1, maxlen + 1):
        combos += list(itertools.product(names, repeat=n))
    if level == "quick":
        # every single template, every third pair (the caller rotates the offset over versions / placements)
        combos = [c for c in combos if len(c) == 1] + [c for c in combos if len(c) > 1][offset % 3::3]
    if nrandom:
        rng = random.Random(seed * 977 + version)
        for _ in range(nrandom):
            combos.append(tuple(rng.choice(names) for _ in range(3)))
    for combo in combos:
        st = Sites()
        T = templates(e, st, level)
        stmts = [e.tag(1)] + [T[c]() for c in combo]
        final = ("Return", st.load("x"))
        body = ("Seq",) + tuple(stmts) + (final,)
        name = "rw:%s%s:%s" % (where, "" if xslot is None else "-slot%d" % xslot, ";".join(combo))
        if where == "main":
            out.append((name, prog(mode, body, dict(V)), {}))
        else:
            out.append((name, prog(mode, ("Return", ("Call", "f", e.u(0))), dict(V),
                                   {"f": {"params": [("val", "n")], "ret": "u", "body": body}}), {}))
    return out


def alias_family(mode: str, version: int, level: str):
    """the variable is (also) reachable indirectly: passed by reference to a routine that writes it, or
    targeted by a dynamic variable; the indirect write is placed conditionally / unconditionally, before
    or after the direct load"""
    out = []
    e = Env(mode, version)
    subs = {"setx": {"params": [("ref", "r")], "ret": "n", "body": ("PStore", "r", e.u(1))},
            "getx": {"params": [("ref", "r")], "ret": "u", "body": ("Return", ("PLoad", "r"))}}

    def add(name, stmts, use_dyn=False, where="main"):
        st = Sites()
        body = ("Seq", e.tag(1)) + tuple(s(st) if callable(s) else s for s in stmts) + (("Return", st.load("x")),)
        V = {"x": {"t": "u"}, "y": {"t": "u"}}
        if use_dyn:
            V["d"] = {"t": "u", "dyn": True}
        if where == "main":
            out.append(("rw-alias:%s" % name, prog(mode, body, V, dict(subs)), {}))
        else:
            ss = dict(subs)
            ss["f"] = {"params": [("val", "n")], "ret": "u", "body": body}
            out.append(("rw-alias:sub:%s" % name, prog(mode, ("Return", ("Call", "f", e.u(0))), V, ss), {}))

    call = ("Call", "setx", ("Ref", "x"))
    for where in ("main", "sub"):
        add("ref-unconditional", [call], where=where)
        add("ref-in-if", [("If", e.u(3), call)], where=where)
        add("ref-in-if-else-store", [("If", e.u(3), call, ("Store", "x", e.u(2)))], where=where)
        add("ref-in-if-else-tag", [("If", e.u(3), call, e.tag(3))], where=where)
        add("ref-in-while", [("While", e.u(5), ("Seq", call, ("Break",)))], where=where)
        add("ref-after-load", [lambda st: ("Un", "Pop", st.load("x")), call], where=where)
        add("ref-read-only-callee", [("Un", "Pop", ("Call", "getx", ("Ref", "x")))], where=where)
        add("store-then-ref-in-if", [("Store", "x", e.u(2)), ("If", e.u(3), call)], where=where)
        add("ref-other-variable", [("Store", "y", e.u(2)), ("Call", "setx", ("Ref", "y"))], where=where)
        add("dyn-unconditional", [("DynSet", "d", "x"), ("DynStore", "d", e.u(2))], True, where=where)
        add("dyn-in-if", [("DynSet", "d", "x"), ("If", e.u(3), ("DynStore", "d", e.u(2)))], True, where=where)
        add("dyn-set-only", [("DynSet", "d", "x")], True, where=where)
        add("dyn-retargeted", [("DynSet", "d", "x"), ("Store", "y", e.u(1)), ("DynSet", "d", "y"), ("DynStore", "d", e.u(2))], True, where=where)
        add("dyn-load-first", [("DynSet", "d", "x"), ("Un", "Pop", ("DynLoad", "d"))], True, where=where)
    return out
