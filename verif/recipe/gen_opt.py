"""Optimiser-targeted recipe family (C03): every placement of stores and loads of up to two
variables (adjacent store/load pairs, second stores without loads, loads in other blocks, in a
loop, inside a subroutine), explicit (user-numbered) slots, dynamically indexed variables and
MaybeValue temporaries."""
import itertools
from typing import Any, Dict, List, Tuple

from .gen import Env, prog


def _seqs(maxlen: int) -> List[Tuple[str, ...]]:
    """store/load sequences over x, y in which every load is preceded by a store of that variable"""
    out = []
    for n in range(2, maxlen + 1):
        for s in itertools.product(("Sx", "Sy", "Lx", "Ly", "lx", "ly"), repeat=n):
            ok, seen = True, set()
            for op in s:
                if op[0] == "S":
                    seen.add(op[1])
                elif op[1] not in seen:
                    ok = False
                    break
            if not ok or not any(o[0] in "Ll" for o in s):
                continue
            # canonical: the first variable mentioned is x
            if s[0][1] == "y":
                continue
            out.append(s)
    return out


def _stmts(e: Env, s: Tuple[str, ...], observe: str, store_expr: str = "in"):
    res = []
    k = 0
    for op in s:
        v = op[1]
        if op[0] == "S":
            k += 1
            if store_expr == "in":
                val = e.u(k)
            elif store_expr == "const":
                val = ("Int", k)
            else:
                val = ("Bin", "Add", e.u(k), ("Int", k))
            res.append(("Store", v, val))
        elif op[0] == "l":
            # a load that is NOT the first thing evaluated after the previous statement
            if observe == "log":
                res.append(("Un", "Log", ("Nary", "Concat", ("Bytes", b"p"), ("Un", "Itob", ("Load", v)))))
            elif observe == "gput":
                res.append(("GPut", ("Bytes", b"o"), ("Load", v)))
            else:
                res.append(("Assert", ("Bin", "Lt", e.u(8), ("Load", v))))
        else:
            if observe == "log":
                res.append(("Un", "Log", ("Un", "Itob", ("Load", v))))
            elif observe == "gput":
                res.append(("GPut", ("Bytes", b"o"), ("Load", v)))
            else:
                res.append(("Assert", ("Bin", "Lt", ("Load", v), e.u(8))))
    return res


def opt_family(mode: str, version: int, thorough: bool = False):
    out = []
    e = Env(mode, version)
    observe = "log" if (mode == "A" and version >= 5) else ("gput" if mode == "A" else "assert")
    V = {"x": {"t": "u"}, "y": {"t": "u"}}
    seqs = _seqs(5 if thorough else 4)
    for s in seqs:
        name = "".join(s)
        st = _stmts(e, s, observe)
        # (1) straight-line in main, value returned is the last loaded variable
        last = [o for o in s if o[0] in "Ll"][-1][1]
        out.append(("opt:main:" + name, prog(mode, ("Seq",) + tuple(st) + (("Return", ("Load", last)),), dict(V)), {}))
        if version >= 4:
            # (2) inside a subroutine without result (stack balance at retsub matters)
            out.append(("opt:sub:" + name, prog(mode, ("Seq", ("Call", "f"), e.tag(40), ("Return", ("Int", 1))), dict(V),
                                                {"f": {"params": [], "ret": "n", "body": ("Seq",) + tuple(st)}}), {}))
        if True:
            # (3) in a loop body
            out.append(("opt:loop:" + name,
                        prog(mode, ("Seq", ("For", ("Store", "i", ("Int", 0)), ("Bin", "Lt", ("Load", "i"), e.u(0)),
                                            ("Store", "i", ("Bin", "Add", ("Load", "i"), ("Int", 1))),
                                            ("Seq",) + tuple(st)), ("Return", ("Int", 1))),
                             dict(V, i={"t": "u"})), {}))
            # (4) split across a branch: prefix before the If, the rest inside it
            for cut in range(1, len(s)):
                pre, post = s[:cut], s[cut:]
                have = {o[1] for o in pre if o[0] == "S"}
                okp = True
                seen = set(have)
                for o in post:
                    if o[0] == "S":
                        seen.add(o[1])
                    elif o[1] not in seen:
                        okp = False
                if not okp:
                    continue
                out.append(("opt:split%d:%s" % (cut, name),
                            prog(mode, ("Seq",) + tuple(st[:cut]) + (("If", e.u(0), ("Seq",) + tuple(st[cut:])), ("Return", ("Int", 1))),
                                 dict(V)), {}))
        # (5) the first part inside a branch arm, the rest after the join (both variables initialised up front)
        for cut in range(1, len(s)):
            out.append(("opt:armfirst%d:%s" % (cut, name),
                        prog(mode, ("Seq", ("Store", "x", e.u(6)), ("Store", "y", e.u(7)), e.tag(41),
                                    ("If", e.u(0), ("Seq",) + tuple(st[:cut]))) + tuple(st[cut:]) + (("Return", ("Int", 1)),), dict(V)), {}))
    # user-numbered slots: final contents are observable (C03) and reserved ids are not optimised away
    for s in seqs[:: (3 if not thorough else 1)]:
        name = "".join(s)
        st = _stmts(e, s, observe)
        out.append(("opt:userslot:" + name,
                    prog(mode, ("Seq",) + tuple(st) + (("Return", ("Int", 1)),), {"x": {"t": "u", "slot": 10}, "y": {"t": "u", "slot": 200}}), {}))
    # store expression shapes (constant / computed)
    for s in (("Sx", "Lx"), ("Sx", "Sx", "Lx"), ("Sx", "Lx", "Sx"), ("Sx", "Sy", "Lx", "Ly"), ("Sx", "Lx", "Lx")):
        for se in ("const", "expr"):
            st = _stmts(e, s, observe, se)
            out.append(("opt:%s:%s" % (se, "".join(s)), prog(mode, ("Seq",) + tuple(st) + (("Return", ("Int", 1)),), dict(V)), {}))
    if version >= 5:
        # dynamically indexed variable aliasing x
        dv = {"x": {"t": "u"}, "y": {"t": "u"}, "d": {"t": "u", "dyn": True}}
        out.append(("opt:dyn:alias", prog(mode, ("Seq", ("Store", "x", e.u(1)), ("DynSet", "d", "x"),
                                                 ("DynStore", "d", ("Bin", "Add", ("DynLoad", "d"), ("Int", 1))),
                                                 ("Store", "y", ("Load", "x")), ("Return", ("Load", "y"))), dv), {}))
        out.append(("opt:dyn:store-then-load", prog(mode, ("Seq", ("Store", "x", e.u(1)), ("Store", "y", e.u(2)), ("DynSet", "d", "y"),
                                                           ("DynStore", "d", e.u(3)), ("Return", ("Bin", "Minus", ("Load", "y"), ("Load", "x")))), dv), {}))
    if mode == "A":
        # MaybeValue temporaries (two slots written by one op)
        out.append(("opt:maybe", prog(mode, ("MaybeSeq", ("maybe", "asset_holding_get", "AssetBalance", "U"), (("Int", 0), e.u(0)),
                                             ("Seq", ("Store", "x", ("MVal",)), ("Return", ("Bin", "Add", ("Load", "x"), ("MHas",))))), dict(V)), {}))
        out.append(("opt:maybe-unused-value", prog(mode, ("MaybeSeq", ("maybe", "asset_holding_get", "AssetBalance", "U"), (("Int", 0), e.u(0)),
                                                          ("Return", ("MHas",)))), {}))
    return out


def index_family(mode: str, version: int):
    """variables whose slot number is taken in unusual places (the whole value of a branch arm, a Cond arm, an operand of
    arithmetic) and that are otherwise only stored and immediately loaded: the slot optimiser must leave them alone.
    TEAL-vs-TEAL only (the recipes have no reference semantics: slot numbers of automatic variables are the compiler's choice)."""
    out = []
    e = Env(mode, version)
    V = {"a": {"t": "u"}, "b": {"t": "u"}, "c": {"t": "u"}}
    pre = (("Store", "a", e.u(1)), ("Un", "Pop", ("Bin", "Add", ("Load", "a"), ("Int", 1))),
           ("Store", "b", e.u(2)), ("Un", "Pop", ("Bin", "Add", ("Load", "b"), ("Int", 1))), e.tag(9))
    ix = {
        "if-arms": ("If", e.u(3), ("SlotIndex", "b"), ("SlotIndex", "a")),
        "cond-arms": ("Cond", (e.u(3), ("SlotIndex", "a")), (("Int", 1), ("SlotIndex", "b"))),
        "plain": ("SlotIndex", "a"),
        "if-arm-and-arith": ("If", e.u(3), ("SlotIndex", "b"), ("Bin", "Add", ("SlotIndex", "a"), ("Int", 0))),
        "nested-if": ("If", e.u(3), ("If", e.u(4), ("SlotIndex", "a"), ("SlotIndex", "b")), ("SlotIndex", "a")),
    }
    for nm, ie in ix.items():
        out.append(("opt:index:load-%s" % nm, prog(mode, ("Seq",) + pre + (("Return", ("Bin", "Add", ("LoadAt", ie), ("Int", 0))),), dict(V)), {}))
        out.append(("opt:index:store-%s" % nm, prog(mode, ("Seq",) + pre + (("StoreAt", ie, ("Int", 77)),
                                                                           ("Return", ("Bin", "Add", ("Load", "a"), ("Load", "b")))), dict(V)), {}))
    if version >= 4:
        for nm, ie in ix.items():
            body = ("Seq",) + pre + (("Return", ("Bin", "Add", ("LoadAt", ie), ("Int", 0))),)
            out.append(("opt:index:sub-load-%s" % nm, prog(mode, ("Return", ("Call", "f")), dict(V), {"f": {"params": [], "ret": "u", "body": body}}), {}))
    return out


def shared_reader_family(mode: str, version: int):
    """a variable stored and immediately loaded in one routine and read by two (or more) other routines: it is shared, so the
    slot optimiser must leave it alone - also when the options object has been used for another program before"""
    out = []
    e = Env(mode, version)
    rd = {"params": [], "ret": "u", "body": ("Bin", "Add", ("Load", "x"), ("Int", 1))}
    rd2 = {"params": [("val", "n")], "ret": "u", "body": ("Bin", "Mul", ("Load", "x"), ("Param", "n"))}
    for nm, main in (
            ("assert-then-two-readers", ("Seq", ("Store", "x", e.u(1)), ("Assert", ("Bin", "Le", ("Load", "x"), ("Int", 1 << 40))),
                                         ("Return", ("Bin", "Add", ("Call", "r1"), ("Call", "r2", ("Int", 3)))))),
            ("pop-then-three-readers", ("Seq", ("Store", "x", e.u(1)), ("Un", "Pop", ("Load", "x")),
                                        ("Return", ("Nary", "Add", ("Call", "r1"), ("Call", "r2", ("Int", 3)), ("Call", "r1"))))),
            ("two-variables", ("Seq", ("Store", "x", e.u(1)), ("Store", "y", ("Load", "x")), ("Un", "Pop", ("Load", "y")),
                               ("Return", ("Bin", "Add", ("Call", "r1"), ("Call", "r2", ("Load", "y"))))))):
        out.append(("opt:shared:%s" % nm, prog(mode, main, {"x": {"t": "u"}, "y": {"t": "u"}}, {"r1": rd, "r2": rd2}), {}))
    return out
