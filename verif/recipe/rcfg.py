"""Structured control-flow graph of a recipe routine, built from the recipe (not from PyTeal's
blocks), at the granularity of individual loads and stores in evaluation order.  Used by C17."""
from typing import Any, Dict, List, Optional, Tuple


class Node:
    __slots__ = ("id", "kind", "var", "site", "succ")

    def __init__(self, id, kind, var=None, site=None):
        self.id = id
        self.kind = kind        # "nop" | "load" | "store" | "exit"
        self.var = var
        self.site = site        # for loads: ordinal of the Load form in build order
        self.succ: List[int] = []


class RCFG:
    def __init__(self):
        self.nodes: List[Node] = []
        self.load_counter = 0
        self.opaque_vars = set()    # variables touched through Ref / DynSet (excluded from obligations unless alias_stores)
        self.dyn_targets: Dict[str, set] = {}   # dynamic variable -> variables it is ever pointed at

    def new(self, kind="nop", var=None, site=None) -> Node:
        n = Node(len(self.nodes), kind, var, site)
        self.nodes.append(n)
        return n


def _dyn_targets(body) -> Dict[str, set]:
    out: Dict[str, set] = {}

    def visit(e):
        if isinstance(e, (tuple, list)):
            if e and e[0] == "DynSet":
                out.setdefault(e[1], set()).add(e[2])
            for c in e:
                visit(c)
    visit(body)
    return out


def build_routine(body, rcfg: Optional[RCFG] = None, conservative: bool = False, alias_stores: bool = False) -> Tuple[RCFG, int]:
    """-> (graph, entry node id).  Load sites are numbered in the order the builder
    (recipe/build.py) visits Load forms, which is the same depth-first left-to-right order.

    alias_stores: every event through which a variable MAY be written indirectly counts as a store of
    it (a call that receives it by reference; a store through a dynamic variable that is pointed at it
    anywhere in the routine).  Over-approximating stores only removes unwritten paths, so the
    "must reject" obligations derived from this graph stay sound."""
    g = rcfg or RCFG()
    g.dyn_targets = _dyn_targets(body)
    entry = g.new()
    exitn = g.new("exit")
    loops: List[Tuple[Node, Node]] = []   # (continue target, break target)

    def seq(cur: Node, e) -> Optional[Node]:
        """appends the evaluation of e after node cur; returns the node after e (None = no fall-through)"""
        if cur is None:
            # dead code still has to be numbered for load sites
            cur = g.new()
        k = e[0]
        if k == "Load":
            n = g.new("load", e[1], e[2] if len(e) > 2 else g.load_counter)
            g.load_counter += 1
            cur.succ.append(n.id)
            return n
        if k == "Store":
            c = seq(cur, e[2])
            n = g.new("store", e[1])
            if c is not None:
                c.succ.append(n.id)
            return n if c is not None else None
        if k in ("DynSet",):
            g.opaque_vars.add(e[2])
            return cur
        if k == "DynStore" and alias_stores:
            c = seq(cur, e[2])
            for v in sorted(g.dyn_targets.get(e[1], ())):
                n = g.new("store", v)
                if c is not None:
                    c.succ.append(n.id)
                    c = n
            return c
        if k in ("Return", "Approve", "Reject", "Err"):
            c = cur
            if k == "Return" and len(e) > 1 and e[1] is not None:
                c = seq(cur, e[1])
            if c is not None:
                c.succ.append(exitn.id)
            return c if conservative else None     # conservative: exits also "fall through"
        if k == "Break":
            cur.succ.append(loops[-1][1].id)
            return cur if conservative else None
        if k == "Continue":
            cur.succ.append(loops[-1][0].id)
            return cur if conservative else None
        if k == "Seq":
            c = cur
            for s in e[1:]:
                c = seq(c, s)
            return c
        if k == "If":
            c = seq(cur, e[1])
            join = g.new()
            t = seq(_fork(c), e[2])
            if t is not None:
                t.succ.append(join.id)
            if len(e) > 3 and e[3] is not None:
                f = seq(_fork(c), e[3])
                if f is not None:
                    f.succ.append(join.id)
            elif c is not None:
                c.succ.append(join.id)
            return join
        if k == "IfChain":
            join = g.new()
            c = cur
            for cond, arm in e[1]:
                c = seq(c, cond)
                t = seq(_fork(c), arm)
                if t is not None:
                    t.succ.append(join.id)
                c = _fork(c)
            if e[2] is not None:
                f = seq(c, e[2])
                if f is not None:
                    f.succ.append(join.id)
            elif c is not None:
                c.succ.append(join.id)
            return join
        if k == "Cond":
            join = g.new()
            c = cur
            for cond, arm in e[1:]:
                c = seq(c, cond)
                t = seq(_fork(c), arm)
                if t is not None:
                    t.succ.append(join.id)
                c = _fork(c)
            if c is not None:
                c.succ.append(exitn.id)     # no arm matched: err
            return join
        if k == "While":
            head = g.new()
            after = g.new()
            cur.succ.append(head.id)
            c = seq(head, e[1])
            if c is not None:
                c.succ.append(after.id)
            loops.append((head, after))
            b = seq(_fork(c), e[2])
            loops.pop()
            if b is not None:
                b.succ.append(head.id)
            return after
        if k == "For":
            c0 = seq(cur, e[1])
            head = g.new()
            step = g.new()
            after = g.new()
            if c0 is not None:
                c0.succ.append(head.id)
            c = seq(head, e[2])
            if c is not None:
                c.succ.append(after.id)
            loops.append((step, after))
            b = seq(_fork(c), e[4])
            loops.pop()
            if b is not None:
                b.succ.append(step.id)
            s = seq(step, e[3])
            if s is not None:
                s.succ.append(head.id)
            return after
        if k in ("Assert", "AssertC"):
            c = cur
            for x in (e[1:] if k == "Assert" else e[2:]):
                c = seq(c, x)
            return c
        if k == "MaybeSeq":
            c = cur
            for a in e[2]:
                c = seq(c, a)
            return seq(c, e[3])
        if k == "Call":
            c = cur
            refs = []
            for a in e[2:]:
                if a[0] == "Ref":
                    g.opaque_vars.add(a[1])
                    refs.append(a[1])
                elif a[0] == "PRef":
                    pass
                else:
                    c = seq(c, a)
            if alias_stores:
                for v in refs:          # the callee may write the variable
                    n = g.new("store", v)
                    if c is not None:
                        c.succ.append(n.id)
                        c = n
            return c
        if k == "WideRatio":
            c = cur
            for a in list(e[1]) + list(e[2]):
                c = seq(c, a)
            return c
        # generic operator form: evaluate tuple-valued children left to right
        c = cur
        for a in e[1:]:
            if isinstance(a, tuple) and a and isinstance(a[0], str):
                c = seq(c, a)
        return c

    def _fork(c: Optional[Node]) -> Optional[Node]:
        if c is None:
            return None
        n = g.new()
        c.succ.append(n.id)
        return n

    last = seq(entry, body)
    if last is not None:
        last.succ.append(exitn.id)
    return g, entry.id


def unwritten_path(g: RCFG, entry: int, target: int, var: str, timeout_ms: int = 10000):
    """z3: is there a syntactic path entry -> target that visits no store of `var`?
    -> ("sat", [node ids]) | ("unsat", None) | ("unknown", None)"""
    import z3
    N = len(g.nodes)
    K = N
    s = z3.Solver()
    s.set("timeout", timeout_ms)
    at = [[z3.Bool("at_%d_%d" % (k, n)) for n in range(N)] for k in range(K + 1)]
    for k in range(K + 1):
        s.add(z3.PbEq([(at[k][n], 1) for n in range(N)], 1))
        for n in range(N):
            nd = g.nodes[n]
            if nd.kind == "store" and nd.var == var:
                s.add(z3.Not(at[k][n]))
    s.add(at[0][entry])
    for k in range(K):
        for n in range(N):
            nxt = [at[k + 1][m] for m in g.nodes[n].succ]
            if n == target:
                nxt = [at[k + 1][n]]
            s.add(z3.Implies(at[k][n], z3.Or(*nxt) if nxt else False))
    s.add(at[K][target])
    r = str(s.check())
    if r != "sat":
        return r, None
    m = s.model()
    path = []
    for k in range(K + 1):
        for n in range(N):
            if z3.is_true(m.eval(at[k][n])):
                if not path or path[-1] != n:
                    path.append(n)
    return "sat", path
