"""Recipe generators: operator sweep, control skeletons (one-hole contexts x fillers),
environment/state/inner-transaction programs, and seeded random programs."""
import itertools
import random
from typing import Any, Dict, Iterable, List, Optional, Tuple

UINT_INPUTS = ["Fee", "Amount", "FirstValid", "LastValid", "VoteFirst", "VoteLast", "VoteKeyDilution",
               "XferAsset", "AssetAmount"]


class Env:
    """Version / mode dependent building blocks."""

    def __init__(self, mode: str, version: int):
        self.mode = mode
        self.version = version
        self._u = 0
        self._b = 0
        self._t = 0

    def tag(self, i: Optional[int] = None):
        if i is None:
            self._t += 1
            i = self._t
        if self.mode == "A" and self.version >= 5:
            return ("Un", "Log", ("Bytes", b"t%d" % i))
        if self.mode == "A":
            return ("GPut", ("Bytes", b"t"), ("Int", i))
        return ("Un", "Pop", ("Int", i))

    def u(self, i: Optional[int] = None):
        """i-th independent symbolic uint64 input"""
        if i is None:
            i = self._u
            self._u += 1
        return ("Txn", UINT_INPUTS[i % len(UINT_INPUTS)])

    def b(self, i: Optional[int] = None):
        if i is None:
            i = self._b
            self._b += 1
        if i == 0:
            return ("Txn", "Note")
        if self.mode == "A":
            return ("AppArg", i - 1)
        return ("LsigArg", i - 1)

    def tagged(self, e, i: Optional[int] = None):
        """operand with an observable side effect in front of it"""
        return ("Seq", self.tag(i), e)

    def observe_u(self, e):
        return ("Return", e)

    def observe_b(self, e):
        if self.mode == "A" and self.version >= 5:
            return ("Seq", ("Un", "Log", e), ("Return", ("Int", 1)))
        if self.mode == "A":
            return ("Seq", ("GPut", ("Bytes", b"r"), e), ("Return", ("Int", 1)))
        return ("Return", ("Bin", "Eq", e, ("Txn", "Lease")))


def prog(mode: str, main, vars: Optional[Dict] = None, subs: Optional[Dict] = None) -> Dict[str, Any]:
    return {"mode": mode, "vars": vars or {}, "subs": subs or {}, "main": main}


# ---------------------------------------------------------------------------
# (i) operator sweep
U_BIN = [("Add", 2), ("Minus", 2), ("Mul", 2), ("Div", 2), ("Mod", 2), ("Exp", 4), ("Eq", 2), ("Neq", 2),
         ("Lt", 2), ("Le", 2), ("Gt", 2), ("Ge", 2), ("BitwiseAnd", 2), ("BitwiseOr", 2), ("BitwiseXor", 2),
         ("ShiftLeft", 4), ("ShiftRight", 4)]
U_UN = [("Not", 2), ("BitwiseNot", 2), ("Sqrt", 4), ("BitLen", 4)]
B_BIN_B = [("BytesAdd", 4), ("BytesMinus", 4), ("BytesDiv", 4), ("BytesMul", 4), ("BytesMod", 4),
           ("BytesAnd", 4), ("BytesOr", 4), ("BytesXor", 4)]
B_BIN_U = [("BytesEq", 4), ("BytesNeq", 4), ("BytesLt", 4), ("BytesLe", 4), ("BytesGt", 4), ("BytesGe", 4)]
HASHES = [("Sha256", 2), ("Keccak256", 2), ("Sha512_256", 2), ("Sha3_256", 7)]


def operator_sweep(mode: str, version: int, thorough: bool = False) -> List[Tuple[str, Dict[str, Any], Dict[str, Any]]]:
    """-> list of (name, recipe, job options)"""
    out = []

    def add(name, main, opts=None):
        out.append((name, prog(mode, main), opts or {}))

    def E():
        return Env(mode, version)

    for name, mv in U_BIN:
        if version < mv:
            continue
        e = E()
        add("op:" + name, ("Seq", e.tag(), e.observe_u(("Bin", name, e.tagged(e.u()), e.tagged(e.u()))), ))
        # constant operand on either side
        e = E()
        add("op:%s:constL" % name, e.observe_u(("Bin", name, ("Int", 7), e.tagged(e.u()))))
        e = E()
        add("op:%s:constR" % name, e.observe_u(("Bin", name, e.tagged(e.u()), ("Int", 3))))
    for name, mv in U_UN:
        if version < mv:
            continue
        e = E()
        add("op:" + name, e.observe_u(("Un", name, e.tagged(e.u()))))
    for name in ("And", "Or", "Add", "Mul"):
        for n in (2, 3, 4):
            e = E()
            add("op:%s/%d" % (name, n), e.observe_u(("Nary", name) + tuple(e.tagged(e.u()) for _ in range(n))))
    # bytes <-> uint
    e = E()
    add("op:Itob", e.observe_b(("Un", "Itob", e.tagged(e.u()))))
    e = E()
    add("op:Btoi", e.observe_u(("Un", "Btoi", e.tagged(e.b()))), {"lens": (0, 1, 8, 9)})
    e = E()
    add("op:Len", e.observe_u(("Un", "Len", e.tagged(e.b()))))
    for n in (2, 3, 4):
        e = E()
        add("op:Concat/%d" % n, e.observe_b(("Nary", "Concat") + tuple(e.tagged(e.b()) for _ in range(n))),
            {"lens": (0, 1, 2)})
    e = E()
    add("op:Eq:bytes", e.observe_u(("Bin", "Eq", e.tagged(e.b()), e.tagged(e.b()))), {"lens": (0, 1, 2)})
    e = E()
    add("op:Neq:bytes", e.observe_u(("Bin", "Neq", e.tagged(e.b()), e.tagged(e.b()))), {"lens": (0, 2)})
    # substring family: constant indices around the immediate boundary and run-time indices
    consts = [(0, 0), (0, 1), (1, 3), (2, 2), (3, 1), (0, 4)]
    for (s, t) in consts:
        e = E()
        add("op:Substring:c%d,%d" % (s, t), e.observe_b(("Tern", "Substring", e.tagged(e.b()), ("Int", s), ("Int", t))),
            {"lens": (0, 1, 3, 4)})
        if version >= 5:
            e = E()
            add("op:Extract:c%d,%d" % (s, t), e.observe_b(("Tern", "Extract", e.tagged(e.b()), ("Int", s), ("Int", t))),
                {"lens": (0, 1, 3, 4)})
    for s in (0, 1, 3, 5):
        e = E()
        add("op:Suffix:c%d" % s, e.observe_b(("Suffix", e.tagged(e.b()), ("Int", s))), {"lens": (0, 1, 3, 4)})
    # immediates at 255/256
    for (s, t) in [(250, 255), (250, 256), (255, 256), (256, 257), (0, 255), (0, 256)]:
        e = E()
        add("op:Substring:c%d,%d" % (s, t), e.observe_b(("Tern", "Substring", e.b(), ("Int", s), ("Int", t))),
            {"lens": (3, 258)})
        if version >= 5:
            e = E()
            add("op:Extract:c%d,%d" % (s, t - s), e.observe_b(("Tern", "Extract", e.b(), ("Int", s), ("Int", t - s))),
                {"lens": (3, 258)})
    for s in (255, 256):
        e = E()
        add("op:Suffix:c%d" % s, e.observe_b(("Suffix", e.b(), ("Int", s))), {"lens": (3, 258)})
    # run-time indices (each with its own side effect: order of evaluation is observable)
    e = E()
    add("op:Substring:rt", e.observe_b(("Tern", "Substring", e.tagged(e.b()), e.tagged(e.u()), e.tagged(e.u()))),
        {"lens": (0, 2, 3)})
    e = E()
    add("op:Substring:rt-end", e.observe_b(("Tern", "Substring", e.tagged(e.b()), ("Int", 1), e.tagged(e.u()))),
        {"lens": (0, 2, 3)})
    e = E()
    add("op:Substring:rt-start", e.observe_b(("Tern", "Substring", e.tagged(e.b()), e.tagged(e.u()), ("Int", 2))),
        {"lens": (0, 2, 3)})
    if version >= 5:
        e = E()
        add("op:Extract:rt", e.observe_b(("Tern", "Extract", e.tagged(e.b()), e.tagged(e.u()), e.tagged(e.u()))),
            {"lens": (0, 2, 3)})
        e = E()
        add("op:Extract:rt-len", e.observe_b(("Tern", "Extract", e.tagged(e.b()), ("Int", 1), e.tagged(e.u()))),
            {"lens": (0, 2, 3)})
        e = E()
        add("op:Extract:rt-start", e.observe_b(("Tern", "Extract", e.tagged(e.b()), e.tagged(e.u()), ("Int", 2))),
            {"lens": (0, 2, 3)})
    e = E()
    add("op:Suffix:rt", e.observe_b(("Suffix", e.tagged(e.b()), e.tagged(e.u()))), {"lens": (0, 2, 3)})
    if version >= 3:
        e = E()
        add("op:GetBit:u", e.observe_u(("Bin", "GetBit", e.tagged(e.u()), e.tagged(e.u()))))
        e = E()
        add("op:GetBit:b", e.observe_u(("Bin", "GetBit", e.tagged(e.b()), e.tagged(e.u()))), {"lens": (0, 1, 2)})
        e = E()
        add("op:GetByte", e.observe_u(("Bin", "GetByte", e.tagged(e.b()), e.tagged(e.u()))), {"lens": (0, 1, 3)})
        e = E()
        add("op:SetBit:u", e.observe_u(("Tern", "SetBit", e.tagged(e.u()), e.tagged(e.u()), e.tagged(e.u()))))
        e = E()
        add("op:SetBit:b", e.observe_b(("Tern", "SetBit", e.tagged(e.b()), e.tagged(e.u()), e.tagged(e.u()))),
            {"lens": (0, 1, 2)})
        e = E()
        add("op:SetByte", e.observe_b(("Tern", "SetByte", e.tagged(e.b()), e.tagged(e.u()), e.tagged(e.u()))),
            {"lens": (0, 1, 3)})
    if version >= 5:
        for nm, ln in (("ExtractUint16", 2), ("ExtractUint32", 4), ("ExtractUint64", 8)):
            e = E()
            add("op:" + nm, e.observe_u(("Bin", nm, e.tagged(e.b()), e.tagged(e.u()))), {"lens": (0, ln, ln + 2)})
    if version >= 4:
        for name, mv in B_BIN_B:
            e = E()
            add("op:" + name, e.observe_b(("Bin", name, e.tagged(e.b()), e.tagged(e.b()))), {"lens": (0, 1, 2)})
        for name, mv in B_BIN_U:
            e = E()
            add("op:" + name, e.observe_u(("Bin", name, e.tagged(e.b()), e.tagged(e.b()))), {"lens": (0, 1, 2)})
        e = E()
        add("op:BytesNot", e.observe_b(("Un", "BytesNot", e.tagged(e.b()))), {"lens": (0, 1, 2)})
        e = E()
        add("op:BytesZero", e.observe_b(("Un", "BytesZero", e.tagged(e.u()))))
        e = E()
        add("op:BitLen:b", e.observe_u(("Un", "BitLen", e.tagged(e.b()))), {"lens": (0, 1, 2)})
    if version >= 6:
        e = E()
        add("op:BytesSqrt", e.observe_b(("Un", "BytesSqrt", e.tagged(e.b()))), {"lens": (0, 1, 2)})
        e = E()
        add("op:Divw", e.observe_u(("Tern", "Divw", e.tagged(e.u()), e.tagged(e.u()), e.tagged(e.u()))))
    if version >= 7:
        e = E()
        add("op:Replace:rt", e.observe_b(("Tern", "Replace", e.tagged(e.b()), e.tagged(e.u()), e.tagged(e.b()))),
            {"lens": (0, 1, 3)})
        e = E()
        add("op:Replace:c", e.observe_b(("Tern", "Replace", e.tagged(e.b()), ("Int", 1), e.tagged(e.b()))),
            {"lens": (0, 1, 3)})
        for c in (0, 255, 256):        # the constant start selects replace2 (one-byte immediate) or replace3
            e = E()
            add("op:Replace:c%d" % c, e.observe_b(("Tern", "Replace", e.b(), ("Int", c), ("Bytes", b"xy"))), {"lens": (3, 258)})
    for name, mv in HASHES:
        if version >= mv:
            e = E()
            add("op:" + name, e.observe_b(("Un", name, e.tagged(e.b()))), {"lens": (0, 2)})
    if version >= 5 and mode == "A":
        out.extend(wideratio_compound(mode, version, thorough))
    # nested operands (pending operands on the stack while evaluating a deeper one)
    e = E()
    add("op:nest1", e.observe_u(("Bin", "Minus", ("Bin", "Add", e.tagged(e.u()), e.tagged(e.u())),
                                 ("Bin", "Div", e.tagged(e.u()), e.tagged(e.u())))))
    e = E()
    add("op:nest2", e.observe_u(("Bin", "Lt", ("Un", "Len", ("Nary", "Concat", e.tagged(e.b()), e.tagged(e.b()))),
                                 ("Bin", "Mod", e.tagged(e.u()), ("Bin", "BitwiseOr", e.tagged(e.u()), ("Int", 1))))),
        {"lens": (0, 2)})
    return out


def wideratio_compound(mode: str, version: int, thorough: bool = False):
    """WideRatio whose factors have their own code (several blocks, side effects) at every list
    position; factor VALUES are concrete or depend on a symbolic condition only, so the wide
    arithmetic itself stays cheap (the all-values arithmetic is C16's segment contracts)"""
    out = []
    M = 2 ** 64 - 1

    def shapes(e, k):
        return [("Int", 3 + k), e.tagged(("Int", 5 + k), 30 + k), ("Bin", "Add", ("Int", 2 + k), ("Int", 4)),
                ("If", e.u(k % 5), ("Int", 7 + k), ("Int", M)), ("Seq", ("Assert", e.u((k + 1) % 5)), ("Int", 2 + k))]
    for nn, nd in [(1, 2), (2, 1), (2, 2), (3, 1), (3, 2), (1, 3), (3, 3), (4, 2), (2, 4)]:
        for variant in range(5):
            e = Env(mode, version)
            ns = [shapes(e, i)[(i + variant) % 5] for i in range(nn)]
            ds = [shapes(e, i + 3)[(i + variant + 2) % 5] for i in range(nd)]
            out.append(("op:WideRatio:%dx%d:%d" % (nn, nd, variant),
                        prog(mode, ("Seq", e.tag(60), e.observe_u(("Bin", "Minus", ("WideRatio", tuple(ns), tuple(ds)), ("Int", 0))))), {}))
    # the ORDER of the factors matters for which programs fail: a factor that is zero at run time, written before
    # literal factors whose own product does not fit in 128 bits, keeps every running product at zero
    for nm, ns, ds in (("zero-first", ["z", "M", "M", "M"], ["1", "1"]), ("zero-second", ["M", "z", "M", "M"], ["1", "1"]),
                       ("zero-third", ["M", "M", "z", "M"], ["1", "3"]), ("zero-last", ["M", "M", "M", "z"], ["1", "1"]),
                       ("zero-between-runtime", ["m", "z", "M", "M"], ["1", "1"]), ("two-runtime-then-literals", ["m", "m2", "M", "M"], ["M", "1"]),
                       ("zero-first-3", ["z", "M", "M"], ["1", "1"]), ("literal-runtime-alternating", ["M", "m", "M", "z", "M"], ["1", "1"])):
        e = Env(mode, version)
        tr = {"M": lambda: ("Int", M), "1": lambda: ("Int", 1), "3": lambda: ("Int", 3),
              "z": lambda: ("If", e.u(0), ("Int", 0), ("Int", 2)), "m": lambda: ("If", e.u(1), ("Int", M), ("Int", 5)),
              "m2": lambda: ("If", e.u(2), ("Int", 1), ("Int", M))}
        out.append(("op:WideRatio:order:%s" % nm,
                    prog(mode, ("Seq", e.tag(60), e.observe_u(("WideRatio", tuple(tr[k]() for k in ns), tuple(tr[k]() for k in ds))))), {}))
    # LITERAL factors at the magnitudes where the rendering of integers and the constant blocks change shape (2^32, 2^63, 2^64-1, low
    # word with leading zero digits); one run-time factor keeps the program from being a constant
    big = [2 ** 32, 2 ** 32 + 1, 2 ** 40 + 5, 3 * 2 ** 32 + 0x0FFFFFFF, 2 ** 63, 2 ** 63 + 1, 2 ** 64 - 2, M, 2 ** 32 - 1, 2 ** 31]
    for bi, b in enumerate(big):
        e = Env(mode, version)
        rt = ("If", e.u(0), ("Int", 6), ("Int", 1))
        b2 = big[(bi + 3) % len(big)]
        out.append(("op:WideRatio:literal:%d" % bi,
                    prog(mode, ("Seq", e.tag(60), e.observe_u(("WideRatio", (("Int", b), rt), (("Int", 4), ("Int", 2)))),
                                e.observe_u(("WideRatio", (("Int", b), ("Int", b2), rt), (("Int", b2), ("Int", 3)))),
                                e.observe_u(("WideRatio", (rt, ("Int", b2)), (("Int", b), ("Int", 1)))))), {}))
    # factors read from variables (the slot optimiser rewrites exactly this traffic from version 9 on)
    for nm, pre, ns, ds in (
            ("load-after-arm", [("Store", "x", "v1"), ("If", "c", ("Un", "Pop", ("Load", "x"))), ("Store", "x", "v2")], [("Load", "x")], ["3", "5"]),
            ("ratio-in-arm-then-reuse", [("Store", "x", "v1"), ("If", "c", ("Store", "y", ("WideRatio", (("Load", "x"),), (("Int", 3), ("Int", 5)))), ("Store", "y", ("Int", 1))),
                                         ("Store", "x", "v2")], [("Load", "x"), ("Load", "y")], ["5", "3"]),
            ("reuse-first-of-two", [("Store", "x", "v1"), ("If", "c", ("Un", "Pop", ("Load", "x"))), ("Store", "x", "v2")], [("Load", "x"), "3"], ["5", "1"]),
            ("load-twice", [("Store", "x", "v1")], [("Load", "x"), ("Load", "x")], ["3", "1"]),
            ("store-in-factor", [("Store", "x", "v1")], [("Seq", ("Store", "x", "v2"), ("Load", "x")), "3"], [("Load", "x"), "1"]),
            ("two-variables", [("Store", "x", "v1"), ("Store", "y", "v2")], [("Load", "y"), ("Load", "x")], [("Load", "y"), "3"])):
        e = Env(mode, version)
        tr = {"3": ("Int", 3), "5": ("Int", 5), "1": ("Int", 1), "c": e.u(0), "v1": ("If", e.u(1), ("Int", M), ("Int", 7)), "v2": ("If", e.u(2), ("Int", 9), ("Int", M - 1))}

        def sub(t):
            if isinstance(t, str):
                return tr.get(t, t)
            if isinstance(t, tuple):
                return tuple(sub(c) if (isinstance(c, tuple) or (isinstance(c, str) and c in tr and i > 0 and t[0] != "Load" and not (t[0] == "Store" and i == 1))) else c
                             for i, c in enumerate(t))
            return t
        out.append(("op:WideRatio:vars:%s" % nm,
                    prog(mode, ("Seq", e.tag(60)) + tuple(sub(p) for p in pre) + (e.observe_u(("WideRatio", tuple(sub(k) for k in ns), tuple(sub(k) for k in ds))),),
                         {"x": {"t": "u"}, "y": {"t": "u"}}), {}))
    # a factor read by two routines from a variable that the main routine stores and immediately checks
    if version >= 4:
        e = Env(mode, version)
        rate = ("If", e.u(1), ("Int", 30), ("Int", M))
        subs = {"fee": {"params": [("val", "a")], "ret": "u", "body": ("WideRatio", (("Param", "a"), ("Load", "k")), (("Int", 10000), ("Int", 1)))},
                "rest": {"params": [("val", "a")], "ret": "u", "body": ("WideRatio", (("Param", "a"), ("Bin", "Minus", ("Int", 10000), ("Bin", "Mod", ("Load", "k"), ("Int", 10000)))),
                                                                            (("Int", 10000), ("Int", 1)))}}
        out.append(("op:WideRatio:vars:shared-two-readers",
                    prog(mode, ("Seq", e.tag(60), ("Store", "k", rate), ("Assert", ("Bin", "Ge", ("Load", "k"), ("Int", 1))),
                                e.observe_u(("Bin", "Add", ("Call", "fee", ("Int", 1000000)), ("Bin", "Mod", ("Call", "rest", ("Int", 1000000)), ("Int", 7))))), {"k": {"t": "u"}}, subs), {}))
    # a factor that is the result of a call which re-enters the calling routine through a cycle of three routines, the other
    # factor a value the routine holds across that call
    if version >= 4:
        e = Env(mode, version)
        P, Q = ("Param", "n"), ("Bin", "Minus", ("Param", "n"), ("Int", 1))
        subs = {
            "A": {"params": [("val", "n")], "ret": "u", "body": ("Seq", ("Store", "k", ("Bin", "Add", P, ("Int", 1))), ("If", ("Bin", "Eq", P, ("Int", 0)), ("Return", ("Int", 1))),
                                                                 ("Return", ("WideRatio", (("Call", "B", Q), ("Load", "k")), (("Int", 1), ("Int", 1)))))},
            "B": {"params": [("val", "n")], "ret": "u", "body": ("Bin", "Add", ("Call", "C", P), ("Int", 0))},
            "C": {"params": [("val", "n")], "ret": "u", "body": ("Call", "A", P)},
        }
        out.append(("op:WideRatio:vars:recursion3", prog(mode, ("Seq", e.tag(60), e.observe_u(("Call", "A", ("Bin", "Mod", e.u(0), ("Int", 4))))), {"k": {"t": "u"}}, subs),
                    {"call_depth": 12, "max_paths": 400}))
    # one fully symbolic factor among small constants (wide arithmetic with one unknown; ~1 min each)
    if not thorough:
        return out
    for pos in range(3):
        e = Env(mode, version)
        ns = [("Int", 6), ("Int", M), ("Bin", "Add", ("Int", 1), ("Int", 1))]
        ns[pos] = e.u(0)
        out.append(("op:WideRatio:sym-num%d" % pos, prog(mode, e.observe_u(("WideRatio", tuple(ns), (("Int", 4), ("Int", 3))))), {}))
    e = Env(mode, version)
    out.append(("op:WideRatio:sym-den", prog(mode, e.observe_u(("WideRatio", (("Int", M), ("Int", 10)), (e.u(0), ("Bin", "Add", ("Int", 1), ("Int", 2)))))), {}))
    return out


# ---------------------------------------------------------------------------
# (ii) control skeletons
def _fillers(e: Env, in_loop: bool, depth: int = 1) -> List[Tuple[str, Any]]:
    """small statements to put in a hole"""
    fs: List[Tuple[str, Any]] = []
    fs.append(("tag", e.tag(50)))
    fs.append(("assert", ("Assert", e.u(5))))
    fs.append(("assert2", ("Assert", ("Bin", "Lt", e.u(5), ("Int", 9)), e.u(6))))
    fs.append(("assertc", ("AssertC", "a // comment", e.u(5))))
    fs.append(("return", ("Return", e.u(6))))
    fs.append(("approve", ("Approve",)))
    fs.append(("reject", ("Reject",)))
    fs.append(("err", ("Err",)))
    if in_loop:
        fs.append(("break", ("Break",)))
        fs.append(("continue", ("Continue",)))
        fs.append(("if-break", ("If", e.u(7), ("Break",))))
        fs.append(("if-continue", ("If", e.u(7), ("Continue",))))
        fs.append(("ifelse-break-continue", ("If", e.u(7), ("Break",), ("Continue",))))
    fs.append(("if", ("If", e.u(7), e.tag(51))))
    fs.append(("ifelse", ("If", e.u(7), e.tag(51), e.tag(52))))
    fs.append(("if-return", ("If", e.u(7), ("Return", ("Int", 5)))))
    fs.append(("ifchain", ("IfChain", ((e.u(7), e.tag(51)), (e.u(8), e.tag(52))), e.tag(53))))
    fs.append(("ifchain-noelse", ("IfChain", ((e.u(7), e.tag(51)), (e.u(8), ("Return", ("Int", 4)))), None)))
    fs.append(("cond1", ("Cond", (e.u(7), e.tag(51)))))
    fs.append(("cond3", ("Cond", (e.u(7), e.tag(51)), (e.u(8), e.tag(52)), (("Int", 1), e.tag(53)))))
    fs.append(("seq", ("Seq", e.tag(51), e.tag(52))))
    return fs


def _contexts(e: Env) -> List[Tuple[str, Any, bool, Dict]]:
    """one-hole contexts: (name, fn(hole)->main, hole_in_loop, vars)"""
    cs = []
    V = {"i": {"t": "u"}, "j": {"t": "u"}}

    def inc(v):
        return ("Store", v, ("Bin", "Add", ("Load", v), ("Int", 1)))

    cs.append(("top", lambda h: ("Seq", e.tag(1), h, e.tag(2), ("Return", ("Int", 1))), False, {}))
    cs.append(("if-then", lambda h: ("Seq", e.tag(1), ("If", e.u(0), ("Seq", e.tag(2), h, e.tag(3))), e.tag(4),
                                     ("Return", ("Int", 1))), False, {}))
    cs.append(("if-else", lambda h: ("Seq", e.tag(1), ("If", e.u(0), e.tag(2), ("Seq", h, e.tag(3))), e.tag(4),
                                     ("Return", ("Int", 1))), False, {}))
    cs.append(("ifchain-mid", lambda h: ("Seq", ("IfChain", ((e.u(0), e.tag(1)), (e.u(1), ("Seq", h, e.tag(2)))), e.tag(3)),
                                         e.tag(4), ("Return", ("Int", 1))), False, {}))
    cs.append(("cond-arm", lambda h: ("Seq", ("Cond", (e.u(0), e.tag(1)), (e.u(1), ("Seq", e.tag(2), h)), (("Int", 1), e.tag(3))),
                                      e.tag(4), ("Return", ("Int", 1))), False, {}))
    cs.append(("while", lambda h: ("Seq", ("Store", "i", ("Int", 0)),
                                   ("While", ("Bin", "Lt", ("Load", "i"), e.u(0)),
                                    ("Seq", e.tag(1), inc("i"), h, e.tag(2))),
                                   e.tag(3), ("Return", ("Load", "i"))), True, V))
    cs.append(("while-inc-after", lambda h: ("Seq", ("Store", "i", ("Int", 0)),
                                             ("While", ("Bin", "Lt", ("Load", "i"), e.u(0)),
                                              ("Seq", e.tag(1), h, inc("i"))),
                                             e.tag(3), ("Return", ("Load", "i"))), True, V))
    cs.append(("while-last", lambda h: ("Seq", ("Store", "i", ("Int", 0)),
                                        ("While", ("Bin", "Lt", ("Load", "i"), e.u(0)),
                                         ("Seq", e.tag(1), inc("i"), h)),
                                        e.tag(3), ("Return", ("Load", "i"))), True, V))
    cs.append(("for-last", lambda h: ("Seq", e.tag(9), ("For", ("Store", "i", ("Int", 0)), ("Bin", "Lt", ("Load", "i"), e.u(0)), inc("i"),
                                                        ("Seq", e.tag(1), h)),
                                      e.tag(3), ("Return", ("Load", "i"))), True, V))
    cs.append(("for-only", lambda h: ("Seq", e.tag(9), ("For", ("Store", "i", ("Int", 0)), ("Bin", "Lt", ("Load", "i"), e.u(0)), inc("i"), h),
                                      e.tag(3), ("Return", ("Load", "i"))), True, V))
    cs.append(("while-nested-last", lambda h: ("Seq", ("Store", "i", ("Int", 0)),
                                               ("While", ("Bin", "Lt", ("Load", "i"), e.u(0)),
                                                ("Seq", inc("i"), ("Store", "j", ("Int", 0)),
                                                 ("While", ("Bin", "Lt", ("Load", "j"), e.u(1)), ("Seq", inc("j"), e.tag(1), h)),
                                                 e.tag(2))),
                                               ("Return", ("Load", "i"))), True, V))
    cs.append(("for", lambda h: ("Seq", e.tag(9), ("For", ("Store", "i", ("Int", 0)), ("Bin", "Lt", ("Load", "i"), e.u(0)), inc("i"),
                                                   ("Seq", e.tag(1), h, e.tag(2))),
                                 e.tag(3), ("Return", ("Load", "i"))), True, V))
    cs.append(("for-in-if", lambda h: ("Seq", e.tag(9), ("If", e.u(1),
                                                          ("For", ("Store", "i", ("Int", 0)), ("Bin", "Lt", ("Load", "i"), e.u(0)), inc("i"),
                                                           ("Seq", h, e.tag(2))), e.tag(5)),
                                       e.tag(3), ("Return", ("Int", 1))), True, V))
    cs.append(("nested-inner", lambda h: ("Seq", ("Store", "i", ("Int", 0)),
                                          ("While", ("Bin", "Lt", ("Load", "i"), e.u(0)),
                                           ("Seq", inc("i"),
                                            ("For", ("Store", "j", ("Int", 0)), ("Bin", "Lt", ("Load", "j"), e.u(1)), inc("j"),
                                             ("Seq", e.tag(1), h)),
                                            e.tag(2))),
                                          ("Return", ("Bin", "Add", ("Load", "i"), ("Int", 1)))), True, V))
    cs.append(("nested-outer-after-inner", lambda h: ("Seq", ("Store", "i", ("Int", 0)),
                                                      ("While", ("Bin", "Lt", ("Load", "i"), e.u(0)),
                                                       ("Seq", inc("i"),
                                                        ("For", ("Store", "j", ("Int", 0)), ("Bin", "Lt", ("Load", "j"), e.u(1)), inc("j"),
                                                         e.tag(1)),
                                                        h, e.tag(2))),
                                                      ("Return", ("Int", 1))), True, V))
    cs.append(("if-in-while-else", lambda h: ("Seq", ("Store", "i", ("Int", 0)),
                                              ("While", ("Bin", "Lt", ("Load", "i"), e.u(0)),
                                               ("Seq", inc("i"), ("If", e.u(1), e.tag(1), ("Seq", h, e.tag(2))), e.tag(3))),
                                              ("Return", ("Int", 1))), True, V))
    return cs


def _value_fillers(e: Env) -> List[Tuple[str, Any]]:
    """uint64-valued control expressions"""
    vs = []
    vs.append(("if-value", ("If", e.u(0), e.tagged(e.u(1), 1), e.tagged(e.u(2), 2))))
    vs.append(("ifchain-value", ("IfChain", ((e.u(0), e.tagged(("Int", 1), 1)), (e.u(1), e.tagged(("Int", 2), 2))), e.tagged(e.u(3), 3))))
    vs.append(("cond-value", ("Cond", (e.u(0), e.tagged(("Int", 10), 1)), (e.u(1), e.tagged(e.u(2), 2)))))
    vs.append(("seq-value", ("Seq", e.tag(1), ("Assert", e.u(0)), e.u(1))))
    vs.append(("if-value-return", ("If", e.u(0), e.u(1), ("Seq", ("Return", ("Int", 9)), ("Int", 0))) if False else
               ("If", e.u(0), e.u(1), e.u(2))))
    vs.append(("nested-if", ("If", e.u(0), ("If", e.u(1), ("Int", 1), ("Int", 2)), ("If", e.u(2), ("Int", 3), ("Int", 4)))))
    return vs


def control_family(mode: str, version: int, thorough: bool = False):
    out = []
    e = Env(mode, version)
    for cname, cfn, in_loop, V in _contexts(e):
        for fname, f in _fillers(e, in_loop):
            out.append(("ctl:%s:%s" % (cname, fname), prog(mode, cfn(f), dict(V)), {}))
    # value positions
    for vname, v in _value_fillers(e):
        out.append(("ctl:value:ret:%s" % vname, prog(mode, ("Return", v)), {}))
        out.append(("ctl:value:operandL:%s" % vname,
                    prog(mode, ("Return", ("Bin", "Minus", v, e.tagged(e.u(4), 7)))), {}))
        out.append(("ctl:value:operandR:%s" % vname,
                    prog(mode, ("Return", ("Bin", "Minus", e.tagged(e.u(4), 7), v))), {}))
        out.append(("ctl:value:stored:%s" % vname,
                    prog(mode, ("Seq", ("Store", "x", v), e.tag(8), ("Return", ("Load", "x"))), {"x": {"t": "u"}}), {}))
        out.append(("ctl:value:cond-of-while:%s" % vname,
                    prog(mode, ("Seq", ("Store", "i", ("Int", 0)),
                                ("While", ("Bin", "Lt", ("Load", "i"), v),
                                 ("Seq", e.tag(6), ("Store", "i", ("Bin", "Add", ("Load", "i"), ("Int", 1))))),
                                ("Return", ("Load", "i"))), {"i": {"t": "u"}}), {}))
    # implicit return (main routine's value is its last expression)
    out.append(("ctl:implicit-return", prog(mode, ("Seq", e.tag(1), e.u(0))), {}))
    out.append(("ctl:implicit-return-if", prog(mode, ("If", e.u(0), ("Seq", e.tag(1), e.u(1)), e.u(2))), {}))
    # scratch variables: several cells, bytes and uint, read back after branches
    out.append(("ctl:vars", prog(mode, ("Seq", ("Store", "a", e.u(0)), ("Store", "b", e.b(0)),
                                        ("If", e.u(1), ("Store", "a", ("Bin", "Add", ("Load", "a"), ("Int", 1))),
                                         ("Store", "b", ("Nary", "Concat", ("Load", "b"), ("Bytes", b"z")))),
                                        ("Store", "c", ("Un", "Len", ("Load", "b"))),
                                        ("Return", ("Bin", "Add", ("Load", "a"), ("Load", "c")))),
                                 {"a": {"t": "u"}, "b": {"t": "b"}, "c": {"t": "u"}}), {"lens": (0, 2)}))
    return out


def env_family(mode: str, version: int):
    """state, MaybeValue/MultiValue reads, inner transactions, group access"""
    out = []
    e = Env(mode, version)
    if mode != "A":
        # LogicSig: args and group reads
        out.append(("env:lsig-args", prog(mode, ("Return", ("Bin", "Eq", ("Nary", "Concat", ("LsigArg", 0), ("LsigArg", 1)), ("Txn", "Note")))),
                    {"lens": (0, 1)}))
        out.append(("env:gtxn", prog(mode, ("Return", ("Bin", "Add", ("Gtxn", 1, "Amount"), ("Gtxn", 0, "Fee")))),
                    {"group_index_options": (0, 1)}))
        # indices computed at run time (txnas / args / gtxns / gtxnsas forms); the index expression is kept small so that
    # only a few of the 256 / 16 alternatives are feasible
    ix = ("Bin", "Mod", e.u(3), ("Int", 3))
    if mode == "A" and version >= 5:
        out.append(("env:rt-index:apparg", prog(mode, ("Seq", e.tag(1), ("Return", ("Un", "Len", ("AppArgRt", ix))))), {"lens": (0, 1, 2)}))
        out.append(("env:rt-index:apparg-order", prog(mode, ("Return", ("Un", "Len", ("Nary", "Concat", ("AppArgRt", e.tagged(ix, 2)), ("AppArgRt", e.tagged(("Int", 1), 3)))))),
                    {"lens": (0, 1, 2)}))
    if mode == "S" and version >= 5:
        out.append(("env:rt-index:lsigarg", prog(mode, ("Return", ("Un", "Len", ("LsigArgRt", ix)))), {"lens": (0, 1, 2)}))
    if version >= 3:
        out.append(("env:rt-index:gtxn", prog(mode, ("Return", ("Bin", "Add", ("GtxnRt", ix, "Amount"), ("GtxnRt", ("Int", 0), "Fee")))), {}))
        out.append(("env:rt-index:gtxn-const-vs-rt", prog(mode, ("Return", ("Bin", "Eq", ("GtxnRt", ("Bin", "Mod", e.u(3), ("Int", 2)), "Amount"), ("Gtxn", 1, "Amount")))), {}))
    if mode == "A" and version >= 5:
        out.append(("env:rt-index:gtxn-arg", prog(mode, ("Return", ("Un", "Len", ("GtxnArgRt", ("Bin", "Mod", e.u(3), ("Int", 2)), ("Bin", "Mod", e.u(4), ("Int", 2)))))), {"lens": (0, 1)}))
        out.append(("env:rt-index:gtxn-arg-const-group", prog(mode, ("Return", ("Un", "Len", ("GtxnArgRt", 0, ("Bin", "Mod", e.u(4), ("Int", 2)))))), {"lens": (0, 1)}))
    return out
    K1, K2 = ("Bytes", b"k1"), ("Bytes", b"k2")
    out.append(("env:gput-gget", prog(mode, ("Seq", ("GPut", K1, e.u(0)), e.tag(1), ("GPut", K2, e.b(0)),
                                             ("Return", ("Bin", "Eq", ("GGet", K1), e.u(1))))), {"lens": (0, 2)}))
    out.append(("env:gget-init", prog(mode, ("Seq", e.tag(1), ("Return", ("Bin", "Eq", ("GGet", K1), ("Int", 5))))),
                {"state_kinds": ("absent", "uint")}))
    out.append(("env:gdel", prog(mode, ("Seq", ("GPut", K1, ("Int", 3)), ("GDel", K1), ("GPut", K2, ("GGet", K1)),
                                        ("Return", ("Int", 1)))), {}))
    out.append(("env:local", prog(mode, ("Seq", ("LPut", ("Int", 0), K1, e.u(0)), e.tag(1),
                                         ("LPut", ("Txn", "Sender"), K2, ("LGet", ("Int", 0), K1)) if version >= 4 else
                                         ("LPut", ("Int", 1), K2, ("LGet", ("Int", 0), K1)),
                                         ("LDel", ("Int", 0), K1),
                                         ("Return", ("Bin", "Eq", ("LGet", ("Int", 0), K1), ("Int", 0))))),
                {"state_kinds": ("absent", "uint")}))
    out.append(("env:ggetex", prog(mode, ("MaybeSeq", "GGetEx", (("Int", 0), K1),
                                          ("Seq", e.tag(1), ("If", ("MHas",), ("Return", ("Bin", "Eq", ("MVal",), ("Int", 7))), ("Return", ("Int", 2)))))),
                {"state_kinds": ("absent", "uint")}))
    out.append(("env:ggetex-other-app", prog(mode, ("MaybeSeq", "GGetEx", (e.u(0), K1),
                                                    ("Seq", e.tag(1), ("Return", ("Bin", "Add", ("MHas",), ("Int", 1)))))),
                {"state_kinds": ("absent", "uint")}))
    out.append(("env:lgetex", prog(mode, ("MaybeSeq", "LGetEx", (("Int", 0), ("Int", 0), K1),
                                          ("If", ("MHas",), ("Return", ("Un", "Len", ("MVal",))), ("Return", ("Int", 0))))),
                {"state_kinds": ("absent", "bytes"), "lens": (0, 2)}))
    out.append(("env:asset-holding", prog(mode, ("MaybeSeq", ("maybe", "asset_holding_get", "AssetBalance", "U"),
                                                 (e.tagged(("Int", 0), 1), e.tagged(e.u(0), 2)),
                                                 ("Seq", e.tag(3), ("Return", ("Bin", "Add", ("MVal",), ("MHas",)))))), {}))
    out.append(("env:asset-param", prog(mode, ("MaybeSeq", ("maybe", "asset_params_get", "AssetTotal", "U"),
                                               (e.u(0),),
                                               ("Return", ("If", ("MHas",), ("MVal",), ("Int", 0))))), {}))
    out.append(("env:two-maybes", prog(mode, ("MaybeSeq", ("maybe", "asset_holding_get", "AssetBalance", "U"),
                                              (("Int", 0), e.u(0)),
                                              ("Seq", ("Store", "a", ("MVal",)),
                                               ("MaybeSeq", ("maybe", "asset_holding_get", "AssetFrozen", "U"),
                                                (("Int", 0), e.u(1)),
                                                ("Return", ("Bin", "Minus", ("Load", "a"), ("MVal",)))))),
                                       {"a": {"t": "u"}}), {}))
    out.append(("env:gtxn", prog(mode, ("Seq", e.tag(1), ("Return", ("Bin", "Add", ("Gtxn", 1, "Amount"), ("Gtxn", 0, "Fee"))))),
                {"group_index_options": (0, 1)}))
    out.append(("env:globals", prog(mode, ("Return", ("Bin", "Add", ("Global", "GroupSize"),
                                                      ("Bin", "Add", ("Global", "MinTxnFee"), ("Global", "Round"))))), {}))
    out.append(("env:txn-bytes", prog(mode, ("Return", ("Nary", "And", ("Bin", "Eq", ("Txn", "Sender"), ("Txn", "Receiver")),
                                                        ("Bin", "Eq", ("Txn", "RekeyTo"), ("Global", "ZeroAddress"))))), {}))
    if version >= 5:
        pay = ("Seq", ("Itxn", "Begin"), ("ItxnField", "TypeEnum", ("Int", 1)), ("ItxnField", "Amount", e.tagged(e.u(0), 1)),
               ("ItxnField", "Receiver", e.tagged(("Txn", "Sender"), 2)), ("Itxn", "Submit"), e.tag(3), ("Return", ("Int", 1)))
        out.append(("env:itxn-pay", prog(mode, pay), {}))
        out.append(("env:itxn-in-branch", prog(mode, ("Seq", ("If", e.u(1), ("Seq", ("Itxn", "Begin"), ("ItxnField", "Fee", ("Int", 0)),
                                                                              ("ItxnField", "Note", e.b(0)), ("Itxn", "Submit"))),
                                                      ("Return", ("Int", 1)))), {"lens": (0, 2)}))
    if version >= 6:
        grp = ("Seq", ("Itxn", "Begin"), ("ItxnField", "TypeEnum", ("Int", 1)), ("ItxnField", "Amount", e.u(0)),
               ("Itxn", "Next"), ("ItxnField", "TypeEnum", ("Int", 4)), ("ItxnField", "AssetAmount", e.u(1)),
               ("ItxnField", "XferAsset", e.u(2)), ("Itxn", "Submit"),
               ("Itxn", "Begin"), ("ItxnField", "TypeEnum", ("Int", 6)), ("ItxnField", "ApplicationArgs", ("Bytes", b"a")),
               ("ItxnField", "ApplicationArgs", e.b(0)), ("Itxn", "Submit"), ("Return", ("Int", 1)))
        out.append(("env:itxn-group", prog(mode, grp), {"lens": (0, 2)}))
    return out


# ---------------------------------------------------------------------------
# (iii) seeded random programs
class RandomGen:
    def __init__(self, rng: random.Random, mode: str, version: int, max_nodes: int = 40):
        self.r = rng
        self.e = Env(mode, version)
        self.mode = mode
        self.version = version
        self.budget = max_nodes
        self.vars: Dict[str, Dict] = {}
        self.nvars = 0
        self.ncond = 0
        self.loop_depth = 0

    def cond(self):
        self.ncond += 1
        c = self.r.choice(["in", "cmp", "not", "and"]) if self.ncond < 6 else "const"
        if c == "in":
            return self.e.u(self.r.randrange(9))
        if c == "cmp":
            return ("Bin", self.r.choice(["Lt", "Eq", "Ge", "Neq"]), self.e.u(self.r.randrange(9)), ("Int", self.r.choice([0, 1, 5])))
        if c == "not":
            return ("Un", "Not", self.e.u(self.r.randrange(9)))
        if c == "and":
            return ("Nary", self.r.choice(["And", "Or"]), self.e.u(self.r.randrange(9)), self.e.u(self.r.randrange(9)))
        return ("Int", self.r.choice([0, 1]))

    def uexpr(self, d=2):
        self.budget -= 1
        ch = self.r.random()
        if d <= 0 or self.budget <= 0 or ch < 0.3:
            k = self.r.random()
            if k < 0.5:
                return self.e.u(self.r.randrange(9))
            if k < 0.8 or not self.vars:
                return ("Int", self.r.choice([0, 1, 2, 7, 255, 2 ** 32, 2 ** 64 - 1]))
            return ("Load", self.r.choice(sorted(self.vars)))
        if ch < 0.6:
            op = self.r.choice(["Add", "Minus", "Mul", "Div", "Mod", "Lt", "Eq", "BitwiseAnd", "BitwiseOr", "Gt"])
            return ("Bin", op, self.uexpr(d - 1), self.uexpr(d - 1))
        if ch < 0.7:
            return ("If", self.cond(), self.uexpr(d - 1), self.uexpr(d - 1))
        if ch < 0.8:
            return ("Seq", self.e.tag(self.r.randrange(20, 40)), self.uexpr(d - 1))
        if ch < 0.9:
            return ("Un", self.r.choice(["Not", "BitwiseNot"]), self.uexpr(d - 1))
        return ("Cond", (self.cond(), self.uexpr(d - 1)), (("Int", 1), self.uexpr(d - 1)))

    def newvar(self):
        v = "v%d" % self.nvars
        self.nvars += 1
        return v

    def stmt(self, d=3):
        self.budget -= 1
        ch = self.r.random()
        if d <= 0 or self.budget <= 0 or ch < 0.25:
            k = self.r.random()
            if k < 0.5:
                return self.e.tag(self.r.randrange(1, 20))
            if k < 0.7:
                return ("Assert", self.cond())
            if k < 0.8 and self.loop_depth:
                return self.r.choice([("Break",), ("Continue",)])
            if k < 0.9:
                return ("Return", self.uexpr(1))
            return ("Un", "Pop", self.uexpr(1))
        if ch < 0.4:
            v = self.newvar()
            s = ("Store", v, self.uexpr(2))
            self.vars[v] = {"t": "u"}
            return s
        if ch < 0.6:
            if self.r.random() < 0.5:
                return ("If", self.cond(), self.block(d - 1))
            return ("If", self.cond(), self.block(d - 1), self.block(d - 1))
        if ch < 0.7:
            return ("IfChain", ((self.cond(), self.block(d - 1)), (self.cond(), self.block(d - 1))),
                    self.block(d - 1) if self.r.random() < 0.5 else None)
        if ch < 0.8:
            return ("Cond", (self.cond(), self.block(d - 1)), (self.cond(), self.block(d - 1)))
        if ch < 0.9:
            v = self.newvar()
            self.loop_depth += 1
            saved = dict(self.vars)
            body = self.block(d - 1)
            self.vars = saved   # variables first written inside the loop body are not visible after it
            self.loop_depth -= 1
            init = ("Store", v, ("Int", 0))
            self.vars[v] = {"t": "u"}
            cond = ("Bin", "Lt", ("Load", v), self.e.u(self.r.randrange(9)))
            inc = ("Store", v, ("Bin", "Add", ("Load", v), ("Int", 1)))
            if self.r.random() < 0.5:
                return ("For", init, cond, inc, body)
            return ("Seq", init, ("While", cond, ("Seq", inc, body)))
        return ("Seq", self.stmt(d - 1), self.stmt(d - 1))

    def block(self, d):
        n = self.r.choice([1, 1, 2, 3])
        saved = dict(self.vars)
        stmts = [self.stmt(d) for _ in range(n)]
        allv = dict(self.vars)
        self.vars = saved   # stores inside a branch do not dominate what follows
        self._declared = getattr(self, "_declared", {})
        self._declared.update(allv)
        return ("Seq",) + tuple(stmts) if len(stmts) > 1 else stmts[0]

    def program(self):
        self._declared = {}
        stmts = [self.e.tag(0)]
        for _ in range(self.r.choice([2, 3, 4, 5])):
            stmts.append(self.stmt(3))
            self._declared.update(self.vars)
        stmts.append(("Return", self.uexpr(2)))
        return prog(self.mode, ("Seq",) + tuple(stmts), dict(self._declared))


def random_family(mode: str, version: int, seed: int, n: int, max_nodes: int = 40):
    out = []
    for i in range(n):
        rng = random.Random((seed * 1000003 + i) * 31 + version)
        g = RandomGen(rng, mode, version, max_nodes)
        out.append(("rnd:%d:%d" % (seed, i), g.program(), {}))
    return out
