"""C14: InnerTxnBuilder.ExecuteMethodCall marshals an inner application call per ARC-4.

Program: the arguments are made from the OUTER call's (symbolic) application arguments - plain
arguments as ABI values built with set(...) or as already-encoded byte expressions, reference
arguments as expressions, transaction arguments as field dictionaries - and the inner call is
executed.  SymAVM records the submitted inner group; the ARC-4 client model says what that group
must be (selector, encoded plain arguments in order, 15th and later packed as one tuple, reference
arguments appended to the foreign arrays and passed as their one-byte index, transaction arguments
as the preceding members of the group)."""
from typing import Any, Dict, List, Optional, Tuple

import z3

from .avm.ctx import CtxConfig
from .avm.engine import Engine, HarnessError, Outcome
from .avm.sym import Bounds, SymAVM
from .avm.values import Bs, U, u64_to_bytes
from .common import to_json
from .teal.parse import TealSyntaxError, blocking_complaints, check_program, parse
from .arc4 import model as M, types as T
from .arc4.abijob import tt
from .router import selector, PYTEAL_ERRORS
from . import tv

TXN_CODE = {"pay": 1, "keyreg": 2, "acfg": 3, "axfer": 4, "afrz": 5, "appl": 6}
APP_ID = 77


def sig_string(call) -> str:
    ps = []
    for a in call["args"]:
        ps.append(T.T_str(tt(a["t"])) if a["kind"] in ("abi", "raw", "wrong") else a["t"])
    return "%s(%s)%s" % (call.get("name", "callee"), ",".join(ps), call.get("ret", "void"))


NOUTER = 14


def outer_arg(j):
    """outer application argument feeding inner argument j (an outer call has at most 16 arguments, so
    inner arguments beyond the 14th share the outer ones)"""
    import pyteal as pt
    return pt.Txn.application_args[j % NOUTER]


def build_program(call):
    """-> pyteal Expr.  Outer application argument j feeds inner argument j."""
    import pyteal as pt
    steps = []
    args = []
    txn_type = {"pay": pt.TxnType.Payment, "axfer": pt.TxnType.AssetTransfer, "keyreg": pt.TxnType.KeyRegistration,
                "acfg": pt.TxnType.AssetConfig, "afrz": pt.TxnType.AssetFreeze, "appl": pt.TxnType.ApplicationCall}
    for j, a in enumerate(call["args"]):
        k = a["kind"]
        if k == "raw":
            args.append(outer_arg(j))
        elif k in ("abi", "wrong"):
            t = tt(a["given"]) if k == "wrong" else tt(a["t"])
            inst, st = _abi_from_outer(t, j)
            steps += st
            args.append(inst)
        elif k == "ref":
            if a.get("same") is not None:
                # the SAME Python expression object as an earlier reference argument (what `x = Txn.assets[0]; f(x, y, x)` gives)
                args.append(args[a["same"]])
            elif a["t"] == "account":
                args.append(outer_arg(j))
            else:
                args.append(pt.Btoi(outer_arg(j)))
        elif k == "txn":
            given = a.get("given", a["t"] if a["t"] != "txn" else "pay")
            d = {pt.TxnField.type_enum: txn_type[given], pt.TxnField.fee: pt.Btoi(outer_arg(j))}
            args.append(d)
        else:
            raise HarnessError("argument kind %r" % k)
    extra = {pt.TxnField.fee: pt.Int(0)} if call.get("extra", True) else None
    mc = pt.InnerTxnBuilder.ExecuteMethodCall(app_id=pt.Int(APP_ID), method_signature=sig_string(call), args=args, extra_fields=extra)
    return pt.Seq(*steps, mc, pt.Approve())


def _abi_from_outer(t, j):
    """ABI value of type t assembled with set(...) from outer argument j (concrete layout as in arc4/programs.py)"""
    import pyteal as pt
    from .arc4 import programs as P
    b = P.EncodeBuilder(t, [2])
    # redirect the builder's input slices to outer argument j
    saved = P._arg_slice
    try:
        P._arg_slice = lambda off, width: (pt.Bytes(b"") if width == 0 else pt.Extract(outer_arg(j), pt.Int(off), pt.Int(width)))
        root = b.build()
    finally:
        P._arg_slice = saved
    return root, list(b.steps)


def input_model(call):
    """symbolic outer arguments -> (presets: arg index -> byte terms, inner argument encodings, reference values, txn fee terms, range violation)"""
    from .arc4.abijob import encode_oracle
    presets: Dict[int, List[Any]] = {}
    plain: Dict[int, List[Any]] = {}
    refs: Dict[int, Any] = {}
    fees: Dict[int, Any] = {}
    viol = []
    for j, a in enumerate(call["args"]):
        k = a["kind"]
        name = "oa%d" % (j % NOUTER)
        if k == "raw":
            n = a.get("len", 3)
            bs = [z3.BitVec("%s#%d" % (name, i), 8) for i in range(n)]
            presets[j] = bs
            plain[j] = bs
        elif k == "abi":
            t = tt(a["t"])
            layout: List[Tuple] = []
            from .arc4 import programs as P
            P.leaf_layout(t, M.LenPlan([2]), layout)
            total = (layout[-1][3] + layout[-1][4]) if layout else 0
            bs = [z3.BitVec("%s#%d" % (name, i), 8) for i in range(total)]
            presets[j] = bs
            v, vio = _value_from_bytes(t, bs)
            if not isinstance(vio, bool):
                viol.append(vio)
            plain[j] = M.enc(t, v)
        elif k == "ref":
            n = 32 if a["t"] == "account" else 8
            bs = [z3.BitVec("%s#%d" % (name, i), 8) for i in range(n)]
            presets[j] = bs
            refs[j] = bs if a["t"] == "account" else z3.Concat(*bs)
            if a.get("same") is not None:
                refs[j] = refs[a["same"]]
        elif k == "txn":
            bs = [z3.BitVec("%s#%d" % (name, i), 8) for i in range(8)]
            presets[j] = bs
            fees[j] = z3.Concat(*bs)
    return presets, plain, refs, fees, (z3.Or(*viol) if viol else False)


def _value_from_bytes(t, bs):
    """value tree of type t whose leaves are read from the packed byte terms (same layout as EncodeBuilder)"""
    from .arc4 import programs as P
    layout: List[Tuple] = []
    P.leaf_layout(t, M.LenPlan([2]), layout)
    it = iter(layout)
    viol = []

    def walk(t, plan):
        k = t[0]
        if k in ("bool", "byte", "uint", "address", "string", "dbytes"):
            (path, kind, bits, off, width) = next(it)
            if k in ("string", "dbytes"):
                plan.next()
            b = bs[off:off + width]
            if k == "bool":
                return b[0] != z3.BitVecVal(0, 8)
            if kind == "uint":
                u = z3.Concat(*b) if len(b) > 1 else b[0]
                if bits < 64:
                    viol.append(z3.UGE(u, z3.BitVecVal(1 << bits, 64)))
                return z3.Extract(bits - 1, 0, u)
            return b
        if k == "darray":
            n = plan.next()
            return [walk(t[1], plan) for _ in range(n)]
        if k == "sarray":
            return [walk(t[1], plan) for _ in range(t[2])]
        return [walk(m, plan) for m in t[1]]
    v = walk(t, M.LenPlan([2]))
    return v, (z3.Or(*viol) if viol else False)


def expected_group(call, plain, refs, fees):
    """the inner group an ARC-4 client builds: list of txns, each a dict field -> list of values (terms)"""
    group = []
    app_args: List[Any] = [Bs(list(selector(sig_string(call))))]
    accts, apps, assets = [], [], []
    non_txn = [j for j, a in enumerate(call["args"]) if a["kind"] != "txn"]
    encs: Dict[int, Any] = {}
    for j, a in enumerate(call["args"]):
        k = a["kind"]
        if k == "txn":
            given = a.get("given", a["t"] if a["t"] != "txn" else "pay")
            group.append({"TypeEnum": [U(TXN_CODE[given])], "Fee": [U(fees[j])]})
        elif k == "ref":
            if a["t"] == "account":
                accts.append(Bs(list(refs[j])))
                encs[j] = [len(accts)]
            elif a["t"] == "application":
                apps.append(U(refs[j]))
                encs[j] = [len(apps)]
            else:
                encs[j] = [len(assets)]
                assets.append(U(refs[j]))
        else:
            encs[j] = plain[j]
    if len(non_txn) > 15:
        for j in non_txn[:14]:
            app_args.append(Bs(list(encs[j])))
        rest = non_txn[14:]
        # the packed tuple: members typed as declared; already-encoded members are spliced by the model only for static types
        ts, vs = [], []
        packed = _pack_encoded([(call["args"][j], encs[j]) for j in rest])
        app_args.append(Bs(packed))
    else:
        for j in non_txn:
            app_args.append(Bs(list(encs[j])))
    appl = {"TypeEnum": [U(6)], "ApplicationID": [U(APP_ID)], "ApplicationArgs": app_args}
    if accts:
        appl["Accounts"] = accts
    if apps:
        appl["Applications"] = apps
    if assets:
        appl["Assets"] = assets
    if call.get("extra", True):
        appl["Fee"] = [U(0)]
    group.append(appl)
    return group


def _pack_encoded(items):
    """tuple encoding of members given by their individual encodings (static members in place, dynamic ones via offsets)"""
    heads, tails = [], []
    for a, e in items:
        dyn = a["kind"] in ("abi", "raw", "wrong") and T.is_dynamic(tt(a["t"]))
        if dyn:
            heads.append(("off", len(tails)))
            tails.append(list(e))
        else:
            heads.append(list(e))
    # (bool members would need packing; the families avoid bools among the packed members)
    head_len = sum(2 if isinstance(h, tuple) else len(h) for h in heads)
    out, cur, offs = [], head_len, []
    for tl in tails:
        offs.append(cur)
        cur += len(tl)
    for h in heads:
        out += list(offs[h[1]].to_bytes(2, "big")) if isinstance(h, tuple) else h
    for tl in tails:
        out += tl
    return out


def canon_effects(effects):
    """('itxn_submit', group) -> flat, order-insensitive-per-field canonical effects"""
    out = []
    for e in effects:
        if e[0] != "itxn_submit":
            out.append(e)
            continue
        out.append(("inner-group-size", len(e[1])))
        for k, txn in enumerate(e[1]):
            d: Dict[str, List[Any]] = {}
            for f, v in txn:
                d.setdefault(f, []).append(v)
            for f in sorted(d):
                out.append(("inner-field", k, f, len(d[f])) + tuple(d[f]))
    return out


def expected_effects(group):
    out = [("inner-group-size", len(group))]
    for k, d in enumerate(group):
        for f in sorted(d):
            out.append(("inner-field", k, f, len(d[f])) + tuple(d[f]))
    return out


def compile_call(call, version, assemble=False):
    import pyteal as pt
    from .recipe.build import reset_pyteal_state
    reset_pyteal_state()
    try:
        ast = build_program(call)
        return pt.compileTeal(ast, pt.Mode.Application, version=version, assembleConstants=assemble), "ok", ""
    except Exception as e:  # noqa
        name = type(e).__name__
        return None, ("rejected" if name in PYTEAL_ERRORS else "crash"), "%s: %s" % (name, str(e)[:200])
    finally:
        reset_pyteal_state()


def inner_job(job: Dict[str, Any]) -> Dict[str, Any]:
    call = job["call"]
    out = {"id": job["id"], "family": job.get("family"), "version": job["version"], "status": "ok", "violations": [], "complaints": [],
           "obligations": 0, "discharged": 0, "inconclusive": 0, "ref_paths": 0, "teal_paths": 0, "ref_cut": 0, "nonfail": 0, "replayed": 0, "unconfirmed": 0}
    teal, st, detail = compile_call(call, job["version"], job.get("assemble", False))
    out["status"], out["detail"] = st, detail
    ill = any(a["kind"] == "wrong" or (a["kind"] == "txn" and a.get("given") and a["t"] != "txn" and a["given"] != a["t"]) for a in call["args"])
    base = {"call": call, "signature": sig_string(call), "version": job["version"], "job": job}
    if ill:
        # ill-typed arguments must be rejected when the expression is built
        out["obligations"] = 1
        if st == "ok":
            out["violations"].append(dict(base, kind="ill-typed-argument-accepted", features=[], teal=teal[-1500:]))
            out["replayed"] = 1
        else:
            out["discharged"] = 1
            out["status"] = "ok"
            out["nonfail"] = 1
        return out
    if st != "ok":
        return out
    try:
        prog = parse(teal)
    except TealSyntaxError as e:
        out["complaints"] = ["unparsable: %s" % e]
        return out
    out["complaints"] = blocking_complaints(prog, "A")
    if out["complaints"]:
        out["teal"] = teal
        return out
    presets, plain, refs, fees, viol = input_model(call)
    cfg = CtxConfig(mode="A", version=job["version"])
    for j, bs in presets.items():
        if j < NOUTER:
            cfg.presets["g0.ApplicationArgs[%d]" % j] = bs
        elif len(bs) != len(presets[j % NOUTER]):
            raise HarnessError("inner arguments %d and %d share an outer argument but need different widths" % (j, j % NOUTER))
    na = z3.BitVec("g0.NumAppArgs", 64)
    pre = [na == z3.BitVecVal(max(1, min(NOUTER, len(call["args"]))), 64)]
    eff = expected_effects(expected_group(call, plain, refs, fees))
    shape = {"GroupIndex": 0}
    refs_o = []
    if isinstance(viol, bool):
        refs_o.append(Outcome(pre, "return", ret=U(1), effects=eff, shape=dict(shape)))
    else:
        refs_o.append(Outcome(pre + [viol], "fail", kind="range", shape=dict(shape)))
        refs_o.append(Outcome(pre + [z3.Not(viol)], "return", ret=U(1), effects=eff, shape=dict(shape)))
    eng = Engine(timeout_ms=job.get("timeout_ms", 30000), max_paths=2000)
    raw = tv.teal_runner_for(prog, cfg, eng, Bounds(loop_k=2, call_depth=6, max_steps=60000))

    def runner(assumptions, shp):
        res = []
        for o in raw(assumptions, shp):
            o.effects = canon_effects(o.effects)
            res.append(o)
        return res
    r = tv.check_against(refs_o, runner, eng, want_sample=job.get("want_sample", False))
    for f in ("obligations", "discharged", "inconclusive", "ref_paths", "teal_paths", "ref_cut"):
        out[f] += getattr(r, f)
    out["nonfail"] = r.nonfail_paths
    out["stats"] = eng.stats.as_dict()
    out["sample_query"] = r.sample_query
    if r.teal_paths == 0:
        out.setdefault("harness", []).append("vacuous: no feasible path of the program under the modelled call")
    nplain = sum(1 for a in call["args"] if a["kind"] != "txn")
    for cand in r.candidates:
        model = cand["model"]
        conc = tv.concretize(model, cand["shape"])
        for j, bs in presets.items():
            if j < NOUTER:
                conc["g0.ApplicationArgs[%d]" % j] = bytes(model.eval(b, model_completion=True).as_long() for b in bs)
        teal2, st2, _ = compile_call(call, job["version"], job.get("assemble", False))
        if st2 != "ok":
            out.setdefault("harness", []).append("recompilation failed")
            continue
        import copy
        ccfg = copy.copy(cfg)
        ccfg.presets = {}
        prog2 = parse(teal2)
        p = tv.run_concrete(lambda c: SymAVM(prog2, c, Bounds(loop_k=300, call_depth=64, max_steps=400000)).run, ccfg, conc)
        p.effects = canon_effects(p.effects)
        q = concrete_expected(call, conc)
        out["replayed"] += 1
        if tv.outcomes_differ_concretely(p, q):
            if len(out["violations"]) < 2:
                feats = ["more-than-15-non-transaction-arguments"] if nplain > 15 else []
                out["violations"].append(dict(base, kind="inner-call", features=feats, input=tv.jsonable_conc(conc), teal_outcome=tv.describe_outcome(p),
                                              reference_outcome=tv.describe_outcome(q), teal=teal2[-3000:]))
        else:
            out["unconfirmed"] += 1
    if job.get("keep_teal"):
        out["teal"] = teal
    return out


def concrete_expected(call, conc) -> Outcome:
    """the client model on concrete outer arguments, with algosdk.abi as codec"""
    plain, refs, fees = {}, {}, {}
    bad = False
    if int(conc.get("g0.NumAppArgs", 0)) != max(1, min(NOUTER, len(call["args"]))):
        return Outcome([], "fail", kind="outside the modelled call")
    for j, a in enumerate(call["args"]):
        b = conc.get("g0.ApplicationArgs[%d]" % (j % NOUTER), b"")
        k = a["kind"]
        if k == "raw":
            plain[j] = list(b)
        elif k == "abi":
            from .arc4.abijob import encode_concrete
            v, viol = encode_concrete(tt(a["t"]), [2], b)
            bad = bad or viol
            plain[j] = list(M.sdk_encode(tt(a["t"]), v)) if not viol else []
        elif k == "ref":
            refs[j] = list(b) if a["t"] == "account" else int.from_bytes(b, "big")
        elif k == "txn":
            fees[j] = int.from_bytes(b, "big")
    if bad:
        return Outcome([], "fail", kind="range")
    return Outcome([], "return", ret=U(1), effects=expected_effects(expected_group(call, plain, refs, fees)))
