"""C09: a routed method with a given signature, called under the ARC-4 calling convention.

The handler logs what it received (encode() of every plain parameter, group index and type of every
transaction parameter, foreign index of every reference parameter) and sets its output; the call is
built by the ARC-4 model: selector, plain arguments in their own application argument, the 15th and
later packed as one tuple, transaction parameters = the immediately preceding group members,
reference parameters = one-byte indices.  z3 compares the program's ordered logs with the model."""
from typing import Any, Dict, List, Optional, Tuple

import z3

from .avm.ctx import CtxConfig
from .avm.engine import Engine, HarnessError, Outcome
from .avm.sym import Bounds, SymAVM
from .avm.values import Bs, U
from .common import from_json, to_json
from .teal.parse import TealSyntaxError, blocking_complaints, check_program, parse
from .arc4 import model as M, types as T
from .arc4.abijob import tt
from .router import selector, reject_is_failure, PYTEAL_ERRORS
from . import tv

TXN_CODE = {"pay": 1, "keyreg": 2, "acfg": 3, "axfer": 4, "afrz": 5, "appl": 6}
RETURN_PREFIX = bytes.fromhex("151f7c75")


def sig_string(sig) -> str:
    ps = []
    for p in sig["params"]:
        ps.append(T.T_str(tt(p["t"])) if p["kind"] == "plain" else p["t"])
    ret = "void" if sig.get("ret") is None else T.T_str(tt(sig["ret"]))
    return "%s(%s)%s" % (sig.get("registered_name") or sig["name"], ",".join(ps), ret)


def make_handler(sig):
    import pyteal as pt
    abi = pt.abi
    txn_cls = {"txn": abi.Transaction, "pay": abi.PaymentTransaction, "keyreg": abi.KeyRegisterTransaction, "acfg": abi.AssetConfigTransaction,
               "axfer": abi.AssetTransferTransaction, "afrz": abi.AssetFreezeTransaction, "appl": abi.ApplicationCallTransaction}
    ref_cls = {"account": abi.Account, "asset": abi.Asset, "application": abi.Application}
    ann = {}
    names = []
    for i, p in enumerate(sig["params"]):
        n = (sig.get("pnames") or {}).get(str(i)) or "p%d" % i
        names.append(n)
        if p["kind"] == "plain":
            ann[n] = T.to_spec(tt(p["t"])).annotation_type()
        elif p["kind"] == "txn":
            ann[n] = txn_cls[p["t"]]
        else:
            ann[n] = ref_cls[p["t"]]
    ret_t = tt(sig["ret"]) if sig.get("ret") is not None else None
    echo = sig.get("echo")     # index of the plain parameter copied into the output

    def impl(*args, **kw):
        st = []
        for p, a in zip(sig["params"], args):
            if p["kind"] == "plain":
                st.append(pt.Log(a.encode()))
            elif p["kind"] == "txn":
                st.append(pt.Log(pt.Itob(a.index())))
                st.append(pt.Log(pt.Itob(a.get().type_enum())))
            else:
                st.append(pt.Log(pt.Itob(a.referenced_index())))
        if ret_t is not None:
            out = kw["output"]
            if echo is not None:
                # copy the received parameter into the output (set() for leaves, encode/decode for composite values)
                if ret_t[0] in ("tuple", "ntuple", "sarray", "darray"):
                    st.append(out.decode(args[echo].encode()))
                else:
                    st.append(out.set(args[echo]))
            else:
                st.append(out.decode(pt.Bytes(bytes(M.enc(ret_t, const_value(ret_t))))))
        return pt.Seq(*st) if st else pt.Seq()

    src = "def %s(%s%s):\n    return __impl(%s%s)\n" % (
        sig["name"], ", ".join(names), (", *, output" if ret_t is not None else "") if names else ("*, output" if ret_t is not None else ""),
        ", ".join(names), (", output=output" if ret_t is not None else "") if names else ("output=output" if ret_t is not None else ""))
    g = {"__impl": impl}
    exec(src, g)
    fn = g[sig["name"]]
    fn.__annotations__ = dict(ann)
    if ret_t is not None:
        fn.__annotations__["output"] = T.to_spec(ret_t).annotation_type()
    else:
        fn.__annotations__["return"] = pt.Expr
    if sig.get("registered_name"):
        return pt.ABIReturnSubroutine.name_override(sig["registered_name"])(fn)
    return pt.ABIReturnSubroutine(fn)


def build_router(sig):
    """router with the method under test and, optionally, sibling methods registered before / after it"""
    import pyteal as pt
    from .recipe.build import reset_pyteal_state
    reset_pyteal_state()
    r = pt.Router("app", pt.BareCallActions(no_op=pt.OnCompleteAction(action=pt.Approve(), call_config=pt.CallConfig.CREATE)),
                  clear_state=pt.Approve())
    sib = sig.get("siblings") or []
    pos = sig.get("position", len(sib))
    order = list(sib[:pos]) + [sig] + list(sib[pos:])
    for s_ in order:
        r.add_method_handler(make_handler(s_), method_config=pt.MethodConfig(no_op=pt.CallConfig.CALL))
    return r


def const_value(t):
    k = t[0]
    if k == "bool":
        return True
    if k == "byte":
        return 0xAB
    if k == "uint":
        return (1 << t[1]) - 2
    if k == "address":
        return list(range(32))
    if k in ("string", "dbytes"):
        return [111, 107]
    if k == "darray":
        return [const_value(t[1]), const_value(t[1])]
    if k == "sarray":
        return [const_value(t[1]) for _ in range(t[2])]
    return [const_value(m) for m in t[1]]


def compile_sig(sig, version, optimize=None, assemble=False):
    import pyteal as pt
    from .recipe.build import reset_pyteal_state
    try:
        r = build_router(sig)
        kw = {}
        if optimize is not None:
            kw["optimize"] = pt.OptimizeOptions(**optimize)
        ap, cl, contract = r.compile_program(version=version, assemble_constants=assemble, **kw)
        return (ap, contract.dictify()), "ok", ""
    except Exception as e:  # noqa
        name = type(e).__name__
        return None, ("rejected" if name in PYTEAL_ERRORS else "crash"), "%s: %s" % (name, str(e)[:200])
    finally:
        reset_pyteal_state()


def call_model(sig, lens):
    """-> dict(args: list of byte-term lists (application arguments 1..), values, expected logs builder ...)"""
    plan = M.LenPlan(lens)
    plain = [(i, tt(p["t"])) for i, p in enumerate(sig["params"]) if p["kind"] == "plain"]
    refs = [i for i, p in enumerate(sig["params"]) if p["kind"] == "ref"]
    # values
    vals: Dict[int, Any] = {}
    for i, t in plain:
        vals[i] = M.fresh_value(t, "a%d" % i, plan, [])
    for i in refs:
        vals[i] = z3.BitVec("a%d" % i, 8)
    # argument list in declaration order, excluding transactions
    order = [i for i, p in enumerate(sig["params"]) if p["kind"] != "txn"]

    def enc_of(i):
        p = sig["params"][i]
        if p["kind"] == "ref":
            return [vals[i]]
        return M.enc(tt(p["t"]), vals[i])

    args: List[List[Any]] = []
    if len(order) > 15:
        for i in order[:14]:
            args.append(enc_of(i))
        rest = order[14:]
        ts = [("uint", 8) if sig["params"][i]["kind"] == "ref" else tt(sig["params"][i]["t"]) for i in rest]
        args.append(M.enc_seq(ts, [vals[i] for i in rest]))
    else:
        for i in order:
            args.append(enc_of(i))
    return vals, args


def method_job(job: Dict[str, Any]) -> Dict[str, Any]:
    sig = job["sig"]
    lens = list(job.get("lens", [2]))
    out = {"id": job["id"], "family": job.get("family"), "version": job["version"], "status": "ok", "violations": [], "complaints": [],
           "obligations": 0, "discharged": 0, "inconclusive": 0, "ref_paths": 0, "teal_paths": 0, "ref_cut": 0, "nonfail": 0, "replayed": 0, "unconfirmed": 0}
    res, st, detail = compile_sig(sig, job["version"], job.get("optimize"), job.get("assemble", False))
    out["status"], out["detail"] = st, detail
    if st != "ok":
        return out
    ap, contract = res
    base = {"sig": sig, "signature": sig_string(sig), "version": job["version"], "job": job}
    # contract: exactly this method, with the types of the registration, and its selector is dispatched on
    ms = contract.get("methods", [])
    csigs = ["%s(%s)%s" % (m["name"], ",".join(a["type"] for a in m["args"]), m["returns"]["type"]) for m in ms]
    sib = sig.get("siblings") or []
    pos = sig.get("position", len(sib))
    want = [sig_string(x) for x in (list(sib[:pos]) + [sig] + list(sib[pos:]))]
    if csigs != want:
        out["violations"].append(dict(base, kind="contract", detail="contract describes %r, registered %r" % (csigs, want)))
    if sig.get("pnames"):
        mine = next((m for m in ms if m["name"] == (sig.get("registered_name") or sig["name"])), None)
        wantn = [(sig.get("pnames") or {}).get(str(i)) or "p%d" % i for i in range(len(sig["params"]))]
        if mine is not None and [a.get("name") for a in mine["args"]] != wantn:
            out["violations"].append(dict(base, kind="contract", detail="contract names the parameters %r, declared %r" % ([a.get("name") for a in mine["args"]], wantn)))
    try:
        prog = parse(ap)
    except TealSyntaxError as e:
        out["complaints"] = ["unparsable: %s" % e]
        return out
    out["complaints"] = blocking_complaints(prog, "A")
    if out["complaints"]:
        out["teal"] = ap
        return out
    sel = selector(sig_string(sig))
    consts = [bytes(i.args[0][1]) if i.op == "method" else None for i in prog.instrs]
    if job.get("assemble"):
        for i in prog.instrs:
            if i.op == "bytecblock":
                consts += [bytes(b) for b in i.args[0] if isinstance(b, (bytes, bytearray))]
            if i.op == "pushbytes" and isinstance(i.args[0], (bytes, bytearray)):
                consts.append(bytes(i.args[0]))
    if sel not in [c for c in consts if c is not None]:
        out["violations"].append(dict(base, kind="selector", detail="the program never compares against the selector of %s" % sig_string(sig)))
    vals, args = call_model(sig, lens)
    ntx = sum(1 for p in sig["params"] if p["kind"] == "txn")
    G = ntx + job.get("extra_group_offset", 0)
    pre_ = "g%d" % G
    cfg = CtxConfig(mode="A", version=job["version"], group_index_options=(G,))
    cfg.presets["%s.ApplicationArgs[0]" % pre_] = list(sel)
    for k, a in enumerate(args):
        cfg.presets["%s.ApplicationArgs[%d]" % (pre_, k + 1)] = a
    na = z3.BitVec("%s.NumAppArgs" % pre_, 64)
    oc = z3.BitVec("%s.OnCompletion" % pre_, 64)
    aid = z3.BitVec("%s.ApplicationID" % pre_, 64)
    pre = [na == z3.BitVecVal(1 + len(args), 64), oc == z3.BitVecVal(0, 64), aid != z3.BitVecVal(0, 64)]
    # expected logs
    effects = []
    tconds = []
    tj = 0
    for i, p in enumerate(sig["params"]):
        if p["kind"] == "plain":
            effects.append(("log", Bs(M.enc(tt(p["t"]), vals[i]))))
        elif p["kind"] == "ref":
            effects.append(("log", Bs([0] * 7 + [vals[i]])))
        else:
            gi = G - ntx + tj
            tj += 1
            effects.append(("log", Bs(list(gi.to_bytes(8, "big")))))
            te = z3.BitVec("g%d.TypeEnum" % gi, 64)
            from .avm.values import u64_to_bytes
            effects.append(("log", Bs(u64_to_bytes(te, 8))))
            if p["t"] != "txn":
                tconds.append(te == z3.BitVecVal(TXN_CODE[p["t"]], 64))
    ret_t = tt(sig["ret"]) if sig.get("ret") is not None else None
    if ret_t is not None:
        rv = vals[sig["echo"]] if sig.get("echo") is not None else const_value(ret_t)
        effects.append(("log", Bs(list(RETURN_PREFIX) + M.enc(ret_t, rv))))
    shape = {"GroupIndex": G}
    refs = []
    okc = z3.And(*tconds) if tconds else True
    if tconds:
        refs.append(Outcome(pre + [z3.Not(okc)], "fail", kind="wrong transaction type", shape=dict(shape)))
        refs.append(Outcome(pre + [okc], "return", ret=U(1), effects=effects, shape=dict(shape)))
    else:
        refs.append(Outcome(pre, "return", ret=U(1), effects=effects, shape=dict(shape)))
    eng = Engine(timeout_ms=job.get("timeout_ms", 30000), max_paths=3000)
    raw = tv.teal_runner_for(prog, cfg, eng, Bounds(loop_k=2, call_depth=8, max_steps=60000))

    def runner(assumptions, shp):
        return [reject_is_failure(o) for o in raw(assumptions, shp)]
    r = tv.check_against(refs, runner, eng, want_sample=job.get("want_sample", False))
    for f in ("obligations", "discharged", "inconclusive", "ref_paths", "teal_paths", "ref_cut"):
        out[f] += getattr(r, f)
    out["nonfail"] = r.nonfail_paths
    out["stats"] = eng.stats.as_dict()
    out["sample_query"] = r.sample_query
    for cand in r.candidates:
        model = cand["model"]
        conc = tv.concretize(model, cand["shape"])
        cvals = {i: M.eval_value(v, model) for i, v in vals.items()}
        # concrete call per the ARC-4 convention, built with algosdk's codec
        cargs = concrete_args(sig, cvals)
        conc["%s.ApplicationArgs[0]" % pre_] = sel
        for k, a in enumerate(cargs):
            conc["%s.ApplicationArgs[%d]" % (pre_, k + 1)] = a
        res2, st2, _ = compile_sig(sig, job["version"], job.get("optimize"), job.get("assemble", False))
        if st2 != "ok":
            out.setdefault("harness", []).append("recompilation failed")
            continue
        prog2 = parse(res2[0])
        import copy
        ccfg = copy.copy(cfg)
        ccfg.presets = {}
        p = reject_is_failure(tv.run_concrete(lambda c: SymAVM(prog2, c, Bounds(loop_k=300, call_depth=64, max_steps=400000)).run, ccfg, conc))
        q = concrete_expected(sig, cvals, conc, G, ntx, len(cargs), pre_)
        out["replayed"] += 1
        if tv.outcomes_differ_concretely(p, q):
            if len(out["violations"]) < 2:
                out["violations"].append(dict(base, kind="call", input=tv.jsonable_conc(conc), values=to_json({str(k): v for k, v in cvals.items()}),
                                              teal_outcome=tv.describe_outcome(p), reference_outcome=tv.describe_outcome(q), teal=res2[0][-4000:]))
        else:
            out["unconfirmed"] += 1
    if job.get("keep_teal"):
        out["teal"] = ap
    return out


def concrete_args(sig, cvals) -> List[bytes]:
    order = [i for i, p in enumerate(sig["params"]) if p["kind"] != "txn"]

    def enc_of(i):
        p = sig["params"][i]
        if p["kind"] == "ref":
            return bytes([cvals[i]])
        return M.sdk_encode(tt(p["t"]), cvals[i])
    if len(order) > 15:
        args = [enc_of(i) for i in order[:14]]
        rest = order[14:]
        ts = ("tuple", tuple(("uint", 8) if sig["params"][i]["kind"] == "ref" else tt(sig["params"][i]["t"]) for i in rest))
        args.append(M.sdk_encode(ts, [cvals[i] for i in rest]))
        return args
    return [enc_of(i) for i in order]


def concrete_expected(sig, cvals, conc, G, ntx, nargs, pre_) -> Outcome:
    if int(conc.get("%s.NumAppArgs" % pre_, 0)) != 1 + nargs or int(conc.get("%s.OnCompletion" % pre_, 0)) != 0 or int(conc.get("%s.ApplicationID" % pre_, 0)) == 0:
        return Outcome([], "fail", kind="outside the modelled call")
    effects = []
    tj = 0
    for i, p in enumerate(sig["params"]):
        if p["kind"] == "plain":
            effects.append(("log", Bs(list(M.sdk_encode(tt(p["t"]), cvals[i])))))
        elif p["kind"] == "ref":
            effects.append(("log", Bs(list(int(cvals[i]).to_bytes(8, "big")))))
        else:
            gi = G - ntx + tj
            tj += 1
            te = int(conc.get("g%d.TypeEnum" % gi, 0))
            if p["t"] != "txn" and te != TXN_CODE[p["t"]]:
                return Outcome([], "fail", kind="wrong transaction type")
            effects.append(("log", Bs(list(gi.to_bytes(8, "big")))))
            effects.append(("log", Bs(list(te.to_bytes(8, "big")))))
    if sig.get("ret") is not None:
        ret_t = tt(sig["ret"])
        rv = cvals[sig["echo"]] if sig.get("echo") is not None else const_value(ret_t)
        effects.append(("log", Bs(list(RETURN_PREFIX + M.sdk_encode(ret_t, rv)))))
    return Outcome([], "return", ret=U(1), effects=effects)
