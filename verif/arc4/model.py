"""ARC-4 encoding as terms: values are trees whose leaves are Python ints/bools or z3 terms;
byte strings and arrays have CONCRETE lengths.  enc(T, v) -> list of byte terms (int or BitVec8).
The same code serves the symbolic obligations and, on concrete trees, the replay (where it is
cross-checked against algosdk.abi).

value trees:  bool -> bool | z3 Bool        byte/uintN -> int | BitVec(N)
              address/string/dbytes -> list of byte terms     arrays/tuples -> list of values"""
from typing import Any, List

import z3

from . import types as T


def _uint_bytes(v, bits: int) -> List[Any]:
    n = bits // 8
    if isinstance(v, int):
        return list(v.to_bytes(n, "big"))
    out = []
    for i in range(n):
        hi = bits - 8 * i - 1
        out.append(z3.simplify(z3.Extract(hi, hi - 7, v)) if bits > 8 else v)
    return [b.as_long() if z3.is_bv_value(b) else b for b in out]


def _pack_bools(bs: List[Any]) -> List[Any]:
    out = []
    for i in range(0, len(bs), 8):
        chunk = bs[i:i + 8]
        if all(isinstance(b, bool) for b in chunk):
            byte = 0
            for j, b in enumerate(chunk):
                if b:
                    byte |= 0x80 >> j
            out.append(byte)
        else:
            acc = z3.BitVecVal(0, 8)
            for j, b in enumerate(chunk):
                bit = z3.BitVecVal(0x80 >> j, 8)
                if isinstance(b, bool):
                    if b:
                        acc = acc | bit
                else:
                    acc = acc | z3.If(b, bit, z3.BitVecVal(0, 8))
            out.append(z3.simplify(acc))
    return out


def enc(t, v) -> List[Any]:
    k = t[0]
    if k == "bool":
        return _pack_bools([v])
    if k == "byte":
        return [v]
    if k == "uint":
        return _uint_bytes(v, t[1])
    if k == "address":
        assert len(v) == 32
        return list(v)
    if k == "sbytes":
        assert len(v) == t[1]
        return list(v)
    if k == "ref":
        return [v]
    if k in ("string", "dbytes"):
        return list(len(v).to_bytes(2, "big")) + list(v)
    if k == "darray":
        return list(len(v).to_bytes(2, "big")) + enc_seq([t[1]] * len(v), v)
    if k == "sarray":
        assert len(v) == t[2]
        return enc_seq([t[1]] * t[2], v)
    if k in ("tuple", "ntuple"):
        return enc_seq(list(t[1]), v)
    raise ValueError(t)


def enc_seq(ts: List[Any], vs: List[Any]) -> List[Any]:
    """tuple encoding: heads (static values in place, 2-byte offsets for dynamic ones, consecutive
    bools packed), then tails"""
    assert len(ts) == len(vs)
    heads: List[Any] = []     # items: list of bytes | ("off", tail index)
    tails: List[List[Any]] = []
    i = 0
    while i < len(ts):
        t = ts[i]
        if t[0] == "bool":
            j = i
            while j < len(ts) and ts[j][0] == "bool":
                j += 1
            heads.append(_pack_bools(vs[i:j]))
            i = j
            continue
        if T.is_dynamic(t):
            heads.append(("off", len(tails)))
            tails.append(enc(t, vs[i]))
        else:
            heads.append(enc(t, vs[i]))
        i += 1
    head_len = sum(2 if isinstance(h, tuple) else len(h) for h in heads)
    offs = []
    cur = head_len
    for tl in tails:
        offs.append(cur)
        cur += len(tl)
    out: List[Any] = []
    for h in heads:
        if isinstance(h, tuple):
            out += list(offs[h[1]].to_bytes(2, "big"))
        else:
            out += h
    for tl in tails:
        out += tl
    return out


# ---------------------------------------------------------------------------
class LenPlan:
    """lengths of the dynamic nodes of a value, consumed in depth-first order"""

    def __init__(self, lens: List[int]):
        self.lens = list(lens)
        self.i = 0

    def next(self) -> int:
        if self.i >= len(self.lens):
            v = self.lens[-1] if self.lens else 0
        else:
            v = self.lens[self.i]
        self.i += 1
        return v


def fresh_value(t, name: str, plan: LenPlan, leaves: List[Any]):
    """symbolic value tree of type t; every leaf gets a named z3 variable, recorded in `leaves` as
    (name, kind, bits) in depth-first order"""
    k = t[0]
    if k == "bool":
        leaves.append((name, "bool", 1))
        return z3.Bool(name)
    if k == "byte":
        leaves.append((name, "uint", 8))
        return z3.BitVec(name, 8)
    if k == "uint":
        leaves.append((name, "uint", t[1]))
        return z3.BitVec(name, t[1])
    if k == "ref":
        leaves.append((name, "uint", 8))
        return z3.BitVec(name, 8)
    if k == "sbytes":
        out = []
        for i in range(t[1]):
            leaves.append(("%s.%d" % (name, i), "uint", 8))
            out.append(z3.BitVec("%s.%d" % (name, i), 8))
        return out
    if k == "address":
        out = []
        for i in range(32):
            leaves.append(("%s.%d" % (name, i), "uint", 8))
            out.append(z3.BitVec("%s.%d" % (name, i), 8))
        return out
    if k in ("string", "dbytes"):
        n = plan.next()
        out = []
        for i in range(n):
            leaves.append(("%s.%d" % (name, i), "uint", 8))
            out.append(z3.BitVec("%s.%d" % (name, i), 8))
        return out
    if k == "darray":
        n = plan.next()
        return [fresh_value(t[1], "%s[%d]" % (name, i), plan, leaves) for i in range(n)]
    if k == "sarray":
        return [fresh_value(t[1], "%s[%d]" % (name, i), plan, leaves) for i in range(t[2])]
    if k in ("tuple", "ntuple"):
        return [fresh_value(m, "%s.%d" % (name, i), plan, leaves) for i, m in enumerate(t[1])]
    raise ValueError(t)


def eval_value(v, model):
    """value tree -> concrete tree under a z3 model"""
    if isinstance(v, list):
        return [eval_value(x, model) for x in v]
    if isinstance(v, (bool, int)):
        return v
    r = model.eval(v, model_completion=True)
    if z3.is_bool(r):
        return z3.is_true(r)
    return r.as_long()


def to_sdk_value(t, v):
    """concrete tree -> the Python value algosdk.abi encodes"""
    k = t[0]
    if k in ("bool", "byte", "uint"):
        return v
    if k == "address":
        return bytes(v)
    if k == "string":
        return bytes(v).decode("latin-1")   # see sdk_encode: strings are encoded through byte[]
    if k == "dbytes":
        return bytes(v)
    if k in ("darray", "sarray"):
        return [to_sdk_value(t[1], x) for x in v]
    if k in ("tuple", "ntuple"):
        return [to_sdk_value(m, x) for m, x in zip(t[1], v)]
    raise ValueError(t)


def sdk_type(t):
    """algosdk type used for the reference encoding; `string` is encoded as byte[] (identical wire
    format) so that arbitrary bytes - not only valid UTF-8 - can be used as contents"""
    from algosdk import abi
    s = T.T_str(t).replace("string", "byte[]").replace("account", "uint8").replace("asset", "uint8").replace("application", "uint8")
    return abi.ABIType.from_string(s)


def sdk_encode(t, v) -> bytes:
    def conv(t, v):
        k = t[0]
        if k in ("string", "dbytes"):
            return list(v)
        if k == "address":
            return bytes(v)
        if k == "sbytes":
            return list(v)
        if k in ("darray", "sarray"):
            return [conv(t[1], x) for x in v]
        if k in ("tuple", "ntuple"):
            return [conv(m, x) for m, x in zip(t[1], v)]
        return v
    return sdk_type(t).encode(conv(t, v))
