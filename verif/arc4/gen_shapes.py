"""Type-shape universe for the ABI properties (C06, C07, C19): leaves, arrays and tuples with
bool runs of the interesting lengths, dynamic members in every position, nesting to depth 2
(curated + pairwise exhaustive) and seeded random shapes to depth 3."""
import itertools
import random
from typing import Any, List, Tuple

from . import types as T

BOOL, BYTE, U8, U16, U32, U64 = ("bool",), ("byte",), ("uint", 8), ("uint", 16), ("uint", 32), ("uint", 64)
ADDR, STR, DB = ("address",), ("string",), ("dbytes",)
LEAVES = [BOOL, BYTE, U8, U16, U32, U64, ADDR, STR, DB]
STATIC_LEAVES = [BOOL, BYTE, U8, U16, U32, U64, ADDR]


def tup(*ms):
    return ("tuple", tuple(ms))


def ntup(*ms):
    return ("ntuple", tuple(ms), tuple("f%d" % i for i in range(len(ms))))


def curated() -> List[Any]:
    out = list(LEAVES)
    for L in LEAVES:
        for n in (1, 2, 3):
            out.append(("sarray", L, n))
        out.append(("darray", L))
    for n in (0, 7, 8, 9, 16, 17):
        out.append(("sarray", BOOL, n))
    out.append(("sarray", U8, 0))
    # bool runs in tuples, with and without dynamic members around them
    for k in (1, 2, 7, 8, 9, 16, 17):
        out.append(tup(*([BOOL] * k)))
        out.append(tup(*([BOOL] * k), STR, U8))
        out.append(tup(STR, *([BOOL] * k), STR))
        out.append(tup(U16, *([BOOL] * k), U8))
        out.append(tup(DB, *([BOOL] * k)))
    # split bool runs
    out += [tup(BOOL, U8, BOOL), tup(BOOL, BOOL, U8, BOOL), tup(BOOL, STR, BOOL, BOOL), ("sarray", tup(BOOL, U8, BOOL), 4),
            ("darray", tup(BOOL, U8, BOOL)), tup(tup(BOOL, U8, BOOL), U16), tup(tup(BOOL, BOOL, U8), U16), ("sarray", tup(BOOL, BOOL), 3),
            ("darray", tup(BOOL,) * 1 if False else tup(BOOL, BOOL, BOOL)), tup(("sarray", BOOL, 3), BOOL, ("sarray", BOOL, 9))]
    # dynamic members in every position
    for a, b, c in itertools.product([U8, STR], repeat=3):
        out.append(tup(a, b, c))
    out += [tup(STR, STR, STR, STR), tup(U64, DB, ADDR, STR), tup(("darray", U64), STR, ("sarray", BOOL, 3), tup(U8, STR)),
            tup(ADDR, BYTE, ("darray", STR)), ("darray", tup(U8, STR, BOOL)), ("darray", ("darray", U32)), ("sarray", STR, 3),
            ("sarray", ("sarray", BOOL, 3), 2), ("sarray", ("darray", U16), 2), ("darray", ("sarray", U16, 2)), ("darray", ADDR),
            ("darray", tup(STR, STR)), tup(tup(STR, U8), tup(U8, STR)), ("sarray", tup(U8, U16), 3), tup(("sarray", STR, 2), U8, ("darray", BOOL)),
            ntup(U64, STR, BOOL), ntup(ADDR, ("darray", U8)), ("darray", ntup(U8, STR)), tup(ntup(BOOL, BOOL), STR), tup(), ("darray", tup()),
            tup(BYTE, ("sarray", BYTE, 4), ("darray", BYTE)), tup(U32, U32, U32, U32, STR), ("sarray", ("sarray", U8, 2), 2),
            # a static aggregate as the LAST member, behind a static member, in a tuple that also has a dynamic member
            tup(STR, U8, ("sarray", BYTE, 2)), tup(STR, U8, ADDR), tup(STR, U16, ("sarray", U16, 2)), tup(U8, STR, U8, tup(U8, U8)),
            ntup(STR, U8, ADDR), tup(("darray", U8), BOOL, ("sarray", BOOL, 3)), tup(STR, STR, U64, ("sarray", U64, 2)),
            # members of exactly / around 256 bytes (one-byte immediates of extract / substring)
            tup(("sarray", U64, 32), U8), tup(U8, ("sarray", U64, 32), U8), tup(("sarray", ADDR, 8), STR), ntup(("sarray", U64, 32), U16),
            tup(("sarray", U64, 31), ("sarray", U64, 33), U8), tup(U8, ("sarray", U32, 64)),
            # a static aggregate as the last member of an all-static tuple at an offset of 256 or more / just below
            tup(("sarray", U64, 32), ("sarray", U16, 3)), tup(("sarray", U64, 33), ADDR), tup(("sarray", U64, 32), tup(U8, U8)),
            tup(("sarray", U64, 31), ("sarray", U16, 3)), tup(("sarray", U64, 32), ("sarray", BYTE, 4)),
            # named tuples that use the same field names at different positions (also nested in each other)
            ("ntuple", (U64, U64, ("ntuple", (BOOL, U64), ("open", "id"))), ("id", "qty", "pos")),
            ("ntuple", (("ntuple", (U8, STR), ("b", "a")), U16, STR), ("a", "b", "c")),
            tup(("ntuple", (U8, U16), ("x", "y")), ("ntuple", (U16, U8), ("y", "x")))]
    return _dedup(out)


def pairwise() -> List[Any]:
    out = []
    for a, b in itertools.product(LEAVES, repeat=2):
        out.append(tup(a, b))
    for a in LEAVES:
        for c in (("sarray", a, 2), ("darray", a)):
            out.append(tup(c, U8))
            out.append(tup(BOOL, c))
            out.append(("darray", c))
            out.append(("sarray", c, 2))
    return _dedup(out)


def random_shape(rng: random.Random, depth: int):
    if depth <= 0 or rng.random() < 0.35:
        return rng.choice(LEAVES)
    k = rng.random()
    if k < 0.3:
        return ("sarray", random_shape(rng, depth - 1), rng.choice([1, 2, 3]))
    if k < 0.55:
        return ("darray", random_shape(rng, depth - 1))
    n = rng.choice([1, 2, 3, 4, 5])
    ms = []
    for _ in range(n):
        if rng.random() < 0.3:
            ms += [BOOL] * rng.choice([1, 2, 7, 8, 9])
        else:
            ms.append(random_shape(rng, depth - 1))
    if rng.random() < 0.2:
        return ntup(*ms)
    return tup(*ms)


def shapes(tier: str, seed: int) -> List[Any]:
    out = curated()
    if tier == "quick":
        out += pairwise()[::4]
    else:
        out += pairwise()
        rng = random.Random(seed * 131 + 7)
        for _ in range(150):
            out.append(random_shape(rng, 3))
    return _dedup(out)


def _dedup(xs):
    seen, out = set(), []
    for x in xs:
        k = repr(x)
        if k not in seen:
            seen.add(k)
            out.append(x)
    return out


def count_dyn(t, lens: List[int]) -> int:
    """number of length decisions consumed by a value of type t under the plan"""
    from .model import LenPlan
    plan = LenPlan(lens)

    def walk(t):
        k = t[0]
        if k in ("string", "dbytes"):
            plan.next()
        elif k == "darray":
            n = plan.next()
            for _ in range(n):
                walk(t[1])
        elif k == "sarray":
            for _ in range(t[2]):
                walk(t[1])
        elif k in ("tuple", "ntuple"):
            for m in t[1]:
                walk(m)
    walk(t)
    return plan.i


def len_vectors(t, tier: str, seed: int = 0) -> List[List[int]]:
    if not T.is_dynamic(t):
        return [[0]]
    base = [[0], [1], [2], [2, 1, 0, 2, 1, 1, 0, 2], [1, 2, 2, 0, 1, 2]]
    if tier != "quick":
        base += [[3], [4], [3, 0, 4, 1, 2, 3], [2, 2, 0], [2, 3, 1], [3, 2, 2, 2], [1, 2], [2, 1, 2]]
        rng = random.Random(seed * 17 + len(repr(t)))
        for _ in range(3):
            base.append([rng.randrange(5) for _ in range(8)])
    # drop vectors that are indistinguishable for this type (same consumed prefix)
    seen, out = set(), []
    for v in base:
        n = count_dyn(t, v)
        key = tuple((v + [v[-1]] * n)[:n])
        if key not in seen:
            seen.add(key)
            out.append(v)
    return out


def size_of(t, lens: List[int]) -> int:
    """number of leaves of a value (to keep programs small)"""
    from .model import LenPlan
    plan = LenPlan(lens)

    def walk(t):
        k = t[0]
        if k in ("string", "dbytes"):
            plan.next()
            return 1
        if k == "darray":
            n = plan.next()
            return sum(walk(t[1]) for _ in range(n)) + 1
        if k == "sarray":
            return sum(walk(t[1]) for _ in range(t[2])) + 1
        if k in ("tuple", "ntuple"):
            return sum(walk(m) for m in t[1]) + 1
        return 1
    return walk(t)


def _len_at(t, lens, path_prefix):
    """length of the array reached by following concrete steps (used to pick in/out-of-range indices)"""
    from .model import LenPlan, fresh_value
    v = fresh_value(t, "p", LenPlan(lens), [])
    ct, cv = t, v
    for st in path_prefix:
        if st[0] == "t":
            ct, cv = ct[1][st[1]], cv[st[1]]
        elif st[0] == "f":
            i = list(ct[2]).index(st[1])
            ct, cv = ct[1][i], cv[i]
        else:
            et = ("byte",) if ct[0] in ("address", "string", "dbytes") else ct[1]
            if st[1] >= len(cv):
                return None, None
            ct, cv = et, cv[st[1]]
    return ct, (len(cv) if isinstance(cv, list) else None)


def _observations(ct) -> List[str]:
    k = ct[0]
    obs = ["encode"]
    if k in ("bool", "byte", "uint"):
        obs.append("get-u")
    if k in ("string", "dbytes", "address"):
        obs.append("get-b")
    if k in ("string", "dbytes", "darray", "sarray", "address"):
        obs.append("length")
    return obs


def access_paths(t, lens: List[int], tier: str) -> List[Tuple[List[Tuple], str]]:
    """(path, observation) pairs: every member / field, arrays at a constant in-range index, at the
    first out-of-range index, and at a run-time index; one nested step below each"""
    out = []

    def steps_for(ct, n):
        k = ct[0]
        res = []
        if k == "tuple":
            res += [("t", i) for i in range(len(ct[1]))]
        elif k == "ntuple":
            res += [("f", name) for name in ct[2]]
        elif k in ("sarray", "darray", "string", "dbytes", "address"):
            if n is None:
                return res
            idxs = sorted({0, n - 1, n // 2} & set(range(n)))
            res += [("a", i) for i in idxs]
            res.append(("a", n))            # first out-of-range index
            if k != "sarray" or True:
                res.append(("rt", 1))
        return res

    ct0, n0 = _len_at(t, lens, [])
    for ob in _observations(t):
        out.append(([], ob))
    for s1 in steps_for(t, n0):
        ct1, n1 = (None, None)
        if s1[0] != "rt":
            ct1, n1 = _len_at(t, lens, [s1])
        else:
            ct1 = ("byte",) if t[0] in ("address", "string", "dbytes") else t[1]
        if ct1 is None:
            out.append(([s1], "encode"))     # out of range: must fail whatever is observed
            continue
        for ob in _observations(ct1):
            out.append(([s1], ob))
        if s1[0] == "rt" or tier == "quick" and ct1[0] in ("bool", "byte", "uint"):
            continue
        for s2 in steps_for(ct1, n1):
            if s2[0] == "rt" and s1[0] == "rt":
                continue
            ct2, _ = _len_at(t, lens, [s1, s2]) if s2[0] != "rt" else (("byte",) if ct1[0] in ("address", "string", "dbytes") else ct1[1], None)
            if ct2 is None:
                out.append(([s1, s2], "encode"))
                continue
            obs = _observations(ct2)
            out.append(([s1, s2], obs[0]))
            if len(obs) > 1:
                out.append(([s1, s2], obs[1]))
    return out
