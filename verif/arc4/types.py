"""ARC-4 type shapes as nested tuples (JSON-able), their signature strings, the PyTeal TypeSpec
built through the public constructors, and the algosdk reference type.

  ("bool",) ("byte",) ("uint", bits) ("address",) ("string",) ("dbytes",)      byte[] as DynamicBytes
  ("sarray", T, n) ("darray", T) ("tuple", (T...)) ("ntuple", (T...), (name...))
"""
from typing import Any, List, Tuple


def T_str(t) -> str:
    k = t[0]
    if k == "bool":
        return "bool"
    if k == "byte":
        return "byte"
    if k == "uint":
        return "uint%d" % t[1]
    if k == "address":
        return "address"
    if k == "string":
        return "string"
    if k == "dbytes":
        return "byte[]"
    if k == "sbytes":
        return "byte[%d]" % t[1]
    if k == "ref":
        return t[1]
    if k == "txn":
        return t[1]
    if k == "sarray":
        return "%s[%d]" % (T_str(t[1]), t[2])
    if k == "darray":
        return "%s[]" % T_str(t[1])
    if k in ("tuple", "ntuple"):
        return "(%s)" % ",".join(T_str(x) for x in t[1])
    raise ValueError(t)


def is_dynamic(t) -> bool:
    k = t[0]
    if k in ("string", "dbytes", "darray"):
        return True
    if k == "sarray":
        return is_dynamic(t[1])
    if k in ("tuple", "ntuple"):
        return any(is_dynamic(x) for x in t[1])
    return False


def elem_types(t, n=None) -> List[Any]:
    """member types when the value is viewed as a tuple (arrays: n copies)"""
    k = t[0]
    if k in ("tuple", "ntuple"):
        return list(t[1])
    if k == "sarray":
        return [t[1]] * t[2]
    if k == "darray":
        return [t[1]] * n
    if k == "address":
        return [("byte",)] * 32
    if k == "sbytes":
        return [("byte",)] * t[1]
    if k in ("string", "dbytes"):
        return [("byte",)] * n
    raise ValueError(t)


def static_len(t) -> int:
    """byte length of a static type (ARC-4, with bool packing)"""
    k = t[0]
    if k == "bool":
        return 1
    if k == "byte":
        return 1
    if k == "uint":
        return t[1] // 8
    if k == "address":
        return 32
    if k == "sbytes":
        return t[1]
    if k == "ref":
        return 1
    if k in ("sarray", "tuple", "ntuple"):
        ms = elem_types(t)
        total, i = 0, 0
        while i < len(ms):
            if ms[i][0] == "bool":
                j = i
                while j < len(ms) and ms[j][0] == "bool":
                    j += 1
                total += (j - i + 7) // 8
                i = j
            else:
                total += static_len(ms[i])
                i += 1
        return total
    raise ValueError("dynamic type %r" % (t,))


def to_spec(t):
    """PyTeal TypeSpec through the public constructors"""
    import pyteal as pt
    abi = pt.abi
    k = t[0]
    if k == "bool":
        return abi.BoolTypeSpec()
    if k == "byte":
        return abi.ByteTypeSpec()
    if k == "uint":
        return {8: abi.Uint8TypeSpec, 16: abi.Uint16TypeSpec, 32: abi.Uint32TypeSpec, 64: abi.Uint64TypeSpec}[t[1]]()
    if k == "address":
        return abi.AddressTypeSpec()
    if k == "string":
        return abi.StringTypeSpec()
    if k == "dbytes":
        return abi.DynamicBytesTypeSpec()
    if k == "sbytes":
        return abi.StaticBytesTypeSpec(t[1])
    if k == "ref":
        return {"account": abi.AccountTypeSpec, "asset": abi.AssetTypeSpec, "application": abi.ApplicationTypeSpec}[t[1]]()
    if k == "txn":
        return {"txn": abi.TransactionTypeSpec, "pay": abi.PaymentTransactionTypeSpec, "keyreg": abi.KeyRegisterTransactionTypeSpec,
                "acfg": abi.AssetConfigTransactionTypeSpec, "axfer": abi.AssetTransferTransactionTypeSpec,
                "afrz": abi.AssetFreezeTransactionTypeSpec, "appl": abi.ApplicationCallTransactionTypeSpec}[t[1]]()
    if k == "sarray":
        return abi.StaticArrayTypeSpec(to_spec(t[1]), t[2])
    if k == "darray":
        return abi.DynamicArrayTypeSpec(to_spec(t[1]))
    if k == "tuple":
        return abi.TupleTypeSpec(*[to_spec(x) for x in t[1]])
    if k == "ntuple":
        return named_tuple_class(t)().type_spec()
    raise ValueError(t)


_NT_CACHE = {}


def named_tuple_class(t):
    import pyteal as pt
    key = repr(t)
    if key in _NT_CACHE:
        return _NT_CACHE[key]
    ann = {}
    for name, mt in zip(t[2], t[1]):
        ann[name] = pt.abi.Field[to_spec(mt).annotation_type()]
    cls = type("NT%d" % len(_NT_CACHE), (pt.abi.NamedTuple,), {"__annotations__": ann})
    _NT_CACHE[key] = cls
    return cls


def to_sdk(t):
    from algosdk import abi
    return abi.ABIType.from_string(T_str(t))


def dyn_nodes(t, path=()) -> List[Tuple]:
    """paths of the nodes whose length is a run-time quantity, in depth-first order
    (for element types below a dynamic array the path uses '*')"""
    k = t[0]
    out = []
    if k in ("string", "dbytes"):
        out.append(path)
    elif k == "darray":
        out.append(path)
        out += dyn_nodes(t[1], path + ("*",))
    elif k == "sarray":
        out += dyn_nodes(t[1], path + ("*",))
    elif k in ("tuple", "ntuple"):
        for i, m in enumerate(t[1]):
            out += dyn_nodes(m, path + (i,))
    return out
