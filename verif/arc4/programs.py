"""PyTeal programs over ABI values, built through the public API (C06 encode, C07 decode/access).

Inputs travel in application argument 0 as one packed byte string with a CONCRETE layout (every
length is concrete in a given job): each leaf of the value has a field in it."""
from typing import Any, Dict, List, Optional, Tuple

import pyteal as pt

from . import types as T
from .model import LenPlan


# ---------------------------------------------------------------------------
# input layout for the encode program: leaf -> (offset, width) in arg 0
def leaf_layout(t, plan: LenPlan, out: List[Tuple], path=()):
    """depth-first list of (path, kind, bits/len, offset, width); returns total width"""
    k = t[0]

    def add(kind, bits, width):
        off = out[-1][3] + out[-1][4] if out else 0
        out.append((path, kind, bits, off, width))

    if k == "bool":
        add("bool", 1, 1)
    elif k == "byte":
        add("uint", 8, 8)
    elif k == "uint":
        add("uint", t[1], 8)
    elif k == "address":
        add("bytes", 32, 32)
    elif k in ("string", "dbytes"):
        n = plan.next()
        add("bytes", n, n)
    elif k == "darray":
        n = plan.next()
        for i in range(n):
            leaf_layout(t[1], plan, out, path + (i,))
    elif k == "sarray":
        for i in range(t[2]):
            leaf_layout(t[1], plan, out, path + (i,))
    elif k in ("tuple", "ntuple"):
        for i, m in enumerate(t[1]):
            leaf_layout(m, plan, out, path + (i,))
    else:
        raise ValueError(t)
    return (out[-1][3] + out[-1][4]) if out else 0


def _arg_slice(off: int, width: int) -> pt.Expr:
    a = pt.Txn.application_args[0]
    if width == 0:
        return pt.Bytes(b"")
    return pt.Extract(a, pt.Int(off), pt.Int(width))


class EncodeBuilder:
    """builds the ABI value of type t from its parts with set(...)"""

    def __init__(self, t, lens: List[int], literal: Optional[Any] = None, int_exprs: bool = False, expr_forms: bool = False):
        self.t = t
        self.expr_forms = expr_forms    # integer / bool leaves from value-preserving expressions of different AST classes
        self.layout: List[Tuple] = []
        leaf_layout(t, LenPlan(lens), self.layout)
        self.total = (self.layout[-1][3] + self.layout[-1][4]) if self.layout else 0
        self.lens = lens
        self.literal = literal          # concrete value tree: leaves are set from Python literals
        self.int_exprs = int_exprs      # ... integer leaves from Int(<literal>) expressions instead
        self._li = 0
        self.steps: List[pt.Expr] = []

    def build(self, t=None, plan=None, lit=None, top=True, into=None):
        """into: an existing instance to assemble the top-level value in (instead of a fresh one)"""
        if top:
            t, plan, lit = self.t, LenPlan(self.lens), self.literal
            self._li = 0
            self.steps = []
        k = t[0]
        spec = T.to_spec(t)
        inst = into if (top and into is not None) else spec.new_instance()
        if k in ("bool", "byte", "uint", "address", "string", "dbytes"):
            (path, kind, bits, off, width) = self.layout[self._li]
            self._li += 1
            if k in ("string", "dbytes"):
                plan.next()
            if lit is not None and self.int_exprs and k in ("byte", "uint", "bool"):
                # the literal is given as a PyTeal Int expression, not as a Python int
                self.steps.append(inst.set(pt.Int(int(lit))))
            elif lit is not None:
                if k == "address":
                    self.steps.append(inst.set(bytes(lit)))
                elif k == "string":
                    self.steps.append(inst.set(bytes(lit)))
                elif k == "dbytes":
                    self.steps.append(inst.set(bytes(lit)))
                else:
                    self.steps.append(inst.set(lit))
            else:
                src = _arg_slice(off, width)
                if kind in ("uint", "bool"):
                    val = pt.Btoi(src)
                    if self.expr_forms:
                        forms = [lambda x: pt.BitwiseAnd(x, pt.Int(2 ** 64 - 1)), lambda x: pt.Minus(x, pt.Int(0)), lambda x: pt.Add(x, pt.Int(0)),
                                 lambda x: pt.Div(x, pt.Int(1)), lambda x: pt.BitwiseOr(x, pt.Int(0)), lambda x: pt.ShiftRight(x, pt.Int(0)),
                                 lambda x: pt.Seq(pt.Pop(pt.Int(1)), x), lambda x: pt.If(pt.Int(1), x, pt.Int(0)), lambda x: pt.BitwiseXor(x, pt.Int(0))]
                        val = forms[(self._li - 1) % len(forms)](val)
                    self.steps.append(inst.set(val))
                else:
                    self.steps.append(inst.set(src))
            return inst
        if k == "darray":
            n = plan.next()
            kids = [self.build(t[1], plan, None if lit is None else lit[i], False) for i in range(n)]
            self.steps.append(inst.set(kids))
            return inst
        if k == "sarray":
            kids = [self.build(t[1], plan, None if lit is None else lit[i], False) for i in range(t[2])]
            self.steps.append(inst.set(kids))
            return inst
        if k in ("tuple", "ntuple"):
            kids = [self.build(m, plan, None if lit is None else lit[i], False) for i, m in enumerate(t[1])]
            self.steps.append(inst.set(*kids))
            return inst
        raise ValueError(t)


def encode_program(t, lens: List[int], backend: str, literal=None, int_exprs: bool = False, expr_forms: bool = False) -> pt.Expr:
    """main-routine (scratch) or subroutine (frame at v8+) program that logs value.encode()"""
    def body():
        b = EncodeBuilder(t, lens, literal, int_exprs, expr_forms)
        root = b.build()
        return pt.Seq(*b.steps, pt.Log(root.encode()))

    if backend == "main":
        return pt.Seq(body(), pt.Approve())

    if backend == "abiret":
        # the value is assembled inside an ABIReturnSubroutine and handed back through its output
        def build_into(*, output):
            b = EncodeBuilder(t, lens, literal, int_exprs, expr_forms)
            b.build(into=output)
            return pt.Seq(*b.steps)
        build_into.__annotations__ = {"output": T.to_spec(t).annotation_type(), "return": pt.Expr}
        f = pt.ABIReturnSubroutine(build_into)
        res = T.to_spec(t).new_instance()
        return pt.Seq(f().store_into(res), pt.Log(res.encode()), pt.Approve())

    @pt.Subroutine(pt.TealType.none)
    def build_and_log():
        return body()

    return pt.Seq(build_and_log(), pt.Approve())


# ---------------------------------------------------------------------------
# decode / access program
def access_program(t, path: List[Tuple], observe: str, backend: str) -> pt.Expr:
    """x.decode(arg0) then follow `path` (steps ("t", i) tuple member | ("a", i) constant array index |
    ("rt", argno) run-time array index from Btoi(arg argno) | ("f", name) named-tuple field), then observe:
      "encode"  Log(elem.encode())        "get-u"  Log(Itob(elem.get()))      "get-b"  Log(elem.get())
      "length"  Log(Itob(elem.length()))"""
    def body():
        cur_t = t
        cur = T.to_spec(t).new_instance()
        steps: List[pt.Expr] = [cur.decode(pt.Txn.application_args[0])]
        for st in path:
            if st[0] in ("t", "f"):
                mt = cur_t[1][st[1]] if st[0] == "t" else cur_t[1][list(cur_t[2]).index(st[1])]
                elem = cur[st[1]] if st[0] == "t" else getattr(cur, st[1])
            else:
                mt = ("byte",) if cur_t[0] in ("address", "string", "dbytes") else cur_t[1]
                idx = st[1] if st[0] == "a" else pt.Btoi(pt.Txn.application_args[st[1]])
                elem = cur[idx]
            nxt = T.to_spec(mt).new_instance()
            steps.append(elem.store_into(nxt))
            cur, cur_t = nxt, mt
        if observe == "encode":
            steps.append(pt.Log(cur.encode()))
        elif observe == "get-u":
            steps.append(pt.Log(pt.Itob(cur.get())))
        elif observe == "get-b":
            steps.append(pt.Log(cur.get()))
        elif observe == "length":
            steps.append(pt.Log(pt.Itob(cur.length())))
        else:
            raise ValueError(observe)
        return pt.Seq(*steps)

    if backend == "main":
        return pt.Seq(body(), pt.Approve())

    @pt.Subroutine(pt.TealType.none)
    def decode_and_log():
        return body()

    return pt.Seq(decode_and_log(), pt.Approve())


def compile_abi(ast: pt.Expr, version: int, optimize: Optional[Dict[str, Any]] = None) -> str:
    from ..recipe.build import reset_pyteal_state
    reset_pyteal_state()
    kw = {}
    if optimize is not None:
        kw["optimize"] = pt.OptimizeOptions(**optimize)
    try:
        return pt.compileTeal(ast, pt.Mode.Application, version=version, **kw)
    finally:
        reset_pyteal_state()
