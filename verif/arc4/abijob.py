"""Worker-side jobs for the ABI properties: C06 (encode) and C07 (decode / element access).
SymAVM runs the emitted program on a symbolic application argument; the oracle is the ARC-4 model
(verif/arc4/model.py); z3 decides each path pair; models are replayed concretely with algosdk.abi
as the reference codec."""
from typing import Any, Dict, List, Optional, Tuple

import z3

from ..avm.ctx import CtxConfig
from ..avm.engine import Engine, HarnessError, Outcome
from ..avm.sym import Bounds, SymAVM
from ..avm.values import Bs, U, u64_to_bytes
from ..common import from_json, to_json
from ..teal.parse import TealSyntaxError, blocking_complaints, check_program, parse
from .. import tv
from . import model as M, programs as P, types as T

PYTEAL_ERRORS = ("TealInputError", "TealCompileError", "TealTypeError", "TealInternalError", "TealPragmaError", "TealSeqError")
ARG0 = "g0.ApplicationArgs[0]"
ARG1 = "g0.ApplicationArgs[1]"


def tt(x):
    """JSON lists -> the tuple form of type shapes"""
    if isinstance(x, (list, tuple)):
        return tuple(tt(y) for y in x)
    return x


def _try(build):
    from ..recipe.build import reset_pyteal_state
    try:
        return build(), "ok", ""
    except NotImplementedError as e:
        return None, "rejected", "NotImplementedError: %s" % e
    except Exception as e:  # noqa
        name = type(e).__name__
        return None, ("rejected" if name in PYTEAL_ERRORS else "crash"), "%s: %s" % (name, str(e)[:200])
    finally:
        reset_pyteal_state()


def _argbyte(name, k):
    return z3.BitVec("%s#%d" % (name, k), 8)


def _cat(bs):
    return z3.Concat(*bs) if len(bs) > 1 else bs[0]


# ---------------------------------------------------------------------------
def encode_oracle(t, lens):
    """-> (value tree over the bytes of arg0, range-violation condition, total input width)"""
    layout: List[Tuple] = []
    P.leaf_layout(t, M.LenPlan(lens), layout)
    total = (layout[-1][3] + layout[-1][4]) if layout else 0
    viol = []
    it = iter(layout)

    def walk(t, plan):
        k = t[0]
        if k in ("bool", "byte", "uint", "address", "string", "dbytes"):
            (path, kind, bits, off, width) = next(it)
            if k in ("string", "dbytes"):
                plan.next()
            bs = [_argbyte(ARG0, off + j) for j in range(width)]
            if k == "bool":
                return bs[0] != z3.BitVecVal(0, 8)
            if kind == "uint":
                u = _cat(bs)
                if bits < 64:
                    viol.append(z3.UGE(u, z3.BitVecVal(1 << bits, 64)))
                return z3.Extract(bits - 1, 0, u)
            return bs
        if k == "darray":
            n = plan.next()
            return [walk(t[1], plan) for _ in range(n)]
        if k == "sarray":
            return [walk(t[1], plan) for _ in range(t[2])]
        return [walk(m, plan) for m in t[1]]

    v = walk(t, M.LenPlan(lens))
    return v, (z3.Or(*viol) if viol else False), total


def encode_concrete(t, lens, arg0: bytes):
    """concrete counterpart: -> (value tree, violated)"""
    layout: List[Tuple] = []
    P.leaf_layout(t, M.LenPlan(lens), layout)
    it = iter(layout)
    bad = [False]

    def walk(t, plan):
        k = t[0]
        if k in ("bool", "byte", "uint", "address", "string", "dbytes"):
            (path, kind, bits, off, width) = next(it)
            if k in ("string", "dbytes"):
                plan.next()
            bs = arg0[off:off + width]
            if k == "bool":
                return bs[0] != 0
            if kind == "uint":
                u = int.from_bytes(bs, "big")
                if u >= 1 << bits:
                    bad[0] = True
                return u & ((1 << bits) - 1)
            return list(bs)
        if k == "darray":
            n = plan.next()
            return [walk(t[1], plan) for _ in range(n)]
        if k == "sarray":
            return [walk(t[1], plan) for _ in range(t[2])]
        return [walk(m, plan) for m in t[1]]

    return walk(t, M.LenPlan(lens)), bad[0]


def _common(job, build):
    out = {"id": job["id"], "family": job.get("family"), "version": job["version"], "status": "ok", "violations": [], "complaints": [],
           "obligations": 0, "discharged": 0, "inconclusive": 0, "ref_paths": 0, "teal_paths": 0, "ref_cut": 0, "nonfail": 0,
           "replayed": 0, "unconfirmed": 0}
    teal, st, detail = _try(build)
    out["status"], out["detail"] = st, detail
    if st != "ok":
        return out, None, None
    try:
        prog = parse(teal)
    except TealSyntaxError as e:
        out["complaints"] = ["unparsable: %s" % e]
        return out, None, teal
    out["complaints"] = blocking_complaints(prog, "A")
    out["teal_lines"] = len(prog.instrs)
    if out["complaints"]:
        out["teal"] = teal
        return out, None, teal
    return out, prog, teal


def _finish(out, job, res, eng):
    out.update({"obligations": res.obligations, "discharged": res.discharged, "inconclusive": res.inconclusive, "ref_paths": res.ref_paths,
                "teal_paths": res.teal_paths, "ref_cut": res.ref_cut, "nonfail": res.nonfail_paths, "stats": eng.stats.as_dict(),
                "sample_query": res.sample_query})


def _concrete_run(teal, cfg, conc):
    prog2 = parse(teal)
    return tv.run_concrete(lambda c: SymAVM(prog2, c, Bounds(loop_k=300, call_depth=64, max_steps=400000)).run, cfg, conc)


def _expected_outcome(fail: bool, log: Optional[bytes]) -> Outcome:
    if fail:
        return Outcome([], "fail", kind="expected")
    return Outcome([], "return", ret=U(1), effects=[("log", Bs(list(log)))])


# ---------------------------------------------------------------------------
def encode_job(job: Dict[str, Any]) -> Dict[str, Any]:
    t = tt(job["type"])
    lens = list(job["lens"])
    backend = job.get("backend", "main")
    literal = job.get("literal")

    def build():
        return P.compile_abi(P.encode_program(t, lens, backend, literal, bool(job.get("int_exprs")), bool(job.get("expr_forms"))), job["version"], job.get("optimize"))

    out, prog, teal = _common(job, build)
    base = {"kind": "encode", "type": T.T_str(t), "job": job}
    if literal is not None and job.get("int_exprs"):
        # Int(<n>) expressions: an out-of-range value is not rejected when built, the PROGRAM must fail
        if prog is None:
            return out
        in_range = _literal_in_range(t, literal)
        cfg = CtxConfig(mode="A", version=job["version"])
        p = _concrete_run(teal, cfg, {"GroupIndex": 0})
        q = _expected_outcome(not in_range, M.sdk_encode(t, _clip(t, literal)) if in_range else None)
        out["obligations"] = out["replayed"] = 1
        out["nonfail"] = 1
        if tv.outcomes_differ_concretely(p, q):
            out["violations"].append(dict(base, what="Int-expression leaf: %s" % ("in range" if in_range else "out of range, the program must fail"),
                                          teal_outcome=tv.describe_outcome(p), reference_outcome=tv.describe_outcome(q), teal=teal[-2000:]))
        else:
            out["discharged"] = 1
        return out
    if literal is not None:
        # Python literals: out-of-range integers must be rejected when the value is built
        in_range = _literal_in_range(t, literal)
        if out["status"] == "rejected" and in_range:
            out["violations"].append(dict(base, what="in-range literal rejected: %s" % out["detail"]))
        if out["status"] == "ok" and not in_range:
            out["violations"].append(dict(base, what="out-of-range literal accepted", teal=teal[-1500:]))
        if out["status"] != "ok" or not in_range:
            out["status"] = "ok" if out["violations"] else out["status"]
            return out
    if prog is None:
        return out
    cfg = CtxConfig(mode="A", version=job["version"])
    eng = Engine(timeout_ms=job.get("timeout_ms", 20000), max_paths=2000)
    na = z3.BitVec("g0.NumAppArgs", 64)
    if literal is not None:
        expected = bytes(M.enc(t, literal))
        refs = [Outcome([], "return", ret=U(1), effects=[("log", Bs(list(expected)))], shape={"GroupIndex": 0})]
        total = 0
    else:
        v, viol, total = encode_oracle(t, lens)
        cfg.lens[ARG0] = (total,)
        pre = [z3.UGE(na, z3.BitVecVal(1, 64)), z3.ULE(na, z3.BitVecVal(16, 64))]
        shape = {"len:" + ARG0: total, "GroupIndex": 0}
        refs = []
        if not isinstance(viol, bool):
            refs.append(Outcome(pre + [viol], "fail", kind="range", shape=dict(shape)))
            refs.append(Outcome(pre + [z3.Not(viol)], "return", ret=U(1), effects=[("log", Bs(M.enc(t, v)))], shape=dict(shape)))
        else:
            refs.append(Outcome(pre, "return", ret=U(1), effects=[("log", Bs(M.enc(t, v)))], shape=dict(shape)))
    runner = tv.teal_runner_for(prog, cfg, eng, Bounds(loop_k=4, call_depth=6))
    res = tv.check_against(refs, runner, eng, want_sample=job.get("want_sample", False))
    _finish(out, job, res, eng)
    for cand in res.candidates:
        conc = tv.concretize(cand["model"], cand["shape"])
        teal2, st2, _ = _try(build)
        if st2 != "ok":
            out.setdefault("harness", []).append("recompilation failed")
            continue
        p = _concrete_run(teal2, cfg, conc)
        out["replayed"] += 1
        if literal is not None:
            q = _expected_outcome(False, M.sdk_encode(t, literal))
        else:
            arg0 = conc.get(ARG0, b"")
            arg0 = arg0 + bytes(total - len(arg0))
            vt, bad = encode_concrete(t, lens, arg0)
            q = _expected_outcome(bad or int(conc.get("g0.NumAppArgs", 0)) < 1, None if bad else M.sdk_encode(t, vt))
        if tv.outcomes_differ_concretely(p, q):
            if len(out["violations"]) < 2:
                out["violations"].append(dict(base, input=tv.jsonable_conc(conc), teal_outcome=tv.describe_outcome(p),
                                              reference_outcome=tv.describe_outcome(q), teal=teal2[-3000:]))
        else:
            out["unconfirmed"] += 1
    if job.get("keep_teal"):
        out["teal"] = teal
    return out


def _clip(t, v):
    return v


def _literal_in_range(t, v) -> bool:
    k = t[0]
    if k == "bool":
        return isinstance(v, bool)
    if k == "byte":
        return 0 <= v < 256
    if k == "uint":
        return 0 <= v < (1 << t[1])
    if k == "address":
        return len(v) == 32
    if k in ("string", "dbytes"):
        return len(v) < 65536
    if k in ("darray", "sarray"):
        return all(_literal_in_range(t[1], x) for x in v)
    return all(_literal_in_range(m, x) for m, x in zip(t[1], v))


# ---------------------------------------------------------------------------
def _step_types(t, path):
    cur = t
    for st in path:
        if st[0] == "t":
            cur = cur[1][st[1]]
        elif st[0] == "f":
            cur = cur[1][list(cur[2]).index(st[1])]
        else:
            cur = ("byte",) if cur[0] in ("address", "string", "dbytes") else cur[1]
    return cur


def _observe(ct, cv, observe):
    """expected logged bytes (list of byte terms) for a component"""
    if observe == "encode":
        return M.enc(ct, cv)
    if observe == "get-u":
        if ct[0] == "bool":
            if isinstance(cv, bool):
                return list(int(cv).to_bytes(8, "big"))
            return [0] * 7 + [z3.If(cv, z3.BitVecVal(1, 8), z3.BitVecVal(0, 8))]
        bits = 8 if ct[0] == "byte" else ct[1]
        if isinstance(cv, int):
            return list(cv.to_bytes(8, "big"))
        return [0] * (8 - bits // 8) + M._uint_bytes(cv, bits)
    if observe == "get-b":
        return list(cv)
    if observe == "length":
        return list(len(cv).to_bytes(8, "big"))
    raise ValueError(observe)


def copy_job(job: Dict[str, Any]) -> Dict[str, Any]:
    """target.set(source) where both are ABI integers of possibly different widths and the source holds Btoi(arg 0):
    nothing is demanded when PyTeal rejects the copy; an accepted copy must fail for a value that does not fit the
    target and otherwise log the target's encoding (all 2^64 argument values, z3)"""
    import pyteal as pt
    tb, sb = job["target_bits"], job["source_bits"]
    cls = {8: pt.abi.Uint8, 16: pt.abi.Uint16, 32: pt.abi.Uint32, 64: pt.abi.Uint64}

    def build():
        def body():
            s_, t_ = cls[sb](), cls[tb]()
            return pt.Seq(s_.set(pt.Btoi(pt.Txn.application_args[0])), t_.set(s_), pt.Log(t_.encode()))
        if job.get("backend") == "sub":
            f = pt.Subroutine(pt.TealType.none)(lambda: body())
            return P.compile_abi(pt.Seq(f(), pt.Approve()), job["version"], job.get("optimize"))
        return P.compile_abi(pt.Seq(body(), pt.Approve()), job["version"], job.get("optimize"))

    out, prog, teal = _common(job, build)
    if prog is None:
        return out          # rejected when built (or crashed: counted by the driver)
    cfg = CtxConfig(mode="A", version=job["version"])
    cfg.lens[ARG0] = (8,)
    eng = Engine(timeout_ms=job.get("timeout_ms", 20000), max_paths=200)
    na = z3.BitVec("g0.NumAppArgs", 64)
    a = [_argbyte(ARG0, k) for k in range(8)]
    val = z3.Concat(*a)
    pre = [z3.UGE(na, z3.BitVecVal(1, 64)), z3.ULE(na, z3.BitVecVal(16, 64))]
    shape = {"len:" + ARG0: 8, "GroupIndex": 0}
    lim = min(tb, sb)
    fits = z3.ULT(val, z3.BitVecVal(1 << lim, 64)) if lim < 64 else z3.BoolVal(True)
    enc = a[8 - tb // 8:]
    refs = [Outcome(pre + [fits], "return", ret=U(1), effects=[("log", Bs(list(enc)))], shape=dict(shape))]
    if lim < 64:
        refs.append(Outcome(pre + [z3.Not(fits)], "fail", kind="range", shape=dict(shape)))
    runner = tv.teal_runner_for(prog, cfg, eng, Bounds(loop_k=2, call_depth=4))
    res = tv.check_against(refs, runner, eng, want_sample=job.get("want_sample", False))
    _finish(out, job, res, eng)
    for cand in res.candidates:
        conc = tv.concretize(cand["model"], cand["shape"])
        teal2, st2, _ = _try(build)
        if st2 != "ok":
            continue
        p = _concrete_run(teal2, cfg, conc)
        out["replayed"] += 1
        arg0 = conc.get(ARG0, b"")
        arg0 = arg0 + bytes(8 - len(arg0))
        v = int.from_bytes(arg0, "big")
        bad = v >= (1 << lim) or int(conc.get("g0.NumAppArgs", 0)) < 1
        q = _expected_outcome(bad, None if bad else v.to_bytes(tb // 8, "big"))
        if tv.outcomes_differ_concretely(p, q):
            out["violations"].append({"kind": "copy", "what": "uint%d.set(a uint%d holding %d)" % (tb, sb, v), "job": job, "input": tv.jsonable_conc(conc),
                                      "teal_outcome": tv.describe_outcome(p), "reference_outcome": tv.describe_outcome(q), "teal": teal2[-1500:]})
            break
        out["unconfirmed"] += 1
    return out


def access_job(job: Dict[str, Any]) -> Dict[str, Any]:
    t = tt(job["type"])
    lens = list(job["lens"])
    path = [tuple(s) for s in job["path"]]
    observe = job["observe"]
    backend = job.get("backend", "main")

    def build():
        return P.compile_abi(P.access_program(t, path, observe, backend), job["version"], job.get("optimize"))

    out, prog, teal = _common(job, build)
    if prog is None:
        return out
    leaves: List[Any] = []
    v = M.fresh_value(t, "v", M.LenPlan(lens), leaves)
    enc0 = M.enc(t, v)
    cfg = CtxConfig(mode="A", version=job["version"])
    cfg.presets[ARG0] = enc0
    uses_rt = any(s[0] == "rt" for s in path)
    if uses_rt:
        cfg.lens[ARG1] = (8,)
    eng = Engine(timeout_ms=job.get("timeout_ms", 20000), max_paths=job.get("max_paths", 600))
    na = z3.BitVec("g0.NumAppArgs", 64)
    pre = [z3.UGE(na, z3.BitVecVal(2 if uses_rt else 1, 64)), z3.ULE(na, z3.BitVecVal(16, 64))]
    shape = {"GroupIndex": 0}
    if uses_rt:
        shape["len:" + ARG1] = 8
    idx = _cat([_argbyte(ARG1, k) for k in range(8)]) if uses_rt else None
    # oracle: follow the path; a run-time index forks over the in-range values and one out-of-range case
    refs: List[Outcome] = []
    oob_feature = [None]

    def follow(ct, cv, k, pc):
        if k == len(path):
            refs.append(Outcome(pre + pc, "return", ret=U(1), effects=[("log", Bs(_observe(ct, cv, observe)))], shape=dict(shape)))
            return
        st = path[k]
        if st[0] == "t":
            follow(ct[1][st[1]], cv[st[1]], k + 1, pc)
        elif st[0] == "f":
            i = list(ct[2]).index(st[1])
            follow(ct[1][i], cv[i], k + 1, pc)
        else:
            et = ("byte",) if ct[0] in ("address", "string", "dbytes") else ct[1]
            n = len(cv)
            if st[0] == "a":
                if st[1] < n:
                    follow(et, cv[st[1]], k + 1, pc)
                else:
                    oob_feature[0] = et
                    refs.append(Outcome(pre + pc, "fail", kind="index out of range", shape=dict(shape)))
            else:
                for i in range(n):
                    follow(et, cv[i], k + 1, pc + [idx == z3.BitVecVal(i, 64)])
                oob_feature[0] = et
                refs.append(Outcome(pre + pc + [z3.UGE(idx, z3.BitVecVal(n, 64))], "fail", kind="index out of range", shape=dict(shape)))

    follow(t, v, 0, [])
    runner = tv.teal_runner_for(prog, cfg, eng, Bounds(loop_k=4, call_depth=6))
    try:
        res = tv.check_against(refs, runner, eng, want_sample=job.get("want_sample", False))
    except HarnessError as e:
        if "path budget" not in str(e):
            raise
        # too many length/index forks for this shape: reported as inconclusive (never as passed)
        out.update({"status": "ok", "obligations": len(refs), "discharged": 0, "inconclusive": len(refs), "skipped_path_budget": 1,
                    "stats": eng.stats.as_dict()})
        return out
    _finish(out, job, res, eng)
    base = {"kind": "access", "type": T.T_str(t), "job": job}
    for cand in res.candidates:
        model = cand["model"]
        conc = tv.concretize(model, cand["shape"])
        cvt = M.eval_value(v, model)
        conc[ARG0] = M.sdk_encode(t, cvt)
        if uses_rt:
            a1 = conc.get(ARG1, b"")
            conc[ARG1] = a1 + bytes(8 - len(a1))
        teal2, st2, _ = _try(build)
        if st2 != "ok":
            out.setdefault("harness", []).append("recompilation failed")
            continue
        p = _concrete_run(teal2, cfg_without_presets(cfg), conc)
        out["replayed"] += 1
        q, oob_t = access_expected(t, cvt, path, observe, int.from_bytes(conc.get(ARG1, bytes(8)), "big"), int(conc.get("g0.NumAppArgs", 0)), uses_rt)
        if tv.outcomes_differ_concretely(p, q):
            if len(out["violations"]) < 2:
                feats = []
                if q.verdict == "fail" and oob_t is not None:
                    feats.append("oob-index:" + ("bool" if oob_t[0] == "bool" else ("dynamic-element" if T.is_dynamic(oob_t) else
                                                                                  ("zero-size-element" if T.static_len(oob_t) == 0 else "static-element"))))
                out["violations"].append(dict(base, input=tv.jsonable_conc(conc), value=to_json(cvt), features=feats,
                                              teal_outcome=tv.describe_outcome(p), reference_outcome=tv.describe_outcome(q), teal=teal2[-3000:]))
        else:
            out["unconfirmed"] += 1
    if job.get("keep_teal"):
        out["teal"] = teal
    return out


def cfg_without_presets(cfg):
    import copy
    c = copy.copy(cfg)
    c.presets = {}
    return c


def access_expected(t, cvt, path, observe, idx, nargs, uses_rt):
    """concrete oracle with algosdk as the reference codec -> (Outcome, element type if out of range)"""
    if nargs < (2 if uses_rt else 1):
        return _expected_outcome(True, None), None
    ct, cv = t, cvt
    for st in path:
        if st[0] == "t":
            ct, cv = ct[1][st[1]], cv[st[1]]
        elif st[0] == "f":
            i = list(ct[2]).index(st[1])
            ct, cv = ct[1][i], cv[i]
        else:
            et = ("byte",) if ct[0] in ("address", "string", "dbytes") else ct[1]
            i = st[1] if st[0] == "a" else idx
            if i >= len(cv):
                return _expected_outcome(True, None), et
            ct, cv = et, cv[i]
    if observe == "encode":
        return _expected_outcome(False, M.sdk_encode(ct, cv)), None
    return _expected_outcome(False, bytes(_observe(ct, cv, observe))), None
