"""Translation validation core: compare the outcomes of emitted TEAL (SymAVM) with a reference
(outcome list produced by a reference evaluator, or another TEAL program) for all inputs.

Lock-step scheme: for every reference path q (path condition pc_q, shape decisions, outcome),
SymAVM runs the TEAL under assumptions pc_q and shape_q; every TEAL sub-path p yields the
obligation  UNSAT(pc_p AND outcome_p != outcome_q).
"""
import time
from dataclasses import dataclass, field
from typing import Any, Callable, Dict, List, Optional, Tuple

import z3

from .avm.ctx import CtxConfig
from .avm.engine import Engine, HarnessError, Outcome, Stats
from .avm.sym import Bounds, SymAVM
from .avm.values import Bs, Ob, U, b_and, b_not, b_or, bytes_eq, lift


# ---------------------------------------------------------------------------
def value_differ(a, b):
    """Python bool or z3 Bool: the two values differ"""
    if a is None or b is None:
        return not (a is None and b is None)
    if isinstance(a, U) != isinstance(b, U):
        return True
    if isinstance(a, U):
        if a.concrete and b.concrete:
            return a.e != b.e
        if (not a.concrete) and (not b.concrete) and z3.eq(a.e, b.e):
            return False
        return a.z() != b.z()
    if isinstance(a, Ob) or isinstance(b, Ob):
        ta, tb = lift(a), lift(b)
        if z3.eq(ta, tb):
            return False
        return ta != tb
    if len(a) != len(b):
        return True
    return b_not(bytes_eq(a.bs, b.bs))


def effect_differ(x: Tuple, y: Tuple):
    if x[0] != y[0] or len(x) != len(y):
        return True
    k = x[0]
    if k == "itxn_submit":
        gx, gy = x[1], y[1]
        if len(gx) != len(gy):
            return True
        ds = []
        for tx, ty in zip(gx, gy):
            if len(tx) != len(ty):
                return True
            for (fx, vx), (fy, vy) in zip(tx, ty):
                if fx != fy:
                    return True
                ds.append(value_differ(vx, vy))
        return b_or(*ds)
    ds = []
    for p, q in zip(x[1:], y[1:]):
        if isinstance(p, (U, Bs, Ob)) or isinstance(q, (U, Bs, Ob)):
            ds.append(value_differ(p, q))
        elif p != q:
            return True
    return b_or(*ds)


def outcome_differ(p: Outcome, q: Outcome, extra_cmp: Optional[Callable] = None):
    """Python bool / z3 Bool: observable outcomes differ. Failures are all equivalent (a failed
    program leaves no effects)."""
    if p.verdict == "fail" and q.verdict == "fail":
        return False
    if p.verdict != q.verdict:
        return True
    ds = [value_differ(p.ret, q.ret)]
    if len(p.effects) != len(q.effects):
        return True
    for x, y in zip(p.effects, q.effects):
        ds.append(effect_differ(x, y))
    if extra_cmp is not None:
        ds.append(extra_cmp(p, q))
    return b_or(*ds)


# ---------------------------------------------------------------------------
def concretize(model, shape: Dict[str, Any]) -> Dict[str, Any]:
    conc: Dict[str, Any] = {}
    if model is not None:
        for d in model.decls():
            if d.arity() != 0:
                continue
            v = model[d]
            if z3.is_bv_value(v):
                conc[d.name()] = v.as_long()
    for key, n in shape.items():
        if key.startswith("len:"):
            name = key[4:]
            conc[name] = bytes(conc.get("%s#%d" % (name, i), 0) for i in range(n))
    for key, kind in shape.items():
        if key.startswith("kind:"):
            name = key[5:]
            if kind == "absent":
                conc[name] = None
            elif kind == "uint":
                conc[name] = conc.get(name + ".u", 0)
            else:
                conc[name] = conc.get(name + ".b", b"")
    gi = shape.get("GroupIndex", 0)
    conc["GroupIndex"] = gi
    if "GroupSize" not in conc:
        conc["GroupSize"] = max(gi + 1, 1)
    return conc


def describe_value(v):
    if v is None:
        return None
    if isinstance(v, U):
        return v.e if v.concrete else str(z3.simplify(v.e))
    if isinstance(v, Bs):
        return "0x" + v.as_bytes().hex() if v.concrete else "bytes[%d](symbolic)" % len(v)
    return str(v)


def describe_outcome(o: Outcome):
    eff = []
    for e in o.effects:
        if e[0] == "itxn_submit":
            eff.append(["itxn_submit", [[(f, describe_value(v)) for f, v in t] for t in e[1]]])
        else:
            eff.append([e[0]] + [describe_value(x) if isinstance(x, (U, Bs, Ob)) else
                                 (x.hex() if isinstance(x, bytes) else x) for x in e[1:]])
    return {"verdict": o.verdict, "kind": o.kind, "ret": describe_value(o.ret), "effects": eff}


def jsonable_conc(conc: Dict[str, Any]):
    out = {}
    for k, v in conc.items():
        if isinstance(v, bytes):
            out[k] = {"hex": v.hex()}
        else:
            out[k] = v
    return out


def conc_from_json(d):
    out = {}
    for k, v in d.items():
        if isinstance(v, dict) and "hex" in v:
            out[k] = bytes.fromhex(v["hex"])
        else:
            out[k] = v
    return out


# ---------------------------------------------------------------------------
@dataclass
class TVResult:
    obligations: int = 0
    discharged: int = 0
    inconclusive: int = 0
    ref_paths: int = 0
    teal_paths: int = 0
    ref_cut: int = 0
    nonfail_paths: int = 0
    candidates: List[Dict[str, Any]] = field(default_factory=list)   # solver models awaiting replay
    discipline: List[Dict[str, Any]] = field(default_factory=list)   # D:* failures on TEAL paths
    stats: Stats = field(default_factory=Stats)
    sample_query: Optional[str] = None


def check_against(ref_outcomes: List[Outcome], teal_runner: Callable[[List[Any], Dict[str, Any]], List[Outcome]],
                  eng: Engine, extra_cmp: Optional[Callable] = None, want_sample: bool = False) -> TVResult:
    """ref_outcomes: reference paths. teal_runner(assumptions, shape) -> TEAL outcomes under them."""
    res = TVResult()
    for q in ref_outcomes:
        res.ref_paths += 1
        if q.verdict == "cut":
            res.ref_cut += 1
            continue
        if q.verdict == "return":
            res.nonfail_paths += 1
        ps = teal_runner(q.pc, q.shape)
        for p in ps:
            res.teal_paths += 1
            res.obligations += 1
            if p.verdict == "fail" and p.kind.startswith("D:"):
                res.discipline.append({"kind": p.kind, "pc": p.pc, "shape": p.shape})
            if p.verdict == "cut":
                # the TEAL runs longer than the reference allows: candidate (replayed concretely)
                d = True
            else:
                d = outcome_differ(p, q, extra_cmp)
            if isinstance(d, bool):
                if not d:
                    res.discharged += 1
                    continue
                # definite difference on a feasible path: get a model of the path condition
                r = eng.check(*p.pc)
                if r == "sat":
                    res.candidates.append({"model": eng.solver.model(), "shape": p.shape, "why": "structural",
                                           "teal": describe_outcome(p), "ref": describe_outcome(q)})
                elif r == "unsat":
                    res.discharged += 1
                else:
                    res.inconclusive += 1
                continue
            eng.solver.push()
            try:
                for c in p.pc:
                    eng.solver.add(c)
                eng.solver.add(d)
                if want_sample and res.sample_query is None:
                    s = eng.solver.sexpr()
                    res.sample_query = s if len(s) < 4000 else s[:4000] + "...(truncated)"
                r = eng.check()
                if r == "unsat":
                    res.discharged += 1
                elif r == "sat":
                    res.candidates.append({"model": eng.solver.model(), "shape": p.shape, "why": "solver",
                                           "teal": describe_outcome(p), "ref": describe_outcome(q)})
                else:
                    res.inconclusive += 1
            finally:
                eng.solver.pop()
    return res


def teal_runner_for(prog, cfg: CtxConfig, eng: Engine, bounds: Bounds, **kw):
    def run(assumptions, shape):
        vm = SymAVM(prog, cfg, bounds, **kw)
        return eng.explore(vm.run, assumptions=list(assumptions), shape=shape)
    return run


def concrete_cfg(cfg: CtxConfig, conc: Dict[str, Any]) -> CtxConfig:
    import copy
    c = copy.copy(cfg)
    c.concrete = conc
    return c


def run_concrete(run_fn_factory: Callable[[CtxConfig], Callable], cfg: CtxConfig, conc: Dict[str, Any]) -> Outcome:
    """Execute one of the interpreters on a concrete context; exactly one outcome is expected."""
    ccfg = concrete_cfg(cfg, conc)
    eng = Engine(timeout_ms=2000, max_paths=50)
    outs = eng.explore(run_fn_factory(ccfg))
    if len(outs) != 1:
        raise HarnessError("concrete run produced %d outcomes" % len(outs))
    return outs[0]


def outcomes_differ_concretely(p: Outcome, q: Outcome, extra_cmp=None) -> bool:
    d = outcome_differ(p, q, extra_cmp)
    if isinstance(d, bool):
        return d
    d = z3.simplify(d)
    if z3.is_true(d):
        return True
    if z3.is_false(d):
        return False
    raise HarnessError("concrete comparison left a symbolic residue: %s" % d)
