"""Shared driver infrastructure: job pool, evidence, replays, known findings, exit codes."""
import hashlib
import json
import multiprocessing as mp
import os
import sys
import time
import traceback
from typing import Any, Callable, Dict, Iterable, List, Optional, Tuple

VERIF_DIR = os.path.dirname(os.path.dirname(os.path.abspath(__file__)))
EVIDENCE_DIR = os.environ.get("VERIF_EVIDENCE_DIR") or os.path.join(VERIF_DIR, "evidence")
REPLAY_DIR = os.environ.get("VERIF_REPLAY_DIR") or os.path.join(VERIF_DIR, "replays")
KNOWN_FILE = os.path.join(VERIF_DIR, "known_findings.json")

EXIT_OK, EXIT_VIOLATION, EXIT_HARNESS = 0, 1, 2


def tier() -> str:
    return os.environ.get("VERIF_TIER", "quick")


def seed() -> int:
    try:
        return int(os.environ.get("VERIF_SEED", "0"))
    except ValueError:
        return 0


def jobs() -> int:
    try:
        return max(1, int(os.environ.get("VERIF_JOBS", str(min(16, os.cpu_count() or 4)))))
    except ValueError:
        return 8


# ---------------------------------------------------------------------------
# JSON encoding of recipes (tuples <-> lists, bytes <-> {"hex": ...})
def to_json(x):
    if isinstance(x, (bytes, bytearray)):
        return {"hex": bytes(x).hex()}
    if isinstance(x, (tuple, list)):
        return [to_json(y) for y in x]
    if isinstance(x, dict):
        return {str(k): to_json(v) for k, v in x.items()}
    return x


def from_json(x):
    if isinstance(x, dict):
        if set(x.keys()) == {"hex"}:
            return bytes.fromhex(x["hex"])
        return {k: from_json(v) for k, v in x.items()}
    if isinstance(x, list):
        return tuple(from_json(y) for y in x)
    return x


# ---------------------------------------------------------------------------
def load_known() -> List[Dict[str, Any]]:
    if not os.path.exists(KNOWN_FILE):
        return []
    with open(KNOWN_FILE) as f:
        return json.load(f).get("findings", [])


def match_known(prop: str, features: Iterable[str], known: List[Dict[str, Any]]) -> Optional[Dict[str, Any]]:
    fs = set(features)
    for k in known:
        if k.get("status") != "known":
            continue
        if prop not in k.get("properties", [k.get("property")]):
            continue
        if k.get("feature") in fs:
            return k
    return None


def write_replay(prop: str, record: Dict[str, Any]) -> str:
    os.makedirs(REPLAY_DIR, exist_ok=True)
    blob = json.dumps(to_json(record), sort_keys=True, default=str)
    h = hashlib.sha256(blob.encode()).hexdigest()[:12]
    path = os.path.join(REPLAY_DIR, "%s-%s.json" % (prop, h))
    with open(path, "w") as f:
        f.write(blob)
    return path


def write_evidence(prop: str, level: str, coverage: Dict[str, Any], assumptions: List[str],
                   wall_s: float, violations: int, extra: Optional[Dict[str, Any]] = None):
    os.makedirs(EVIDENCE_DIR, exist_ok=True)
    ev = {
        "property_id": prop,
        "tier": tier() if tier() in ("quick", "thorough") else "quick",
        "seed": seed(),
        "level": level,
        "coverage": coverage,
        "assumptions": assumptions,
        "wall_s": round(wall_s, 2),
        "violations": violations,
    }
    if extra:
        ev.update(extra)
    path = os.path.join(EVIDENCE_DIR, "%s.json" % prop)
    tmp = path + ".tmp"
    with open(tmp, "w") as f:
        json.dump(to_json(ev), f, indent=1, default=str)
    os.replace(tmp, path)
    return path


# ---------------------------------------------------------------------------
_WORKER_FN = None
_WORKER_FN_PATH = None


def _init_worker(fn_path):
    global _WORKER_FN, _WORKER_FN_PATH
    _WORKER_FN_PATH = fn_path
    modname, fname = fn_path.rsplit(":", 1)
    import importlib
    _WORKER_FN = getattr(importlib.import_module(modname), fname)
    sys.setrecursionlimit(10000)


class JobTimeout(BaseException):
    pass


def _on_alarm(signum, frame):
    raise JobTimeout()


def _run_job(job):
    """one job under a wall-clock limit (VERIF_JOB_TIMEOUT, default 600 s): a job that exceeds it is reported as
    'timed_out' - counted as inconclusive by the drivers, never as passed"""
    import signal
    t0 = time.time()
    limit = int(float(os.environ.get("VERIF_JOB_TIMEOUT", "600")))
    try:
        signal.signal(signal.SIGALRM, _on_alarm)
        signal.alarm(limit)
    except (ValueError, OSError):
        pass
    try:
        r = _WORKER_FN(job)
        if not isinstance(r, dict):
            r = {"result": r}
    except JobTimeout:
        r = {"timed_out": True, "id": job.get("id") if isinstance(job, dict) else None, "status": "timeout", "violations": [],
             "detail": "job exceeded %d s" % limit, "inconclusive": 1, "obligations": 1}
    except BaseException as e:  # noqa
        if isinstance(e, KeyboardInterrupt):
            raise
        if type(e).__name__ == "HarnessError" and "path budget exceeded" in str(e):
            # the program has more feasible paths than the job's budget: not explored to the end -> inconclusive, like a timeout
            r = {"timed_out": True, "id": job.get("id") if isinstance(job, dict) else None, "status": "timeout", "violations": [],
                 "detail": str(e), "inconclusive": 1, "obligations": 1, "path_budget": True}
            r["_job"] = r["id"]
            r["_t"] = round(time.time() - t0, 3)
            r["_fn"] = _WORKER_FN_PATH
            try:
                signal.alarm(0)
            except (ValueError, OSError):
                pass
            return r
        r = {"harness_error": "%s: %s" % (type(e).__name__, e), "trace": traceback.format_exc()[-2000:]}
    finally:
        try:
            signal.alarm(0)
        except (ValueError, OSError):
            pass
    r["_job"] = job.get("id") if isinstance(job, dict) else None
    r["_t"] = round(time.time() - t0, 3)
    r["_fn"] = _WORKER_FN_PATH
    return r


def _run_chunk(chunk):
    return [_run_job(j) for j in chunk]


def run_jobs(fn_path: str, joblist: List[Dict[str, Any]], nproc: Optional[int] = None,
             chunksize: int = 1, maxtasks: int = 200) -> List[Dict[str, Any]]:
    """fn_path = 'module:function'; each job is a dict (must be picklable)."""
    nproc = nproc or jobs()
    if nproc == 1 or len(joblist) <= 1:
        _init_worker(fn_path)
        return [_run_job(j) for j in joblist]
    ctx = mp.get_context("fork")
    stall = float(os.environ.get("VERIF_STALL_TIMEOUT", "900"))
    out: List[Dict[str, Any]] = []
    with ctx.Pool(nproc, initializer=_init_worker, initargs=(fn_path,), maxtasksperchild=maxtasks) as pool:
        chunks = [joblist[i:i + chunksize] for i in range(0, len(joblist), max(1, chunksize))]
        it = pool.imap_unordered(_run_chunk, chunks)
        while True:
            try:
                out.extend(it.next(timeout=stall))
            except StopIteration:
                break
            except mp.TimeoutError:
                # a worker hangs or died: never wait forever, never report the missing jobs as passed
                pool.terminate()
                done = {r.get("_job") for r in out}
                missing = [j.get("id") for j in joblist if isinstance(j, dict) and j.get("id") not in done]
                out.append({"harness_error": "no result for %d s; %d job(s) unfinished, e.g. %s" % (stall, len(missing), missing[:3]), "_job": None, "_t": stall})
                break
    return out


class Report:
    """Collects violations / known findings / harness errors of one check run and produces the
    process exit code and the stdout lines the interface prescribes."""

    def __init__(self, prop: str):
        self.prop = prop
        self.known = load_known()
        self.violations: List[Dict[str, Any]] = []
        self.known_hits: Dict[str, int] = {}
        self.known_what: Dict[str, str] = {}
        self.harness_errors: List[str] = []
        self.t0 = time.time()

    def violation(self, record: Dict[str, Any], features: Iterable[str]):
        k = match_known(self.prop, features, self.known)
        if k is not None:
            key = k.get("key", k.get("feature"))
            self.known_hits[key] = self.known_hits.get(key, 0) + 1
            self.known_what[key] = k.get("what", "")
            return
        record = dict(record)
        record["property"] = self.prop
        record["features"] = sorted(set(features))
        path = write_replay(self.prop, record)
        self.violations.append({"replay": path, "features": record["features"]})

    def harness_error(self, msg: str):
        self.harness_errors.append(msg)

    def wall(self) -> float:
        return time.time() - self.t0

    def finish(self, inconclusive: int = 0, obligations: int = 0, budget: float = 0.05) -> int:
        for key, n in sorted(self.known_hits.items()):
            print("KNOWN-FINDING: property=%s %s [%s; %d instance(s) this run]" % (self.prop, self.known_what[key], key, n))
        seen = set()
        for v in self.violations:
            if v["replay"] in seen:
                continue
            seen.add(v["replay"])
            if len(seen) <= 25:
                print("VIOLATION property=%s replay=%s" % (self.prop, v["replay"]))
        if len(seen) > 25:
            print("(%d further violations not listed; replays are in %s)" % (len(seen) - 25, REPLAY_DIR))
        if self.violations:
            return EXIT_VIOLATION
        if self.harness_errors:
            for m in self.harness_errors[:10]:
                print("HARNESS-ERROR property=%s %s" % (self.prop, m))
            return EXIT_HARNESS
        if obligations and inconclusive > budget * obligations:
            print("HARNESS-ERROR property=%s inconclusive %d of %d obligations exceeds budget" % (self.prop, inconclusive, obligations))
            return EXIT_HARNESS
        print("OK property=%s wall=%.1fs" % (self.prop, self.wall()))
        return EXIT_OK
