"""Routine-level ("modular") translation validation: one inductive step of C02.

Each subroutine of a recipe is checked in isolation, entered with symbolic arguments on top of a
symbolic caller cell, with EVERY call it makes replaced by a havoc on both sides:
  * the callee consumes its arguments and yields arbitrary result(s) (fresh symbols shared by
    the two sides, k-th call on the path <-> k-th callsub on the path);
  * when the callee can re-enter the calling routine (recipe call graph), it overwrites every
    scratch slot with arbitrary values on the TEAL side -- the reference side has per-invocation
    locals, so nothing changes there.
Obligations: same arguments passed to each call (in order), same effects, same result, and the
data stack at routine exit is exactly [caller cell] + declared results.  Because the callee is
arbitrary, the step holds for any recursion depth.
Not covered here (covered by the whole-program runs): by-reference parameters, shared variables."""
from typing import Any, Dict, List, Optional

import z3

from .avm.ctx import CtxConfig
from .avm.engine import Engine, HarnessError, Outcome, PathEnd
from .avm.sym import Bounds, SymAVM
from .avm.values import Bs, U
from .common import from_json, to_json
from .recipe.ref import RefEval, _Frame, _Return, _Exit, var_owners
from .teal.parse import parse
from . import tv, tvjob


def call_graph(rec) -> Dict[str, set]:
    g: Dict[str, set] = {}

    def visit(e, acc):
        if isinstance(e, tuple):
            if e and e[0] == "Call":
                acc.add(e[1])
            for c in e[1:]:
                visit(c, acc)
        elif isinstance(e, list):
            for c in e:
                visit(c, acc)

    for name, sd in rec.get("subs", {}).items():
        acc = set()
        visit(sd["body"], acc)
        g[name] = acc
    return g


def reaches(g: Dict[str, set], a: str, b: str) -> bool:
    seen, work = set(), [a]
    while work:
        x = work.pop()
        if x == b:
            return True
        if x in seen:
            continue
        seen.add(x)
        work.extend(g.get(x, ()))
    return False


def eligible(rec) -> List[str]:
    owners = var_owners(rec)
    if any(o == "*" for o in owners.values()):
        return []
    out = []
    for name, sd in rec.get("subs", {}).items():
        if any(p[0] not in ("val", "abi") for p in sd["params"]):
            continue
        g = call_graph(rec)
        if any(any(p[0] not in ("val", "abi") for p in rec["subs"][c]["params"]) for c in g[name]):
            continue
        out.append(name)
    return out


def ptype(p) -> str:
    return p[2] if len(p) > 2 else "u"


class HavocRef(RefEval):
    """reference evaluation of ONE routine body with havoc'd calls"""

    def __init__(self, rec, cfg, bounds, routine: str):
        super().__init__(rec, cfg, bounds)
        self.routine = routine

    def run(self, path) -> Outcome:
        from .avm.ctx import World
        from .avm.sym import Ops
        self.path = path
        self.w = World(self.cfg, path)
        self.ops = Ops(self.cfg, path, self.w, self.bounds)
        self.globals = {}
        self.iters = {}
        self.depth = 0
        self.ncalls = 0
        sd = self.rec["subs"][self.routine]
        fr = _Frame(self.routine)
        for p in sd["params"]:
            fr.params[p[1]] = make_input(self.w, "in." + p[1], ptype(p))
        kind = "retsub"
        try:
            try:
                v = self.ev(sd["body"], fr)
            except _Return as r:
                v = r.v
        except _Exit as x:
            kind = "program"
            v = x.v
        if sd["ret"] == "n" and kind == "retsub":
            v = None
        eff = list(path.effects) + [("exit", kind)]
        return Outcome([], "return", ret=v, effects=eff)

    def ev_Call(self, e, fr):
        sd = self.rec["subs"][e[1]]
        args = [self.ev(a, fr) for a in e[2:]]
        self.ncalls += 1
        self.path.effects.append(("call", e[1]) + tuple(args))
        if sd["ret"] == "n":
            return None
        return make_input(self.w, "hv%d.ret" % self.ncalls, "u" if sd["ret"] == "a" else sd["ret"])


def make_input(w, name: str, ty: str):
    if ty == "u":
        return w.uvar(name)
    return w.bvar(name)


def teal_routine_runner(prog, rec, cfg, eng, bounds, routine: str, label: str, label_to_sub: Dict[str, str]):
    sd = rec["subs"][routine]
    g = call_graph(rec)
    n = len(prog.instrs)
    sentinel = n + 7

    def run(assumptions, shape):
        def run_path(path):
            state = {"k": 0}

            def havoc(vm, lbl):
                callee = label_to_sub.get(lbl)
                if callee is None:
                    raise HarnessError("callsub to unknown label %s" % lbl)
                csd = rec["subs"][callee]
                na = len(csd["params"])
                vm.need(na)
                args = vm.st[len(vm.st) - na:] if na else []
                if na:
                    del vm.st[len(vm.st) - na:]
                state["k"] += 1
                path.effects.append(("call", callee) + tuple(args))
                if reaches(g, callee, routine):
                    vm.scratch.clear()
                    vm.havoc_gen = state["k"]
                if csd["ret"] != "n":
                    vm.push(make_input(vm.w, "hv%d.ret" % state["k"], "u" if csd["ret"] == "a" else csd["ret"]))

            vm = SymAVM(prog, cfg, bounds, entry=prog.labels[label], entry_label=label, stop_at=sentinel,
                        havoc_callsub=havoc)
            # initial stack: caller cell + arguments (created through a World bound to this path)
            from .avm.ctx import World
            w0 = World(cfg, path)
            init = [w0.uvar("in.below")]
            for p in sd["params"]:
                init.append(make_input(w0, "in." + p[1], ptype(p)))
            vm.init_stack = init
            out = vm.run(path)
            if out.extra.get("stopped"):
                st = out.extra["stack"]
                nres = 0 if sd["ret"] == "n" else 1
                ok_shape = len(st) == 1 + nres and isinstance(st[0], U) and \
                    ((not st[0].concrete and str(st[0].e) == "in.below") or
                     (cfg.concrete is not None and st[0].concrete and st[0].e == int(cfg.concrete.get("in.below", 0))))
                eff = list(out.effects)
                if not ok_shape:
                    eff.append(("stack-at-exit", len(st)) + tuple(st))
                eff.append(("exit", "retsub"))
                return Outcome([], "return", ret=(st[-1] if nres and len(st) >= 1 else None), effects=eff)
            out.effects = list(out.effects) + [("exit", "program")]
            return out
        return eng.explore(run_path, assumptions=list(assumptions), shape=shape)
    return run


def labels_of(prog, rec) -> Dict[str, str]:
    """emitted label -> recipe routine (labels are <sanitised python name>_<index>)"""
    import re
    out = {}
    byname = {}
    for name, sd in rec.get("subs", {}).items():
        byname[re.sub(r"[^A-Za-z0-9]", "", sd.get("name") or sd.get("pyname") or name)] = name
    for lbl in prog.labels:
        m = re.match(r"^(.*)_(\d+)$", lbl)
        if m and m.group(1) in byname:
            out[lbl] = byname[m.group(1)]
    return out


def confirm(rec, job, cfg, conc, routine):
    teal2, st, detail = tvjob.try_compile(rec, job["version"], job.get("optimize"), job.get("assemble", False))
    if st != "ok":
        raise HarnessError("recompilation for replay failed: %s" % detail)
    prog2 = parse(teal2)
    l2s = labels_of(prog2, rec)
    label = [l for l, s in l2s.items() if s == routine][0]
    big = Bounds(loop_k=300, call_depth=64, max_steps=200000)
    ccfg = tv.concrete_cfg(cfg, conc)
    eng = Engine(timeout_ms=2000, max_paths=50)
    ps = teal_routine_runner(prog2, rec, ccfg, eng, big, routine, label, l2s)([], {})
    qs = eng.explore(HavocRef(rec, ccfg, big, routine).run)
    if len(ps) != 1 or len(qs) != 1:
        raise HarnessError("concrete routine run produced %d/%d outcomes" % (len(ps), len(qs)))
    p, q = ps[0], qs[0]
    if q.verdict == "cut":
        return None, p, q, teal2
    if p.verdict == "cut":
        return True, p, q, teal2
    return tv.outcomes_differ_concretely(p, q), p, q, teal2


def modular_job(job: Dict[str, Any]) -> Dict[str, Any]:
    rec = from_json(job["rec"])
    rec.setdefault("mode", "A")
    out: Dict[str, Any] = {"id": job.get("id"), "family": "modular", "version": job["version"], "status": "ok",
                           "violations": [], "complaints": [], "obligations": 0, "discharged": 0, "inconclusive": 0,
                           "ref_paths": 0, "teal_paths": 0, "ref_cut": 0, "nonfail": 0, "replayed": 0, "unconfirmed": 0,
                           "routines": 0}
    names = eligible(rec)
    if not names:
        out["status"] = "skipped"
        return out
    teal, st, detail = tvjob.try_compile(rec, job["version"], job.get("optimize"), job.get("assemble", False))
    out["status"], out["detail"] = st, detail
    if st != "ok":
        return out
    prog = parse(teal)
    l2s = labels_of(prog, rec)
    cfg = tvjob.make_cfg(job)
    eng = Engine(timeout_ms=job.get("timeout_ms", 10000), max_paths=job.get("max_paths", 3000))
    k = job.get("loop_k", 3)
    for routine in names:
        labels = [l for l, s in l2s.items() if s == routine]
        if not labels:
            continue   # routine not reachable from main: not emitted
        out["routines"] += 1
        refs = eng.explore(HavocRef(rec, cfg, Bounds(loop_k=k, call_depth=99), routine).run)
        runner = teal_routine_runner(prog, rec, cfg, eng, Bounds(loop_k=2 * k + 2, call_depth=99), routine, labels[0], l2s)
        res = tv.check_against(refs, runner, eng, want_sample=job.get("want_sample", False))
        for f in ("obligations", "discharged", "inconclusive", "ref_paths", "teal_paths", "ref_cut"):
            out[f] += getattr(res, f)
        out["nonfail"] += res.nonfail_paths
        if res.sample_query and not out.get("sample_query"):
            out["sample_query"] = res.sample_query
        for cand in res.candidates:
            conc = tv.concretize(cand["model"], cand["shape"])
            try:
                differs, p, q, teal2 = confirm(rec, job, cfg, conc, routine)
            except HarnessError as e:
                out.setdefault("harness", []).append(str(e))
                continue
            out["replayed"] += 1
            if differs:
                if len(out["violations"]) < 3:
                    out["violations"].append({
                        "kind": "modular", "routine": routine, "recipe": to_json(rec), "version": job["version"],
                        "optimize": job.get("optimize"), "mode": "A", "input": tv.jsonable_conc(conc),
                        "teal_outcome": tv.describe_outcome(p), "reference_outcome": tv.describe_outcome(q), "teal": teal2,
                        "job": {k2: v for k2, v in job.items() if k2 != "rec"}})
            else:
                out["unconfirmed"] += 1
    out["stats"] = eng.stats.as_dict()
    if job.get("keep_teal"):
        out["teal"] = teal
    return out


def replay_file(record) -> bool:
    rec = from_json(record["recipe"])
    job = dict(record.get("job", {}))
    job.update({"version": record["version"], "optimize": record.get("optimize")})
    cfg = tvjob.make_cfg(job)
    conc = tv.conc_from_json(record["input"])
    differs, p, q, teal = confirm(rec, job, cfg, conc, record["routine"])
    print("TEAL routine outcome:     ", tv.describe_outcome(p))
    print("reference routine outcome:", tv.describe_outcome(q))
    return bool(differs)
