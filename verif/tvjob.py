"""Worker-side job: one recipe at one (version, options) -> compile with the real compiler,
front-end check, reference exploration, lock-step symbolic execution of the emitted TEAL,
solver obligations, concrete replay of every counterexample."""
import time
from typing import Any, Dict, List, Optional

from .avm.ctx import CtxConfig, ASSUMPTIONS
from .avm.engine import Engine, HarnessError
from .avm.sym import Bounds, SymAVM
from .common import from_json, to_json
from .recipe.build import compile_recipe, reset_pyteal_state
from .recipe.ref import RefEval
from .teal.parse import TealSyntaxError, blocking_complaints, check_program, parse
from . import tv

PYTEAL_ERRORS = ("TealInputError", "TealCompileError", "TealTypeError", "TealInternalError",
                 "TealPragmaError", "TealSeqError")


def try_compile(rec, version, optimize=None, assemble=False):
    """-> (teal or None, status, detail); status in ok / rejected / crash"""
    try:
        return compile_recipe(rec, version, optimize, assemble), "ok", ""
    except Exception as e:  # noqa
        name = type(e).__name__
        if name in PYTEAL_ERRORS:
            return None, "rejected", "%s: %s" % (name, str(e)[:200])
        return None, "crash", "%s: %s" % (name, str(e)[:200])
    finally:
        reset_pyteal_state()


def make_cfg(job) -> CtxConfig:
    return CtxConfig(mode=job.get("mode", "A"), version=job["version"],
                     default_lens=tuple(job.get("lens", (0, 1, 3))),
                     lens={k: tuple(v) for k, v in job.get("lens_by_name", {}).items()},
                     group_index_options=tuple(job.get("group_index_options", (0,))),
                     state_kinds=tuple(job.get("state_kinds", ("absent", "uint", "bytes"))))


def confirm(rec, job, cfg, conc, extra_cmp=None):
    """Replay one solver model concretely against a fresh compilation. -> (differs, teal_out, ref_out, teal_text)"""
    teal2, st, detail = try_compile(rec, job["version"], job.get("optimize"), job.get("assemble", False))
    if st != "ok":
        raise HarnessError("recompilation for replay failed: %s" % detail)
    prog2 = parse(teal2)
    big = Bounds(loop_k=300, call_depth=64, max_steps=200000)
    p = tv.run_concrete(lambda c: SymAVM(prog2, c, big, record_exits=job.get("record_exits", False)).run, cfg, conc)
    q = tv.run_concrete(lambda c: RefEval(rec, c, big).run, cfg, conc)
    if q.verdict == "cut" or (p.verdict == "cut" and q.verdict == "cut"):
        return None, p, q, teal2
    if p.verdict == "cut":
        return True, p, q, teal2
    return tv.outcomes_differ_concretely(p, q, extra_cmp), p, q, teal2


def tv_recipe_job(job: Dict[str, Any]) -> Dict[str, Any]:
    rec = from_json(job["rec"])
    rec.setdefault("mode", job.get("mode", "A"))
    job = dict(job)
    job["mode"] = rec["mode"]
    out: Dict[str, Any] = {"id": job.get("id"), "family": job.get("family"), "version": job["version"],
                           "status": "ok", "violations": [], "discipline": [], "complaints": []}
    teal, st, detail = try_compile(rec, job["version"], job.get("optimize"), job.get("assemble", False))
    out["status"] = st
    out["detail"] = detail
    if st != "ok":
        return out
    try:
        prog = parse(teal)
    except TealSyntaxError as e:
        out["complaints"] = ["unparsable: %s" % e]
        out["teal"] = teal
        return out
    out["complaints"] = blocking_complaints(prog, rec["mode"])
    out["teal_lines"] = len(prog.instrs)
    if out["complaints"]:
        out["teal"] = teal
        return out
    cfg = make_cfg(job)
    eng = Engine(timeout_ms=job.get("timeout_ms", 10000), max_paths=job.get("max_paths", 3000))
    k, d = job.get("loop_k", 3), job.get("call_depth", 4)
    refs = eng.explore(RefEval(rec, cfg, Bounds(loop_k=k, call_depth=d)).run)
    runner = tv.teal_runner_for(prog, cfg, eng, Bounds(loop_k=2 * k + 2, call_depth=d + 2))
    res = tv.check_against(refs, runner, eng, want_sample=job.get("want_sample", False))
    out.update({"obligations": res.obligations, "discharged": res.discharged,
                "inconclusive": res.inconclusive, "ref_paths": res.ref_paths, "teal_paths": res.teal_paths,
                "ref_cut": res.ref_cut, "nonfail": res.nonfail_paths, "stats": eng.stats.as_dict(),
                "sample_query": res.sample_query, "replayed": 0, "unconfirmed": 0})
    for dsc in res.discipline:
        out["discipline"].append({"kind": dsc["kind"], "shape": dsc["shape"]})
    seen = set()
    for cand in res.candidates:
        conc = tv.concretize(cand["model"], cand["shape"])
        try:
            differs, p, q, teal2 = confirm(rec, job, cfg, conc)
        except HarnessError as e:
            out.setdefault("harness", []).append(str(e))
            continue
        out["replayed"] += 1
        if differs:
            key = (tv.describe_outcome(p)["verdict"], tv.describe_outcome(q)["verdict"])
            if key in seen and len(out["violations"]) >= 3:
                continue
            seen.add(key)
            out["violations"].append({
                "recipe": to_json(rec), "version": job["version"], "optimize": job.get("optimize"),
                "assemble": job.get("assemble", False), "mode": rec["mode"],
                "input": tv.jsonable_conc(conc), "teal_outcome": tv.describe_outcome(p),
                "reference_outcome": tv.describe_outcome(q), "teal": teal2, "job": {k2: v for k2, v in job.items() if k2 != "rec"},
            })
        else:
            out["unconfirmed"] += 1
    if job.get("keep_teal"):
        out["teal"] = teal
    return out


def replay_file(record: Dict[str, Any]) -> bool:
    """Re-run a stored violation against the current tree; True when it still differs."""
    rec = from_json(record["recipe"])
    job = dict(record.get("job", {}))
    job.update({"version": record["version"], "optimize": record.get("optimize"),
                "assemble": record.get("assemble", False), "mode": record.get("mode", "A")})
    cfg = make_cfg(job)
    conc = tv.conc_from_json(record["input"])
    differs, p, q, teal = confirm(rec, job, cfg, conc)
    print("TEAL outcome:     ", tv.describe_outcome(p))
    print("reference outcome:", tv.describe_outcome(q))
    return bool(differs)
