"""Range guards of leaf constructors (C04 part 3), decided from their CURRENT source.

A guard is the prefix of a constructor / accessor that raises a PyTeal error for unacceptable Python
ints.  The function's AST is executed by the integer interpreter (verif/py2smt/ints.py) with the
integer argument symbolic (80-bit signed vector: every |x| < 2^79), every other argument concrete;
branches are decided by z3.  Result: the condition under which the guard accepts.  The obligation is
accepted => lo <= x <= hi (the encoding of the immediate), plus a reachability twin (some x accepted).
Fails closed: syntax outside the supported subset raises TranslatorError."""
import ast
import inspect
import textwrap
from typing import Any, Dict, List, Optional, Tuple

import z3

from ..avm.engine import Engine, Outcome
from . import ints as PI


class _Raised(Exception):
    pass


class GuardInterp(PI.Interp):
    def __init__(self, fn, path, symbolic: Dict[str, Any], concrete: Dict[str, Any]):
        super().__init__(fn, path, dict(getattr(fn, "__globals__", {})), unwind=4)
        self.symbolic = symbolic
        self.concrete = concrete

    def run(self):
        a = self.fn_ast.args
        for p in a.args:
            if p.arg in self.symbolic:
                self.env[p.arg] = self.symbolic[p.arg]
            elif p.arg in self.concrete:
                self.env[p.arg] = self.concrete[p.arg]
            elif p.arg == "self":
                self.env["self"] = "<self>"
            else:
                raise PI.TranslatorError("no value for parameter %s" % p.arg)
        try:
            self.block(self.fn_ast.body)
        except _Raised:
            return "raised"
        except PI._Return:
            return "accepted"
        return "accepted"

    def is_symint(self, v):
        return any(v is s for s in self.symbolic.values())

    def stmt(self, st):
        if isinstance(st, ast.Raise):
            raise _Raised()
        if isinstance(st, ast.Expr) and isinstance(st.value, ast.Call):
            f = st.value.func
            name = f.attr if isinstance(f, ast.Attribute) else getattr(f, "id", "")
            if name in ("__init__", "require_type"):
                if name == "require_type" and any(self.is_symint(self.expr(a)) for a in st.value.args[:1] if not isinstance(a, ast.Call)):
                    raise PI.TranslatorError("require_type reached with the integer argument")
                return
            raise PI.TranslatorError("call statement %s" % name)
        if isinstance(st, ast.Assign) and all(isinstance(t, ast.Attribute) for t in st.targets):
            return
        if isinstance(st, ast.Return):
            raise PI._Return(None)
        return super().stmt(st)

    def expr(self, e):
        if isinstance(e, ast.Call) and isinstance(e.func, ast.Name):
            if e.func.id == "isinstance" and len(e.args) == 2:
                v = self.expr(e.args[0])
                types = e.args[1].elts if isinstance(e.args[1], ast.Tuple) else [e.args[1]]
                names = [getattr(t, "id", getattr(t, "attr", "?")) for t in types]
                if self.is_symint(v) or isinstance(v, int):
                    return "int" in names
                raise PI.TranslatorError("isinstance on a non-integer value")
            if e.func.id == "type" and len(e.args) == 1:
                v = self.expr(e.args[0])
                return ("<type>", "int" if (self.is_symint(v) or (isinstance(v, int) and not isinstance(v, bool))) else type(v).__name__)
            if e.func.id == "cast" and len(e.args) == 2:
                return self.expr(e.args[1])
        if isinstance(e, ast.Compare):
            l = self.expr(e.left)
            if isinstance(l, tuple) and l and l[0] == "<type>" and len(e.ops) == 1 and isinstance(e.ops[0], (ast.Is, ast.IsNot)):
                rname = getattr(e.comparators[0], "id", "?")
                same = l[1] == rname
                return same if isinstance(e.ops[0], ast.Is) else not same
            if len(e.ops) == 1 and isinstance(e.ops[0], (ast.Is, ast.IsNot)) and isinstance(e.comparators[0], ast.Constant) and e.comparators[0].value is None:
                isnone = l is None
                return isnone if isinstance(e.ops[0], ast.Is) else not isnone
            if len(e.ops) > 1:
                # chained comparison a <= b <= c
                vals = [l] + [self.expr(c) for c in e.comparators]
                parts = []
                for op, x, y in zip(e.ops, vals, vals[1:]):
                    parts.append(super().expr(ast.Compare(left=_Lit(x), ops=[op], comparators=[_Lit(y)])))
                if all(isinstance(p, bool) for p in parts):
                    return all(parts)
                return z3.And(*[p if not isinstance(p, bool) else z3.BoolVal(p) for p in parts])
        if isinstance(e, _Lit):
            return e.v
        if isinstance(e, ast.JoinedStr) or (isinstance(e, ast.Call) and isinstance(e.func, ast.Attribute) and e.func.attr == "format"):
            return "<text>"
        if isinstance(e, ast.Constant) and isinstance(e.value, str):
            return "<text>"
        if isinstance(e, ast.BinOp) and isinstance(e.op, ast.Pow):
            l, r = self.expr(e.left), self.expr(e.right)
            if isinstance(l, int) and isinstance(r, int):
                return l ** r
        return super().expr(e)


class _Lit(ast.expr):
    """already evaluated value wrapped as an AST node"""
    _fields = ()

    def __init__(self, v):
        super().__init__()
        self.v = v


def accepted_condition(fn, symbolic_names: List[str], concrete: Dict[str, Any], timeout_ms=10000):
    """-> (list of (path condition list) of accepting paths, symbolic vars dict, #paths)"""
    PI.W = 80
    sym = {n: z3.BitVec(n, PI.W) for n in symbolic_names}
    eng = Engine(timeout_ms=timeout_ms, max_paths=200)
    accepting = []

    def run(path):
        gi = GuardInterp(fn, path, sym, concrete)
        r = gi.run()
        return Outcome([], "return" if r == "accepted" else "fail", kind=r)
    outs = eng.explore(run)
    for o in outs:
        if o.kind == "accepted":
            accepting.append(z3.And(*o.pc) if o.pc else z3.BoolVal(True))
    return accepting, sym, len(outs)


def check_guard(name, fn, symbolic: Dict[str, Tuple[int, int]], concrete: Dict[str, Any], timeout_ms=10000, extra_accept=None):
    """symbolic: parameter -> (lo, hi) required of accepted values.  -> list of obligation dicts"""
    src = "%s:%d" % (inspect.getsourcefile(fn), inspect.getsourcelines(fn)[1])
    acc, sym, npaths = accepted_condition(fn, list(symbolic), concrete, timeout_ms)
    A = z3.Or(*acc) if acc else z3.BoolVal(False)
    if extra_accept is not None:
        A = z3.And(A, extra_accept(sym))
    obs = []
    for p, (lo, hi) in symbolic.items():
        x = sym[p]
        # two obligations per parameter (below / above the encodable range), so that a witness on either side is replayed
        for side, bad in (("below", x < z3.BitVecVal(lo, PI.W)), ("above", x > z3.BitVecVal(hi, PI.W))):
            s = z3.Solver()
            s.set("timeout", timeout_ms)
            s.add(A, bad)
            for q, (lo2, hi2) in symbolic.items():
                if q != p:      # the other integer parameters stay inside their ranges, so that the witness isolates p
                    s.add(sym[q] >= z3.BitVecVal(lo2, PI.W), sym[q] <= z3.BitVecVal(hi2, PI.W))
            # prefer a witness close to the boundary
            near = z3.And(x >= z3.BitVecVal(lo - 2, PI.W), x <= z3.BitVecVal(hi + 2, PI.W))
            r = str(s.check(near))
            if r != "sat":
                r = str(s.check())
            ob = {"guard": name, "source": src, "parameter": p, "side": side, "required": [lo, hi], "paths": npaths, "result": r}
            if r == "sat":
                ob["witness"] = {q: s.model().eval(v, model_completion=True).as_signed_long() for q, v in sym.items()}
            obs.append(ob)
    s = z3.Solver()
    s.set("timeout", timeout_ms)
    s.add(A)
    obs.append({"guard": name + " (reachable: some value is accepted)", "source": src, "result": str(s.check())})
    return obs
