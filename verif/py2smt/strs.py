"""A deliberately tiny Python-AST -> z3 (strings / Booleans) translator for the few string-building
kernels whose text reaches the emitted program (C18 b, C13).  It reads the CURRENT source of the
function on every run and fails closed: any syntax it does not know raises TranslatorError, which
the checks turn into a harness error (exit 2), never into a pass."""
import ast
import inspect
import textwrap
from typing import Any, Callable, Dict, List, Optional, Tuple

import z3


class TranslatorError(Exception):
    pass


def get_function_ast(obj) -> ast.FunctionDef:
    src = textwrap.dedent(inspect.getsource(obj))
    mod = ast.parse(src)
    fn = mod.body[0]
    if not isinstance(fn, (ast.FunctionDef,)):
        raise TranslatorError("not a function definition")
    return fn


def source_ref(obj) -> str:
    f = inspect.getsourcefile(obj)
    _, line = inspect.getsourcelines(obj)
    return "%s:%d" % (f, line)


class Result:
    def __init__(self):
        self.raises: List[Any] = []      # list of (path condition) under which the function raises
        self.returns: List[Tuple[Any, Any]] = []   # (path condition, value term)
        self.env: Dict[str, Any] = {}
        self.side: List[Any] = []


def _s(v):
    return z3.StringVal(v) if isinstance(v, str) else v


class Translator:
    """env maps variable names ('x', 'self.attr') to z3 terms (String / Bool / Int) or to the
    Python value None."""

    _fresh = [0]

    def __init__(self, env: Dict[str, Any], side: Optional[List[Any]] = None):
        self.env = dict(env)
        self.side = side if side is not None else []    # constraints that define abstracted sub-terms

    def fresh_str(self, hint="v"):
        Translator._fresh[0] += 1
        return z3.String("%s!%d" % (hint, Translator._fresh[0]))

    # ---- expressions
    def expr(self, e):
        if isinstance(e, ast.Constant):
            if isinstance(e.value, str):
                return z3.StringVal(e.value)
            if isinstance(e.value, bool):
                return z3.BoolVal(e.value)
            if e.value is None:
                return None
            if isinstance(e.value, int):
                return z3.IntVal(e.value)
            raise TranslatorError("constant %r" % (e.value,))
        if isinstance(e, ast.Name):
            if e.id not in self.env:
                raise TranslatorError("unknown name %s" % e.id)
            return self.env[e.id]
        if isinstance(e, ast.Attribute) and isinstance(e.value, ast.Name):
            k = "%s.%s" % (e.value.id, e.attr)
            if k not in self.env:
                raise TranslatorError("unknown attribute %s" % k)
            return self.env[k]
        if isinstance(e, ast.IfExp):
            c = self.cond(e.test)
            a, b = self.expr(e.body), self.expr(e.orelse)
            if isinstance(c, bool):
                return a if c else b
            return z3.If(c, a, b)
        if isinstance(e, ast.JoinedStr):
            parts = []
            for v in e.values:
                if isinstance(v, ast.Constant):
                    parts.append(z3.StringVal(v.value))
                elif isinstance(v, ast.FormattedValue) and v.format_spec is None and v.conversion == -1:
                    parts.append(self.as_str(self.expr(v.value)))
                else:
                    raise TranslatorError("f-string part")
            return z3.Concat(*parts) if len(parts) > 1 else parts[0]
        if isinstance(e, ast.Call) and isinstance(e.func, ast.Attribute) and e.func.attr == "format" \
                and isinstance(e.func.value, ast.Constant) and isinstance(e.func.value.value, str) and not e.keywords:
            fmt = e.func.value.value
            pieces = fmt.split("{}")
            if "{" in "".join(pieces) or "}" in "".join(pieces) or len(pieces) != len(e.args) + 1:
                raise TranslatorError("format string %r" % fmt)
            parts = []
            for i, p in enumerate(pieces):
                if p:
                    parts.append(z3.StringVal(p))
                if i < len(e.args):
                    parts.append(self.as_str(self.expr(e.args[i])))
            if not parts:
                return z3.StringVal("")
            return z3.Concat(*parts) if len(parts) > 1 else parts[0]
        if isinstance(e, ast.Call) and isinstance(e.func, ast.Attribute) and e.func.attr == "getLabel" and not e.args:
            return self.expr(ast.Attribute(value=e.func.value, attr="getLabel()", ctx=ast.Load())) \
                if isinstance(e.func.value, ast.Name) else self._attr_chain(e.func.value, "getLabel()")
        if isinstance(e, ast.Call) and isinstance(e.func, ast.Attribute) and e.func.attr == "join" \
                and isinstance(e.func.value, ast.Constant) and e.func.value.value == "" and len(e.args) == 1 \
                and isinstance(e.args[0], ast.GeneratorExp):
            return self.join_of_lines(e.args[0])
        if isinstance(e, ast.BinOp) and isinstance(e.op, ast.Add):
            return z3.Concat(self.as_str(self.expr(e.left)), self.as_str(self.expr(e.right)))
        raise TranslatorError("expression %s" % ast.dump(e)[:120])

    def join_of_lines(self, gen: ast.GeneratorExp):
        """"".join(FMT.format(line) for line in X.splitlines() [or [""]]) is abstracted (soundly) as a
        fresh string in (FMT-instance)* where the placeholder ranges over strings without line breaks
        (str.splitlines never yields a piece containing a line boundary)"""
        if len(gen.generators) != 1 or gen.generators[0].ifs or not isinstance(gen.generators[0].target, ast.Name):
            raise TranslatorError("generator shape")
        var = gen.generators[0].target.id
        it = gen.generators[0].iter
        at_least_one = False
        if isinstance(it, ast.BoolOp) and isinstance(it.op, ast.Or) and len(it.values) == 2 and isinstance(it.values[1], ast.List) \
                and len(it.values[1].elts) == 1 and isinstance(it.values[1].elts[0], ast.Constant) and it.values[1].elts[0].value == "":
            at_least_one = True
            it = it.values[0]
        if not (isinstance(it, ast.Call) and isinstance(it.func, ast.Attribute) and it.func.attr == "splitlines" and not it.args):
            raise TranslatorError("iteration is not over str.splitlines()")
        self.expr(it.func.value)   # the split string must be a known term
        elt = gen.elt
        if not (isinstance(elt, ast.Call) and isinstance(elt.func, ast.Attribute) and elt.func.attr == "format"
                and isinstance(elt.func.value, ast.Constant) and len(elt.args) == 1 and isinstance(elt.args[0], ast.Name)
                and elt.args[0].id == var):
            raise TranslatorError("generator element is not FMT.format(line)")
        fmt = elt.func.value.value
        pieces = fmt.split("{}")
        if len(pieces) != 2 or "{" in fmt.replace("{}", "") or "}" in fmt.replace("{}", ""):
            raise TranslatorError("format string %r" % fmt)
        nolb = z3.Star(z3.Union(z3.Range(chr(0), chr(9)), z3.Range(chr(11), chr(12)), z3.Range(chr(14), chr(0x2FFFF))))
        parts = []
        if pieces[0]:
            parts.append(z3.Re(pieces[0]))
        parts.append(nolb)
        if pieces[1]:
            parts.append(z3.Re(pieces[1]))
        one = z3.Concat(*parts) if len(parts) > 1 else parts[0]
        r = self.fresh_str("joined")
        self.side.append(z3.InRe(r, z3.Plus(one) if at_least_one else z3.Star(one)))
        return r

    def _attr_chain(self, node, suffix):
        names = []
        while isinstance(node, ast.Attribute):
            names.append(node.attr)
            node = node.value
        if not isinstance(node, ast.Name):
            raise TranslatorError("attribute chain")
        k = ".".join([node.id] + names[::-1] + [suffix])
        if k not in self.env:
            raise TranslatorError("unknown %s" % k)
        return self.env[k]

    def as_str(self, t):
        if t is None:
            return z3.StringVal("None")
        if z3.is_string(t):
            return t
        if z3.is_int(t):
            return z3.IntToStr(t)
        raise TranslatorError("cannot render %s as str" % t)

    def cond(self, e):
        if isinstance(e, ast.BoolOp):
            cs = [self.cond(v) for v in e.values]
            return z3.Or(*cs) if isinstance(e.op, ast.Or) else z3.And(*cs)
        if isinstance(e, ast.UnaryOp) and isinstance(e.op, ast.Not):
            return z3.Not(self.cond(e.operand))
        if isinstance(e, ast.Compare) and len(e.ops) == 1:
            op = e.ops[0]
            l, r = self.expr(e.left), self.expr(e.comparators[0])
            if isinstance(op, (ast.Is, ast.IsNot)):
                if r is not None:
                    raise TranslatorError("is-comparison with non-None")
                isnone = l is None
                return z3.BoolVal(isnone if isinstance(op, ast.Is) else not isnone)
            if isinstance(op, ast.In):
                return z3.Contains(r, l)
            if isinstance(op, ast.NotIn):
                return z3.Not(z3.Contains(r, l))
            if isinstance(op, ast.Eq):
                return l == r
            if isinstance(op, ast.NotEq):
                return l != r
        raise TranslatorError("condition %s" % ast.dump(e)[:120])

    # ---- statements (straight-line with `if ...: raise`, assignments, return)
    def run(self, body, pc=None, res: Optional[Result] = None) -> Result:
        res = res or Result()
        pc = pc if pc is not None else z3.BoolVal(True)
        for st in body:
            if isinstance(st, ast.Expr) and isinstance(st.value, ast.Constant):
                continue   # docstring
            if isinstance(st, ast.Expr) and isinstance(st.value, ast.Call) and isinstance(st.value.func, ast.Attribute) \
                    and st.value.func.attr == "__init__":
                continue   # super().__init__()
            if isinstance(st, ast.If):
                c = self.cond(st.test)
                t = Translator(self.env, self.side)
                if _all_exit(st.body):
                    t.run(st.body, z3.And(pc, c), res)
                if st.orelse:
                    f = Translator(self.env, self.side)
                    f.run(st.orelse, z3.And(pc, z3.Not(c)), res)
                    raise TranslatorError("if/else with fall-through is not supported") if not _all_exit(st.orelse) else None
                if _all_exit(st.body):
                    pc = z3.And(pc, z3.Not(c))
                    continue
                if st.orelse or not all(isinstance(x, ast.Assign) and len(x.targets) == 1 and isinstance(x.targets[0], ast.Name) for x in st.body):
                    raise TranslatorError("if-body that falls through")
                # plain conditional assignments: merge with if-then-else terms
                for x in st.body:
                    name = x.targets[0].id
                    newv = Translator(self.env, self.side).expr(x.value)
                    old = self.env.get(name)
                    if isinstance(c, bool) or z3.is_true(z3.simplify(c)) or z3.is_false(z3.simplify(c)):
                        take = c if isinstance(c, bool) else z3.is_true(z3.simplify(c))
                        self.env[name] = newv if take else old
                    else:
                        if old is None:
                            raise TranslatorError("conditional assignment to an undefined name")
                        self.env[name] = z3.If(c, newv, old)
                continue
            if isinstance(st, ast.Raise):
                res.raises.append(pc)
                return res
            if isinstance(st, ast.Return):
                res.returns.append((pc, self.expr(st.value) if st.value is not None else None))
                return res
            if isinstance(st, ast.Assign) and len(st.targets) == 1:
                tgt = st.targets[0]
                if isinstance(tgt, ast.Name):
                    self.env[tgt.id] = self.expr(st.value)
                    continue
                if isinstance(tgt, ast.Attribute) and isinstance(tgt.value, ast.Name):
                    self.env["%s.%s" % (tgt.value.id, tgt.attr)] = self.expr(st.value)
                    continue
            raise TranslatorError("statement %s" % ast.dump(st)[:120])
        res.env = dict(self.env)
        return res


def _all_exit(body) -> bool:
    return bool(body) and isinstance(body[-1], (ast.Raise, ast.Return))


def translate(obj, env: Dict[str, Any]) -> Result:
    fn = get_function_ast(obj)
    t = Translator(env)
    r = t.run(fn.body)
    r.side = t.side
    return r
