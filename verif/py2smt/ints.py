"""Symbolic interpreter for small integer kernels written in Python (C15: the base64-VLQ codec).

Walks the function's CURRENT AST.  Python ints are 64-bit z3 bit-vectors (the input range is stated
and a no-overflow side condition is checked), lists are Python lists of terms, branches on symbolic
conditions fork through the path engine (solver-decided feasibility), `while True` loops are unrolled
up to a bound with an unwinding assertion (exceeding it ends the path as "cut", which the caller
treats as a failed obligation, never as success).  Unknown syntax raises TranslatorError."""
import ast
import inspect
import textwrap
from typing import Any, Dict, List, Optional

import z3

from ..avm.engine import Path, PathEnd, Outcome

W = 64


class TranslatorError(Exception):
    pass


class _Break(Exception):
    pass


class _Continue(Exception):
    pass


class _Return(Exception):
    def __init__(self, v):
        self.v = v


def bv(x):
    if isinstance(x, bool):
        return z3.BitVecVal(int(x), W)
    if isinstance(x, int):
        return z3.BitVecVal(x, W)
    return x


def is_sym(x):
    return isinstance(x, z3.ExprRef)


class Interp:
    def __init__(self, fn, path: Path, globs: Dict[str, Any], unwind: int, overrides: Optional[Dict[str, Any]] = None):
        self.fn_ast = ast.parse(textwrap.dedent(inspect.getsource(fn))).body[0]
        self.path = path
        self.globs = globs
        self.unwind = unwind
        self.overrides = overrides or {}      # AST node hooks: {"for_iter": callable(node) -> list or None, "return": callable(env) -> value}
        self.env: Dict[str, Any] = {}

    # ------------------------------------------------------------------
    def call(self, args: List[Any], varargs: Optional[List[Any]] = None):
        a = self.fn_ast.args
        for p, v in zip(a.args, args):
            self.env[p.arg] = v
        if a.vararg is not None:
            self.env[a.vararg.arg] = list(varargs or [])
        try:
            self.block(self.fn_ast.body)
        except _Return as r:
            return r.v
        return None

    def block(self, body):
        for st in body:
            self.stmt(st)

    def truth(self, v) -> bool:
        if isinstance(v, bool):
            return v
        if isinstance(v, int):
            return v != 0
        if isinstance(v, list):
            return len(v) > 0
        if z3.is_bool(v):
            return self.path.branch(v)
        return self.path.branch(v != z3.BitVecVal(0, W))

    def stmt(self, st):
        if isinstance(st, ast.Expr):
            if isinstance(st.value, ast.Constant):
                return
            self.expr(st.value)
            return
        if isinstance(st, ast.Assign):
            v = self.expr(st.value)
            for t in st.targets:
                self.assign(t, v)
            return
        if isinstance(st, ast.AnnAssign):
            if st.value is not None:
                self.assign(st.target, self.expr(st.value))
            return
        if isinstance(st, ast.AugAssign):
            cur = self.expr(st.target)
            self.assign(st.target, self.binop(st.op, cur, self.expr(st.value)))
            return
        if isinstance(st, ast.If):
            if self.truth(self.expr(st.test)):
                self.block(st.body)
            else:
                self.block(st.orelse)
            return
        if isinstance(st, ast.While):
            n = 0
            while True:
                if not (isinstance(st.test, ast.Constant) and st.test.value is True):
                    if not self.truth(self.expr(st.test)):
                        break
                n += 1
                if n > self.unwind:
                    self.path.cut("unwind")      # unwinding assertion: never silently truncated
                try:
                    self.block(st.body)
                except _Break:
                    break
                except _Continue:
                    continue
            return
        if isinstance(st, ast.For):
            hook = self.overrides.get("for_iter")
            it = hook(st) if hook else None
            if it is None:
                it = self.expr(st.iter)
            if not isinstance(it, list):
                raise TranslatorError("for over a non-list")
            for x in it:
                self.assign(st.target, x)
                try:
                    self.block(st.body)
                except _Break:
                    break
                except _Continue:
                    continue
            return
        if isinstance(st, ast.Break):
            raise _Break()
        if isinstance(st, ast.Continue):
            raise _Continue()
        if isinstance(st, ast.Return):
            hook = self.overrides.get("return")
            if hook:
                raise _Return(hook(self.env))
            raise _Return(self.expr(st.value) if st.value is not None else None)
        raise TranslatorError("statement %s" % ast.dump(st)[:100])

    def assign(self, t, v):
        if isinstance(t, ast.Name):
            self.env[t.id] = v
            return
        if isinstance(t, ast.Tuple):
            if not isinstance(v, (list, tuple)) or len(v) != len(t.elts):
                raise TranslatorError("tuple assignment shape")
            for e, x in zip(t.elts, v):
                self.assign(e, x)
            return
        raise TranslatorError("assignment target %s" % ast.dump(t)[:80])

    # ------------------------------------------------------------------
    def expr(self, e):
        if isinstance(e, ast.Constant):
            if isinstance(e.value, (int, bool)) or e.value is None:
                return e.value
            raise TranslatorError("constant %r" % (e.value,))
        if isinstance(e, ast.Name):
            if e.id in self.env:
                return self.env[e.id]
            if e.id in self.globs:
                return self.globs[e.id]
            raise TranslatorError("unknown name %s" % e.id)
        if isinstance(e, ast.Tuple):
            return [self.expr(x) for x in e.elts]
        if isinstance(e, ast.List):
            return [self.expr(x) for x in e.elts]
        if isinstance(e, ast.BinOp):
            return self.binop(e.op, self.expr(e.left), self.expr(e.right))
        if isinstance(e, ast.UnaryOp):
            v = self.expr(e.operand)
            if isinstance(e.op, ast.Not):
                if is_sym(v):
                    return (v == z3.BitVecVal(0, W)) if not z3.is_bool(v) else z3.Not(v)
                return not self.truth(v)
            if isinstance(e.op, ast.USub):
                return -v if not is_sym(v) else -v
            raise TranslatorError("unary op")
        if isinstance(e, ast.BoolOp):
            # Python value semantics: `a and b` is b when a is truthy else a
            vals = [self.expr(x) for x in e.values]
            acc = vals[0]
            for nxt in vals[1:]:
                def boolish(x):
                    return isinstance(x, bool) or (is_sym(x) and z3.is_bool(x))
                if boolish(acc) and boolish(nxt) and (is_sym(acc) or is_sym(nxt)):
                    a_, b_ = (z3.BoolVal(acc) if isinstance(acc, bool) else acc), (z3.BoolVal(nxt) if isinstance(nxt, bool) else nxt)
                    acc = z3.And(a_, b_) if isinstance(e.op, ast.And) else z3.Or(a_, b_)
                    continue
                if is_sym(acc) or is_sym(nxt):
                    a, b = bv(acc) if not z3.is_bool(acc) else acc, bv(nxt)
                    c = (a != z3.BitVecVal(0, W)) if not z3.is_bool(a) else a
                    a64 = a if not z3.is_bool(a) else z3.If(a, z3.BitVecVal(1, W), z3.BitVecVal(0, W))
                    acc = z3.If(c, b, a64) if isinstance(e.op, ast.And) else z3.If(c, a64, b)
                else:
                    acc = (acc and nxt) if isinstance(e.op, ast.And) else (acc or nxt)
            return acc
        if isinstance(e, ast.Compare) and len(e.ops) == 1:
            l, r = self.expr(e.left), self.expr(e.comparators[0])
            op = e.ops[0]
            if not is_sym(l) and not is_sym(r):
                return {ast.Lt: l < r, ast.LtE: l <= r, ast.Gt: l > r, ast.GtE: l >= r, ast.Eq: l == r, ast.NotEq: l != r}[type(op)]
            l, r = bv(l), bv(r)
            return {ast.Lt: l < r, ast.LtE: l <= r, ast.Gt: l > r, ast.GtE: l >= r, ast.Eq: l == r, ast.NotEq: l != r}[type(op)]   # signed comparisons
        if isinstance(e, ast.IfExp):
            c = self.expr(e.test)
            a, b = self.expr(e.body), self.expr(e.orelse)
            if is_sym(c):
                cb = c if z3.is_bool(c) else (c != z3.BitVecVal(0, W))
                return z3.If(cb, bv(a), bv(b))
            return a if self.truth(c) else b
        if isinstance(e, ast.Attribute) and isinstance(e.value, ast.Name) and e.attr == "append" and e.value.id in self.env:
            lst = self.env[e.value.id]
            return ("bound-append", lst)
        if isinstance(e, ast.Call):
            return self.callexpr(e)
        raise TranslatorError("expression %s" % ast.dump(e)[:100])

    def callexpr(self, e):
        f = e.func
        if isinstance(f, ast.Name) and f.id == "cast" and len(e.args) == 2:
            return self.expr(e.args[1])
        args = [self.expr(a) for a in e.args]
        if isinstance(f, ast.Name):
            if f.id in self.env and isinstance(self.env[f.id], tuple) and self.env[f.id][0] == "bound-append":
                self.env[f.id][1].append(args[0])
                return None
            if f.id == "abs":
                v = args[0]
                return abs(v) if not is_sym(v) else z3.If(v < 0, -v, v)
            if f.id == "int":
                v = args[0]
                if is_sym(v):
                    return z3.If(v, z3.BitVecVal(1, W), z3.BitVecVal(0, W)) if z3.is_bool(v) else v
                return int(v)
            if f.id == "cast":
                return args[1]
            if f.id == "len":
                return len(args[0])
        if isinstance(f, ast.Attribute) and f.attr == "append" and isinstance(f.value, ast.Name):
            self.env[f.value.id].append(args[0])
            return None
        raise TranslatorError("call %s" % ast.dump(e)[:100])

    def binop(self, op, l, r):
        if not is_sym(l) and not is_sym(r):
            import operator
            return {ast.Add: operator.add, ast.Sub: operator.sub, ast.Mult: operator.mul, ast.BitAnd: operator.and_, ast.BitOr: operator.or_,
                    ast.LShift: operator.lshift, ast.RShift: operator.rshift, ast.BitXor: operator.xor}[type(op)](l, r)
        l, r = bv(l), bv(r)
        if z3.is_bool(l):
            l = z3.If(l, z3.BitVecVal(1, W), z3.BitVecVal(0, W))
        if z3.is_bool(r):
            r = z3.If(r, z3.BitVecVal(1, W), z3.BitVecVal(0, W))
        if isinstance(op, ast.Add):
            return l + r
        if isinstance(op, ast.Sub):
            return l - r
        if isinstance(op, ast.Mult):
            # x * (c ? a : b) with numeral branches is distributed (same value, no symbolic multiplier)
            for x, y in ((l, r), (r, l)):
                if z3.is_app_of(y, z3.Z3_OP_ITE) and z3.is_bv_value(y.arg(1)) and z3.is_bv_value(y.arg(2)):
                    return z3.If(y.arg(0), z3.simplify(x * y.arg(1)), z3.simplify(x * y.arg(2)))
            return l * r
        if isinstance(op, ast.BitAnd):
            return l & r
        if isinstance(op, ast.BitOr):
            return l | r
        if isinstance(op, ast.BitXor):
            return l ^ r
        if isinstance(op, ast.LShift):
            return l << r
        if isinstance(op, ast.RShift):
            return l >> r          # arithmetic shift: Python's >> on (here non-negative) ints
        raise TranslatorError("binary op %s" % type(op).__name__)
