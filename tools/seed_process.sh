#!/bin/sh
# usage: tools/seed_process.sh <incoming dir with patch.diff demo.py notes.md> <seed id> <property> <check> [<check>...]
# Confirms the seeded change in a scratch worktree (applies, baseline suite still passes, demonstration
# passes without / fails with it), runs the given checks against that worktree, records everything in
# /verif/seeded/<seed id>/ and removes the worktree.  /repo itself is never touched.
IN="$(cd "$1" && pwd)"; ID="$2"; PROP="$3"; shift 3
WT="/tmp/sp-$ID"; OUT="/verif/seeded/$ID"
rm -rf "$WT"; git -C /repo worktree prune
git -C /repo worktree add -q --detach "$WT" HEAD || exit 2
mkdir -p "$OUT"; cp "$IN/patch.diff" "$IN/demo.py" "$OUT/"; [ -f "$IN/notes.md" ] && cp "$IN/notes.md" "$OUT/notes.md"
cd "$WT"
PYTHONPATH="$WT" /venv/bin/python "$OUT/demo.py" >/dev/null 2>&1; R0=$?
if ! git apply "$OUT/patch.diff"; then
  echo "{\"id\": \"$ID\", \"property\": \"$PROP\", \"status\": \"patch does not apply on the current tree\"}" > "$OUT/meta.json"
  cd /; git -C /repo worktree remove --force "$WT"; exit 3
fi
PYTHONPATH="$WT" /venv/bin/python "$OUT/demo.py" >/dev/null 2>&1; R1=$?
B="$(sh /verif/tools/baseline.sh "$WT" | head -1)"
case "$B" in *missing=0*) ;; *) B="$(sh /verif/tools/baseline.sh "$WT" | head -1)";; esac
RES=""
for C in "$@"; do
  EV="/tmp/sp-ev-$ID"; RP="/tmp/sp-rp-$ID-$C"; rm -rf "$RP"
  T0=$(date +%s)
  VERIF_PYTEAL_TREE="$WT" VERIF_EVIDENCE_DIR="$EV" VERIF_REPLAY_DIR="$RP" /verif/check "$C" --tier quick > "/tmp/sp-out-$ID-$C" 2>&1; RC=$?
  T1=$(date +%s)
  NV=$(grep -c "^VIOLATION" "/tmp/sp-out-$ID-$C")
  NR=$(ls "$RP" 2>/dev/null | wc -l)
  RES="$RES{\"check\": \"$C\", \"exit\": $RC, \"violation_lines\": $NV, \"replays\": $NR, \"seconds\": $((T1-T0))},"
  rm -rf "$RP" "$EV" "/tmp/sp-out-$ID-$C"
done
cd /; git -C /repo worktree remove --force "$WT"
cat > "$OUT/meta.json" <<JSON
{"id": "$ID", "breaks_property": "$PROP",
 "confirmed": {"demo_exit_without_change": $R0, "demo_exit_with_change": $R1, "baseline_with_change": "$B",
               "how": "scratch worktree of /repo HEAD under /tmp (removed afterwards): demo.py run with PYTHONPATH=<worktree>, git apply patch.diff, demo.py again, tools/baseline.sh <worktree> (pinned pytest suite vs BASELINE.json stable_pass)"},
 "checks_run": [${RES%,}],
 "ran": "VERIF_PYTEAL_TREE=<worktree> ./check <Cxx> --tier quick (evidence and replays redirected to /tmp)"}
JSON
cat "$OUT/meta.json"
