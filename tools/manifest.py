#!/usr/bin/env python3
"""Regenerates /verif/MANIFEST.json from the table below (keeps it valid and in sync)."""
import json, os

HERE = os.path.dirname(os.path.dirname(os.path.abspath(__file__)))
props = [json.loads(l) for l in open(os.path.join(HERE, "properties.jsonl"))]

CHECKS = {
    "C01": dict(
        category="translation_validation", design_ref="DESIGN.md 3/C01",
        technique="translation validation: symbolic execution of the emitted TEAL (SymAVM on z3) vs recipe reference semantics, one SMT obligation per path pair, counterexamples replayed concretely",
        text="For every enumerated program (operator sweep, control skeletons, environment/state/inner-transaction programs, seeded random programs in the thorough tier) at every version/mode where it compiles, z3 shows that the emitted TEAL and the reference semantics of the recipe agree on verdict, return value and ordered effects for ALL inputs within the stated bounds (loop iterations, recursion depth, byte-string lengths). Programs are enumerated to a bound; inputs are symbolic.",
        note="Trusted: TEAL op semantics in verif/avm (shared by both sides for primitive operators), recipe semantics in verif/recipe/ref.py, z3. Bounds: loop iterations K, call depth D, listed byte lengths; crypto ops uninterpreted; opcode budget not modelled."),
    "C02": dict(
        category="translation_validation", design_ref="DESIGN.md 3/C02",
        technique="translation validation: SymAVM(emitted TEAL) vs recipe semantics with a call stack, whole-program (bounded recursion depth) and routine-level with havoc'd callees (one inductive step, any depth); SMT obligation per path pair; models replayed concretely",
        text="For every enumerated program with routines (self/mutual recursion incl. routines of different arities and result kinds, by-value and by-reference parameters, call sites in statement position and under pending operands, Return at several body positions, locals that must survive calls) under every calling-convention option (versions 4..10, frame_pointers default/off, scratch_slots on/off), z3 shows emitted TEAL and reference agree for ALL inputs up to the recursion-depth bound; additionally each routine is checked in isolation from an arbitrary caller cell with every callee replaced by an arbitrary one that clobbers all scratch slots when it can re-enter, which covers the spill/restore code for any depth.",
        note="Trusted: TEAL op semantics (verif/avm), recipe call semantics (verif/recipe/ref.py, verif/modular.py), z3. Bounds: recursion depth D and loop K for whole-program runs; routine-level runs exclude by-reference parameters and shared variables."),
    "C03": dict(
        category="translation_validation", design_ref="DESIGN.md 3/C03",
        technique="translation validation, TEAL vs TEAL: SymAVM on the programs emitted under two option settings over one symbolic context, SMT obligation per path pair (verdict, return, effects, user-numbered slots, what each routine leaves on the stack); models replayed concretely",
        text="One recipe compiled under a base setting and under each other (version, scratch_slots, frame_pointers) setting; z3 shows for ALL inputs within the loop/recursion bounds that both emitted programs give the same verdict, return value, ordered effects and final contents of user-numbered scratch slots, and - for pairs differing only in the scratch-slot optimisation - that every routine leaves the same net number of values (and the same top value) when control leaves it. Programs: exhaustive store/load placement family for the optimiser (2 variables, adjacent and non-adjacent loads, main/subroutine/loop/split across a branch, user-numbered, dynamic, MaybeValue temporaries), routine families, control skeletons.",
        note="Trusted: TEAL op semantics (verif/avm), z3. Bounds: loop K, recursion D, byte lengths; program families enumerated to a stated size. The stack clause is checked as net height + top value per routine exit (spilled slots of outer frames legitimately differ between settings)."),
    "C04": dict(
        category="other", design_ref="DESIGN.md 3/C04",
        technique="independent TEAL front-end (langspec table) on every emitted text + structural CFG conditions on all syntactic paths + solver-pruned symbolic path exploration (SymAVM/z3) for termination failures + CrossHair (z3 symbolic execution of the real leaf constructors) for integer immediates",
        text="Claimed in part. (1) Every text PyTeal emits for the legality probes (each public operator/field/construct compiled at EVERY version 2..10 in BOTH modes) and for all program families must be accepted by an independent front-end at its #pragma version and mode (known opcode and field at that version/mode, immediates in range, backward branches only from v4, labels defined once, no placeholder, pragma first); this is a table verdict, not SMT. (2) No syntactic path falls through into a routine or runs off the end (CFG analysis) and no feasible path does (SymAVM with z3 feasibility). (3) CrossHair searches the real constructors for a user-supplied int that yields an immediate outside its encoding; refutations are replayed on the real code, non-confirmations are reported as inconclusive (PyTeal formats its error messages with the offending int, which makes CrossHair realise the value, so it cannot confirm).",
        note="Trusted: verif/teal/langspec.py (validated on the repository's golden TEAL files). Not covered: fields that the AVM refuses per mode only at evaluation time; opcode-level legality is a lookup, not a solver verdict."),
    "C05": dict(
        category="model_checking", design_ref="DESIGN.md 3/C05",
        technique="SMT constraint systems over the CFG of the emitted TEAL (z3 LIA for stack heights and subroutine arities on ALL syntactic paths, loops unbounded; z3 Booleans for stack-cell and slot types) + bounded symbolic execution (SymAVM) for feasible discipline failures, replayed concretely",
        text="For every emitted program: (1) z3 finds one consistent assignment of a stack height to every instruction and of (arguments, results) to every subroutine that satisfies every CFG edge, every instruction's read depth and every routine exit - i.e. the same height on all paths, no pop below what the routine owns, exactly the declared results at retsub; UNSAT yields the instructions in the core. (2) with those heights, z3 finds a consistent uint64/bytes typing of every stack cell and scratch slot at every instruction against the independent op and field type table; UNSAT = an opcode applied to a definitely wrong type or a join with different types. (3) SymAVM explores all feasible paths within the loop/recursion bounds; any feasible underflow/type/frame failure is a violation with a concrete input. A probe family checks PyTeal's declared TealType of every transaction/global field against the table.",
        note="Trusted: the langspec table of stack signatures and field types (verif/teal/langspec.py), the CFG construction, z3. The static part is complete for syntactic paths (no loop bound); the dynamic part is bounded (K, D, byte lengths). Programs are the enumerated families; declared arities come from the recipe."),
    "C06": dict(
        category="model_checking", design_ref="DESIGN.md 3/C06",
        technique="bounded symbolic execution of the emitted value-assembly program (SymAVM, byte strings with concrete lengths over z3 bit-vectors) against an ARC-4 encoding model; one SMT equality obligation per path; models replayed concretely with algosdk.abi as reference codec",
        text="For every type shape (leaves, static/dynamic arrays, tuples and named tuples; bool runs of 1,2,7,8,9,16,17; split bool runs; dynamic members in every position; nesting to depth 2, random to depth 3 in the thorough tier) and every length vector of its dynamic parts, a program assembles the value from its parts with set(...) - leaves set from a symbolic application argument - and logs encode(); z3 proves the logged bytes equal the ARC-4 model's encoding for ALL leaf values and that an integer expression that does not fit its width makes the program fail, for both storage back-ends (main routine/scratch, subroutine/frame at v8+) at versions 5..10. Python-literal leaves (min/max, long strings, one out-of-range integer that must be rejected when built) are checked concretely; signature string, dynamic-ness and static length are compared with algosdk for every shape.",
        note="Trusted: verif/arc4/model.py (cross-validated against algosdk.abi on random values by the selftest and at every replay), TEAL op semantics, z3. Bounds: the enumerated shapes; dynamic lengths <= 2 (quick) / <= 4 (thorough); values of at most ~60/90 leaves."),
    "C07": dict(
        category="model_checking", design_ref="DESIGN.md 3/C07",
        technique="bounded symbolic execution of the emitted decode/access program (SymAVM/z3) on the ARC-4 model's encoding of a symbolic value, run-time index as a free 64-bit variable; SMT obligation per path pair; models replayed concretely with algosdk.abi",
        text="Input = reference encoding of a symbolic value (offsets and length prefixes concrete, payload symbolic). Program = decode() followed by an access path - every tuple member / named field, arrays at constant in-range indices, at the first out-of-range index and at a run-time index taken from a second argument, one nested step - and an observation (encode(), get(), length()). z3 proves that the logged bytes equal the component's own reference encoding for every value and every in-range run-time index, and that EVERY out-of-range index (one symbolic path covering all 2^64 values) makes the program fail; versions 5..10, both storage back-ends.",
        note="Trusted: verif/arc4/model.py, TEAL op semantics, z3. Bounds: enumerated shapes, dynamic lengths <= 2/4, run-time indices into long encodings of dynamic elements are skipped above a stated size. Known findings: out-of-range indexing of bool arrays, arrays of dynamic elements and arrays of zero-size elements does not fail."),
    "C08": dict(
        category="model_checking", design_ref="DESIGN.md 3/C08",
        technique="bounded symbolic execution (SymAVM/z3) of the Router's emitted approval and clear-state programs against the dispatch table derived from the registration data; selector bytes, OnCompletion, ApplicationID and NumAppArgs symbolic; SMT obligation per (table row, program path); models replayed concretely",
        text="For every enumerated router configuration (one method x every MethodConfig in {NEVER,CALL,CREATE,ALL}^5 in the thorough tier; bare actions x CallConfig vectors x action kinds; bare-only routers; 2-3 methods; clear-state action absent / Expr / Subroutine / ABIReturnSubroutine; versions 6..10; assemble_constants and frame-pointer settings) z3 shows for ALL calls - every 4-byte selector value and other argument lengths, NumAppArgs 0..16, OnCompletion 0..5 except ClearState, ApplicationID zero/non-zero - that handler H's tag is logged and the call approved exactly when the registration allows it and that every other call is rejected (fails or returns 0), and that the clear-state program runs exactly the given action or rejects. The contract must list exactly the registered methods. Selectors are computed here with SHA-512/256.",
        note="Trusted: the dispatch-table reading of the registration data (verif/router.py), TEAL op semantics, z3, the ledger assumption that an approval program never runs with OnCompletion=ClearState. Bounds: <= 3 methods per router; enumerated configurations."),
    "C09": dict(
        category="model_checking", design_ref="DESIGN.md 3/C09",
        technique="bounded symbolic execution (SymAVM/z3) of the Router's approval program on a call built by an ARC-4 calling-convention model with symbolic argument values and symbolic types of the preceding group transactions; SMT obligation per path pair on the ordered logs; models replayed concretely with algosdk.abi",
        text="For every enumerated method signature - 0..20 plain parameters around the 15-argument cut-off with static/dynamic 14th, 15th and last parameters, every leaf and several composite types as a parameter, transaction parameters of every kind in every position (1..3), signatures with more than 15 parameters but at most 15 application arguments, reference parameters, void / echoed / constant results of several types, overridden method names; versions 6..10, both glue flavours - z3 shows for ALL argument values that the handler receives exactly the encoded values (its logs of encode() per parameter, group index and type per transaction parameter, foreign index per reference), that a wrong transaction type fails, and that a non-void result is logged exactly once as 0x151f7c75 + its reference encoding before approval. The returned contract must describe exactly the registered signature, and the program must dispatch on that signature's SHA-512/256 selector.",
        note="Trusted: the ARC-4 calling-convention model (verif/methodcall.py + verif/arc4/model.py, replay through algosdk.abi), TEAL op semantics, z3. Bounds: enumerated signatures; dynamic lengths from the listed vectors; one method per router."),
    "C10": dict(
        category="model_checking", design_ref="DESIGN.md 3/C10",
        technique="translation validation of marker programs: SymAVM(emitted TEAL) vs the recipe semantics with one cell per variable, markers derived from a symbolic input, z3/term identity per path; models replayed concretely",
        text="n variables (n around every limit: 1,2,3,10,127,128,200,254,255,256,257,300), automatically numbered, explicitly numbered (ids 0,1,5,128,254,255, dense, colliding, below the number of automatic ones), dynamically indexed, placed in main / split over main and a subroutine / shared, under scratch-slot optimisation and frame-pointer settings, are each stored a distinct marker (input xor k) and read back: for ALL inputs every load returns its own variable's marker, index() equals the requested id and a DynamicScratchVar reaches the variable it points to. Programs needing more than 256 slots or requesting one id for two variables must be rejected. n ABI values as locals of one subroutine (1..200, around 127/128) are checked the same way under both frame-pointer settings.",
        note="Trusted: recipe semantics (one cell per variable), TEAL op semantics, z3. Bounds: the enumerated counts/ids/placements; markers are input xor constant (distinct for every input)."),
    "C12": dict(
        category="translation_validation", design_ref="DESIGN.md 3/C12",
        technique="translation validation, TEAL vs TEAL: SymAVM on the pseudo-op program and the assembled-constants program over one symbolic context (template constants symbolic); SMT obligation per path pair incl. the value pushed at every constant-load site in execution order; models replayed concretely",
        text="Each recipe is compiled with assembleConstants off and on (versions 3..10). z3 shows for ALL inputs and template values that, on every path, the k-th constant-load instruction pushes the same value in both programs (int/byte/addr/method pseudo-ops decoded by the independent front-end vs pushint/pushbytes/intc*/bytec* resolved through the emitted intcblock/bytecblock) and that verdict, return value and effects agree. Constant-block indices that do not fit the one-byte immediate are reported. Programs: constant multisets by frequency pattern x magnitude class x byte-literal spelling (utf-8 with escapes, hex, base32 with/without padding, base64, Addr, MethodSignature, enums, Tmpl.Int/Bytes/Addr), equal values under different spellings, the pushint-vs-block boundary, 255/256/257 distinct repeated constants, control skeletons.",
        note="Trusted: my literal decoders in verif/teal/parse.py (the pseudo-op side), TEAL op semantics, z3. Bounds: the enumerated multisets; loops K."),
    "C14": dict(
        category="model_checking", design_ref="DESIGN.md 3/C14",
        technique="bounded symbolic execution (SymAVM/z3) of programs that execute InnerTxnBuilder.ExecuteMethodCall with arguments derived from symbolic outer arguments; the recorded inner group is compared by z3 with the group prescribed by an ARC-4 client model; models replayed concretely with algosdk.abi",
        text="For every enumerated inner call - 0..17 arguments around the 15-argument cut-off; plain arguments as ABI values of several types built with set(...) or as already-encoded byte expressions; reference arguments (one, several of one kind, all kinds mixed with plain ones); transaction arguments of every kind and position; with and without extra fields; versions 6..10 - z3 shows for ALL argument values that the submitted inner group is the one an ARC-4 client builds: transaction arguments as the preceding members in order, ApplicationArgs[0] the SHA-512/256 selector of the stated signature, plain arguments encoded in order, reference arguments appended to Accounts/Applications/Assets in order and passed as the prescribed one-byte index. Ill-typed arguments (wrong width, longer/shorter tuples, static vs dynamic arrays, wrong transaction type) must be rejected when the expression is built.",
        note="Trusted: the ARC-4 client model (verif/innercall.py), TEAL op semantics, z3. Bounds: enumerated calls; dynamic lengths 2. Known finding: no tuple packing beyond 15 arguments."),
    "C16": dict(
        category="other", design_ref="DESIGN.md 3/C16",
        technique="SMT (z3 nonlinear integer arithmetic) Hoare contracts over segments of the emitted WideRatio TEAL at full 64-bit width + whole-program bit-vector equivalence at narrow word widths; models replayed on the emitted code",
        text="For every (|N|,|D|) in 1..6 x 1..6 the emitted op stream is cut at the factor pushes and z3 (NIA, full 64-bit width, all factor values, arbitrary stack below) proves each segment's contract: first segment establishes hi*2^64+lo = a*b, each step segment fails iff the running product reaches 2^128 and otherwise extends it exactly, the final segment fails iff the denominator is 0 or the quotient needs more than 64 bits and otherwise leaves floor(N/D). Chaining over the number of factors is an ordinary induction that is written out, not mechanised. Whole emitted programs are additionally proved equivalent to the specification over bit-vectors at narrow word widths.",
        note="Trusted: z3 NIA; TEAL semantics of the dozen ops involved (verif/checks/c16.py); the induction over segments. Factors are template constants; factor sub-expressions are C01's business."),
    "C17": dict(
        category="model_checking", design_ref="DESIGN.md 3/C17",
        technique="z3 path query per load over the recipe's own control-flow graph (exists a syntactic path from the routine entry to the load with no store of the variable, path length bound = number of nodes, complete) compared with the compiler's verdict and the load it names; SymAVM with uninitialised-slot tracking on accepted programs",
        text="For every enumerated placement of stores and loads of routine-local variables (automatically and explicitly numbered) in branches, Cond arms, zero-iteration loops, Break/Continue exits and early returns, in main and in subroutines: if z3 finds a syntactic path to a load along which the variable is never stored, the compiler must reject, and the load named by its error must be one with such a path (also accepting loads in code after Return/Break/Continue, which the compiler treats as reachable). For accepted programs SymAVM shows that no feasible path of the emitted TEAL reads a slot that was never written (within the loop bound); counterexamples are replayed concretely.",
        note="Trusted: the recipe CFG construction (verif/recipe/rcfg.py), z3. The syntactic-path side is complete for each enumerated program; the run-time side is bounded (K=2). Variables passed by reference or reached through DynamicScratchVar are excluded; rejections without an unwritten path are allowed (the compiler may be conservative) and only counted."),
    "C18": dict(
        category="translation_validation", design_ref="DESIGN.md 3/C18",
        technique="translation validation, TEAL vs TEAL (SymAVM/z3 equivalence of the program with and without each annotation + instruction-stream comparison by the independent front-end) and z3 string/regex obligations over kernels translated from the current source (CommentExpr guard, TealLabel.assemble, label construction)",
        text="(a) For base programs (control skeletons, routine programs) and each insertion of one annotation - Comment at every top-level statement or around the whole program, Assert comment, Pragma with a satisfied constraint, Nonce, subroutine names (also all routines sharing one name) - with adversarial texts plus texts taken from solver models, z3 shows behavioural equivalence for all inputs and the front-end shows the instruction streams are identical up to comment lines, label spellings and the Nonce push-and-pop. (b) With the text as a z3 string (length <= 8/12, any characters): a text accepted by CommentExpr's guard contributes exactly one comment line; everything TealLabel.assemble writes in front of a label is comment or blank lines whatever the subroutine name; labels of distinct routines are distinct and are label tokens. The kernels are re-translated from /repo's source on every run; unknown syntax is a harness error.",
        note="Trusted: the line grammar model (comment = optional blanks, //, no line feed), the abstraction of str.splitlines (pieces contain no line break), z3 sequences/regex. Bounds: text length; the enumerated base programs and insertion points."),
    "C19": dict(
        category="model_checking", design_ref="DESIGN.md 3/C19",
        technique="exhaustive enumeration of ordered type pairs over a bounded universe; per accepted pair an SMT query (z3 bit-vectors) for a value whose ARC-4 encodings at the two types differ; models replayed with algosdk.abi",
        text="For every ordered pair (A,B) of the universe (leaves, byte/uint8, address/byte[32]/StaticBytes, string/byte[]/uint8[], static vs dynamic arrays of static and dynamic elements, tuples of different arities, named vs plain tuples, nested combinations, reference and transaction types) and each site at which PyTeal decides whether an A may be used as a B - type_spec_is_assignable_to, an ABI-typed subroutine parameter, B.set(value of A) - acceptance creates the obligation that no value of A (all leaf values, listed dynamic lengths) encodes differently at B when read by position; z3 decides it, structural mismatches (different arity, length prefix) are immediate counterexamples; every counterexample is replayed with algosdk (encode at A, decode at B, compare).",
        note="Trusted: verif/arc4/model.py (validated against algosdk), z3. The pair space is enumerated exhaustively for the stated universe; dynamic lengths take the listed vectors. The converse (equal encoding => assignable) is not demanded."),
}

NOT_APPLICABLE = {
}

def main():
    checks = []
    for pid, c in CHECKS.items():
        checks.append({
            "property_id": pid,
            "quick_cmd": "./check %s --tier quick" % pid,
            "thorough_cmd": "./check %s --tier thorough" % pid,
            "evidence_file": "/verif/evidence/%s.json" % pid,
            "replay_cmd_template": "./check %s --replay {path}" % pid,
            "engine": "symavm-z3",
            "level_claimed": {"category": c["category"], "text": c["text"], "design_ref": c["design_ref"]},
            "level_note": c["note"],
            "technique": c["technique"],
        })
    na = []
    for p in props:
        if p["id"] in CHECKS:
            continue
        na.append({"property_id": p["id"], "reason": NOT_APPLICABLE.get(p["id"], "check not built yet (framework under construction); see DESIGN.md")})
    m = {
        "version": 1,
        "setup_cmd": "sh /verif/env.sh",
        "hooks": {"guard": "ALGORAND_PYTEAL_VERIF", "enable": "no hooks in /repo are needed; checks import pyteal from /repo's working tree through the public API",
                  "baseline_off_cmd": "cd /repo && /venv/bin/python -m pytest -ra -q -p no:cacheprovider --timeout=900 --continue-on-collection-errors",
                  "source_commits": [], "add_only": True},
        "engines": [{"name": "symavm-z3", "path": "/verif/verif", "serves_properties": sorted(CHECKS),
                     "kind_free_text": "path-based symbolic interpreter for emitted TEAL over z3 bit-vectors + reference evaluators; small Python-AST -> SMT translators; CrossHair for leaf constructors"}],
        "checks": checks,
        "not_applicable": na,
        "notes": "exit codes: 0 held, 1 VIOLATION (reproduced counterexample), 2 harness error / inconclusive over budget",
    }
    json.dump(m, open(os.path.join(HERE, "MANIFEST.json"), "w"), indent=1)

if __name__ == "__main__":
    main()
