#!/bin/sh
# usage: tools/baseline.sh [tree]   -- runs the pinned test suite in <tree> (default /repo) and
# reports how many of BASELINE.json's stable_pass tests did not pass. exit 0 iff none missing.
TREE="${1:-/repo}"
OUT="$(mktemp /tmp/baseline.XXXXXX.xml)"
cd "$TREE" || exit 2
PYTHONPATH="$TREE" /venv/bin/python -m pytest -q -p no:cacheprovider --timeout=900 --continue-on-collection-errors -n 8 --junitxml="$OUT" >/dev/null 2>&1
/venv/bin/python - "$OUT" <<'EOF'
import json, sys
import xml.etree.ElementTree as ET
base = set(json.load(open('/root/.vp/BASELINE.json'))['stable_pass'])
passed = set()
for tc in ET.parse(sys.argv[1]).getroot().iter('testcase'):
    bad = any(ch.tag in ('failure', 'error', 'skipped') for ch in tc)
    if not bad:
        passed.add('%s::%s' % (tc.get('classname'), tc.get('name')))
missing = sorted(base - passed)
print('stable_pass=%d passed_now=%d missing=%d' % (len(base), len(passed & base), len(missing)))
for m in missing[:15]:
    print('  MISSING', m)
sys.exit(1 if missing else 0)
EOF
RC=$?
rm -f "$OUT"
exit $RC
