#!/usr/bin/env python3
"""Adds the one-line description of every round-4 seeded change to its meta.json (fields `change`,
`what_it_needs_to_manifest`) and prints the DESIGN.md table rows (first run and, where a check was extended,
the re-run).  Only changes that were confirmed (demonstration passes without / fails with the change, the pinned
suite still passes) are listed; run after tools/seed_process.sh / tools/seed_recheck.sh."""
import json
import os
import sys

HERE = os.path.dirname(os.path.dirname(os.path.abspath(__file__)))

ROWS = {
    "C01r4-mutA": ("pyteal/ast/naryexpr.py NaryExpr.__teal__ splices a nested Add / Mul with the same operator into the parent's chain",
                   "a right-nested Mul(x, Mul(y, z)) with x = 0 and y*z >= 2^64: the source fails on the inner overflow, the code computes (0*y)*z"),
    "C01r4-mutB": ("pyteal/ast/for_.py For.__teal__: the structural edges are wired after the Break / Continue edges",
                   "a For body whose LAST statement is a bare Break(): the Break behaves like a Continue"),
    "C02r4-mutA": ("pyteal/ast/for_.py For.has_return forwards the body's answer",
                   "a routine whose last statement is a For whose body always returns, and a call on which the loop runs zero times: no retsub, falls into the next routine"),
    "C02r4-mutB": ("pyteal/compiler/compiler.py compileSubroutine looks up the output declaration by `version >= 8` instead of the frame-pointer option",
                   "version >= 8 with frame_pointers=False and an ABIReturnSubroutine with an output: nothing is loaded before retsub"),
    "C03r4-mutA": ("pyteal/ast/subroutine.py SubroutineEval.var_n_loaded_fp: frame index of an ABI parameter counted among the ABI parameters only",
                   "frame pointers on, an ABI parameter followed by an Expr / ScratchVar parameter, different argument values"),
    "C03r4-mutB": ("pyteal/compiler/compiler.py verifyOpsForVersion: `break` instead of `continue` at the first non-opcode component",
                   "version 4 exactly and a v5-only opcode (loads / stores of a by-reference parameter) after the first label"),
    "C04r4-mutA": ("pyteal/ast/txn.py MAX_STATIC_ARRAY_INDEX = 256",
                   "a constant array index of exactly 256 on a transaction array field: `txna ApplicationArgs 256`"),
    "C04r4-mutB": ("same For.has_return change as C02r4-mutA",
                   "a none-typed routine ending in a For whose body ends in Return(): the loop-exit label is followed by the next routine"),
    "C05r4-mutA": ("pyteal/ast/acct.py AccountParamField.auth_addr typed uint64",
                   "AccountParam.authAddr(..).value() used where a uint64 is expected (version >= 6)"),
    "C05r4-mutB": ("pyteal/ast/for_.py For.__init__: only the step is required to be none-typed",
                   "a For whose initialiser yields a value: the value stays on the stack"),
    "C06r4-mutA": ("pyteal/ast/abi/bool.py Bool.set: any uint64 BinaryExpr is stored without the !! coercion",
                   "a bool set from an arithmetic / bitwise BinaryExpr (-, /, %, &, |, ^, shifts) whose value is 2 or more: setbit fails"),
    "C07r4-mutA": ("pyteal/ast/abi/array_base.py ArrayElement.store_into: fast path for Byte elements skips 16 (bits) instead of 2 (bytes) of length prefix",
                   "an element of byte[] / a dynamic array of abi.Byte"),
    "C07r4-mutB": ("pyteal/ast/abi/array_dynamic.py DynamicArray.length: Len(encoded) - 2 whenever the stride is 1",
                   "bool[].length() with two or more elements (bools are packed eight to a byte)"),
    "C08r4-mutA": ("pyteal/ast/router.py MethodConfig.approval_cond: no OnCompletion check when every ENABLED entry is ALL",
                   "a method with fewer than five entries, all of them CallConfig.ALL, called with an OnCompletion left at NEVER"),
    "C08r4-mutB": ("pyteal/ast/router.py CondWithMethod.to_cond_node: the unconditional case asserts Txn.application_id()",
                   "a method with ALL for all five OnCompletions called in the creating transaction"),
    "C09r4-mutA": ("pyteal/ast/router.py frame-pointer glue: frame slots reserved only when there is a plain argument or an output",
                   "v8+, a void method all of whose parameters are transactions: frame_bury into an empty frame"),
    "C09r4-mutB": ("pyteal/ast/subroutine.py ABIReturnSubroutine.method_spec: `name in (\"return\")` is a substring test",
                   "a routed method with a parameter named n / t / r / e / u / ret / turn: the contract omits it, the program dispatches on the full signature"),
    "C10r4-mutA": ("pyteal/ast/scratchvar.py ScratchVar.index() returns Int(slot id) for an explicitly numbered variable",
                   "an explicitly numbered variable reached only through DynamicScratchVar / by reference, with a low id or a duplicate id"),
    "C12r4-mutA": ("pyteal/compiler/constants.py extractIntValue: value % (2^64 - 1)",
                   "assembleConstants=True and the constant 2^64 - 1 exactly"),
    "C12r4-mutB": ("pyteal/compiler/constants.py extractAddrValue: template test startswith('TMPL') without the underscore",
                   "assembleConstants=True and an address whose text begins with the letters TMPL"),
    "C13r4-mutA": ("pyteal/types.py valid_base16: `^...$` with match instead of fullmatch",
                   "a base16 text with an odd number of digits followed by exactly one line feed"),
    "C13r4-mutB": ("pyteal/ir/tealop.py TealOp.assemble collapses runs of two or more spaces in the rendered line",
                   "a Bytes(str) literal containing two consecutive spaces, assembleConstants=False"),
    "C14r4-mutA": ("pyteal/ast/itxn.py MethodCall: operands of type_spec_is_assignable_to swapped",
                   "the directional pairs: abi.String for byte[] (now rejected), abi.DynamicBytes for string (now accepted)"),
    "C14r4-mutB": ("pyteal/ast/itxn.py SetField: an array element that is the same expression OBJECT as an earlier one is skipped",
                   "two reference arguments of one kind given as the same Python object"),
    "C16r4-mutA": ("pyteal/compiler/constants.py extractIntValue masks with 0x7FFF...F",
                   "assembleConstants=True and a literal factor with bit 63 set"),
    "C16r4-mutB": ("pyteal/ir/tealop.py TealOp.assemble prints integers >= 2^32 as hex words without zero-padding the low word",
                   "a literal factor >= 2^32 whose low 32 bits are below 0x10000000 (2^32 + 1 prints as 0x11)"),
    "C17r4-mutA": ("pyteal/ast/for_.py For.__teal__: Continue wired to doEnd.nextBlock",
                   "a For whose body ends in a bare Break(), with an earlier Continue and a step that loads a variable stored only after the Continue"),
    "C17r4-mutB": ("same For.has_return change as C02r4-mutA",
                   "an ABIReturnSubroutine ending in a For whose body always returns, output set only inside the loop, scratch calling convention"),
    "C18r4-mutA": ("pyteal/ast/pragma.py Pragma.__teal__ compiles its child under a copy of the options without currentSubroutine",
                   "a satisfied Pragma inside a subroutine body around an explicit Return: `return` instead of `retsub`"),
    "C18r4-mutB": ("pyteal/ir/tealop.py TealOp.resolveSubroutine matches callees by NAME",
                   "two different subroutines with the same name in one program"),
    "C19r4-mutA": ("pyteal/ast/abi/array_dynamic.py DynamicArrayTypeSpec.__eq__ compares the element specs by class",
                   "nested dynamic arrays whose elements are static arrays / tuples with different parameters (uint8[3][] for uint8[2][])"),
    "C19r4-mutB": ("pyteal/ast/abi/array_base.py ArrayElement.store_into: the type guard moved below the bool fast path",
                   "arr[i].store_into(abi.Bool) for an array whose elements are not bools"),
}


def main():
    rows = []
    for sid in sorted(ROWS):
        mp = os.path.join(HERE, "seeded", sid, "meta.json")
        if not os.path.exists(mp):
            continue
        m = json.load(open(mp))
        conf = m.get("confirmed", {})
        ok = conf.get("demo_exit_without_change") == 0 and conf.get("demo_exit_with_change") not in (0, None) and "missing=0" in conf.get("baseline_with_change", "")
        m["change"], m["what_it_needs_to_manifest"] = ROWS[sid]
        m["confirmed_all"] = bool(ok)
        json.dump(m, open(mp, "w"), indent=1)
        first = ["%s%s" % (c["check"], "" if c["exit"] == 1 else (" (missed)" if c["exit"] == 0 else " (exit %d)" % c["exit"])) for c in m.get("checks_run", [])]
        re_ = ["%s%s" % (c["check"], "" if c["exit"] == 1 else (" (missed)" if c["exit"] == 0 else " (exit %d)" % c["exit"])) for c in m.get("rechecks", [])]
        rows.append("| %s | %s | %s | %s | %s |%s" % (sid, ROWS[sid][0], ROWS[sid][1], ", ".join(first), ", ".join(re_) or "-", "" if ok else " NOT CONFIRMED"))
    print("\n".join(rows))


if __name__ == "__main__":
    sys.exit(main())
