#!/bin/sh
# usage: tools/seed_verify.sh <dir with patch.diff + demo.py>
# Confirms in a scratch worktree (outside /repo and /verif) that the patch applies, the pinned test
# suite still passes with it, and the demonstration passes without / fails with the change.
D="$(cd "$1" && pwd)"
WT="/tmp/sv-$$"
git -C /repo worktree add -q --detach "$WT" HEAD || exit 2
cd "$WT"
PYTHONPATH="$WT" /venv/bin/python "$D/demo.py" >/tmp/sv-demo0.$$ 2>&1; R0=$?
git apply "$D/patch.diff" || { echo "PATCH-DOES-NOT-APPLY"; cd /; git -C /repo worktree remove --force "$WT"; exit 3; }
PYTHONPATH="$WT" /venv/bin/python "$D/demo.py" >/tmp/sv-demo1.$$ 2>&1; R1=$?
B="$(sh /verif/tools/baseline.sh "$WT" | head -1)"
cd /
git -C /repo worktree remove --force "$WT"
rm -f /tmp/sv-demo0.$$ /tmp/sv-demo1.$$
echo "demo_pristine_exit=$R0 demo_patched_exit=$R1 baseline: $B"
[ "$R0" = 0 ] && [ "$R1" != 0 ] && echo "$B" | grep -q "missing=0" && { echo CONFIRMED; exit 0; }
echo NOT-CONFIRMED; exit 1
