#!/usr/bin/env python3
"""Adds the one-line description of every round-2 seeded change to its meta.json (fields `change`,
`what_it_needs_to_manifest`) and prints the DESIGN.md table rows.  Run once after tools/seed_process.sh."""
import json
import os
import sys

HERE = os.path.dirname(os.path.dirname(os.path.abspath(__file__)))

ROWS = {
    "C01r2-mutA": ("pyteal/compiler/flatten.py flattenBlocks: `bz` instead of `bnz` in the case where neither successor is adjacent",
                   "a conditional block neither of whose successors is laid out next: If(c, Break, Continue) ending a loop body that is not the last statement"),
    "C01r2-mutB": ("pyteal/compiler/scratchslots.py: the allocation cursor skips at most one occupied id per variable",
                   "two adjacent explicit slot ids (k, k+1) and at least k+1 automatic variables: an automatic variable gets k+1 too"),
    "C02r2-mutA": ("pyteal/ast/subroutine.py SubroutineEval.evaluate: frame index of a by-reference parameter uses len(implementation_params)",
                   "frame pointers (v8+), an ABIReturnSubroutine with an output and a ScratchVar parameter"),
    "C02r2-mutB": ("pyteal/compiler/subroutines.py spillLocalSlotsDuringRecursion: numArgs = len(implementation_params)",
                   "a recursive cycle through an ABIReturnSubroutine with an output, caller with scratch slots to spill (v5-7, frame pointers off, or explicit ScratchVars)"),
    "C03r2-mutA": ("pyteal/compiler/optimizer/optimizer.py _apply_slot_to_stack passes cur_block as the root of the dependency walk",
                   "slot optimisation on; a load of the variable in a block that is not reachable from the block holding the adjacent store/load pair"),
    "C03r2-mutB": ("pyteal/compiler/subroutines.py: the version-4 clean-up after a re-entrant call pops one value per spilled slot instead of per argument (callee returning nothing)",
                   "version 4 exactly, re-entrant call to a routine that returns nothing, number of the caller's local slots != number of arguments, recursion actually taken"),
    "C04r2-mutA": ("pyteal/compiler/scratchslots.py: the 'too many slots' guard counts automatic slots only",
                   "at least one explicit slot id and more than 256 slots in total with at most 256 automatic ones: `store 256` is emitted"),
    "C04r2-mutB": ("pyteal/compiler/flatten.py flattenBlocks: the reference count of the TRUE target is incremented before emitting `b <false>`",
                   "a While whose body ends in an If containing Break, followed by code that branches: `b l3` with no such label"),
    "C05r2-mutA": ("pyteal/compiler/scratchslots.py: `if` instead of `while` when skipping occupied slot ids",
                   "an explicit slot id r >= 1 not in a 0,1,2.. run, more than r automatic variables, differently typed colliding variables"),
    "C05r2-mutB": ("pyteal/ast/return_.py: the check 'a value-returning subroutine must return a value' dropped",
                   "a bare Return() (or a none-typed body) in a subroutine declared to return a value: accepted, `retsub` without the result"),
    "C06r2-mutA": ("pyteal/ast/abi/uint.py uint_set: a literal Int(v) with v <= 2**N skips the range guard (should be <)",
                   "an integer leaf set from the literal expression Int(2**16) / Int(2**32) exactly"),
    "C06r2-mutB": ("pyteal/ast/abstractvar.py alloc_abstract_var: the 128-frame-locals budget does not count the ABI output",
                   "v8+, a value with >= 128 parts assembled inside an ABIReturnSubroutine that has an output: `frame_bury 128`"),
    "C07r2-mutA": ("pyteal/ast/substring.py ExtractExpr: immediate form chosen for length <= 256 (should be < 256)",
                   "a static aggregate member of exactly 256 bytes at a constant offset < 256: `extract s 256`"),
    "C07r2-mutB": ("pyteal/ast/abi/tuple.py _index_tuple: last static element read as 'rest of the string' when its neighbour is static",
                   "a tuple with a dynamic member whose last two members are static"),
    "C08r2-mutA": ("pyteal/ast/router.py Router.method: an omitted no_op keeps CallConfig.CALL when another OnCompletion keyword is given",
                   "registration through the decorator with e.g. opt_in=CALL only; a NoOp non-create call"),
    "C08r2-mutB": ("pyteal/compiler/constants.py intEnumValues: DeleteApplication = 4",
                   "assemble_constants=True and a router with anything registered for DeleteApplication"),
    "C09r2-mutA": ("pyteal/compiler/constants.py intEnumValues: axfer and afrz swapped",
                   "assemble_constants=True and a routed method with an axfer / afrz transaction parameter"),
    "C09r2-mutB": ("pyteal/ast/abi/reference_type.py byte_length_static returns bit_size() (8)",
                   "more than 15 non-transaction parameters with a reference parameter among the packed ones, followed by another packed parameter"),
    "C10r2-mutA": ("same allocation-cursor change as C01r2-mutB",
                   "adjacent explicit ids r, r+1 and more than r automatic variables"),
    "C10r2-mutB": ("pyteal/ast/subroutine.py SubroutineCall handle_arg: arg.slot.index() instead of arg.index()",
                   "a ScratchVar passed by reference through two routine levels"),
    "C12r2-mutA": ("pyteal/compiler/constants.py intEnumValues: axfer and afrz swapped",
                   "assembleConstants=True and TxnType.AssetTransfer / AssetFreeze"),
    "C12r2-mutB": ("pyteal/ir/ops.py: Op.bytec_3 spelled `bytec_2`",
                   "assembleConstants=True and at least four repeated byte constants"),
    "C13r2-mutA": ("pyteal/util.py unescapeStr drops the final latin-1 / utf-8 round trip",
                   "assembleConstants=True and Bytes(str) with a code point >= U+0080"),
    "C13r2-mutB": ("pyteal/ast/bytes.py: base16 text handled with replace('0x', '') instead of stripping one leading prefix",
                   "a malformed base16 text with 0x somewhere else than as the single prefix (ab0xcd, 0x0xabcd)"),
    "C14r2-mutA": ("pyteal/ast/itxn.py MethodCall: application argument index = apps.index(arg) + 1 (Expr.__eq__ is truthy)",
                   "two or more application reference arguments"),
    "C14r2-mutB": ("pyteal/compiler/constants.py intEnumValues: axfer and afrz swapped",
                   "assembleConstants=True and an inner method call with an axfer / afrz transaction argument"),
    "C15r2-mutA": ("pyteal/compiler/sourcemap.py R3SourceMap.to_json: sources / names sorted alphabetically",
                   "a program spanning two source files whose first-use order is not alphabetical"),
    "C15r2-mutB": ("pyteal/compiler/sourcemap.py _base64vlq_encode: loop bound `> 32` instead of `> 31`",
                   "a delta whose sign-shifted value is exactly 32 at some digit (+16, +-512..527, ...)"),
    "C16r2-mutA": ("pyteal/ast/widemath.py WideRatio.__init__ moves literal factors in front of run-time factors",
                   ">= 4 numerator factors, a run-time factor that is 0 written before literals whose own product exceeds 128 bits"),
    "C16r2-mutB": ("pyteal/compiler/optimizer/optimizer.py _has_load_dependencies walks from cur_block",
                   "slot optimisation on (v9+), a variable loaded in an If arm, then stored and loaded again as the only factor of a WideRatio side"),
    "C17r2-mutA": ("pyteal/ir/tealblock.py validateSlots: a branching block shares its 'slots in use' set with its parent",
                   "a store inside the CONDITION of an If/While that starts the then-arm of an enclosing If, and a load after the outer If"),
    "C17r2-mutB": ("pyteal/compiler/scratchslots.py collectScratchSlots: slots whose index is taken count as global",
                   "a variable passed by reference (or targeted by a DynamicScratchVar) only conditionally and then loaded directly"),
    "C18r2-mutA": ("pyteal/compiler/optimizer/optimizer.py _has_load_dependencies skips the paired load by position in every block",
                   "slot optimisation on; a store/load pair at index p of one block and the only other load of the variable at index p of another block once a comment / nonce shifted it"),
    "C18r2-mutB": ("pyteal/compiler/flatten.py flattenBlocks: `bz` instead of `bnz` when neither successor is adjacent",
                   "If(c).Then(Break()) ending a While body that is followed by branching code: wrong without the annotation, right with Comment(.., Break())"),
    "C19r2-mutA": ("pyteal/ast/abi/string.py String.set accepts any dynamic array whose _stride() is 1",
                   "String().set(value of bool[]) with two or more elements"),
    "C19r2-mutB": ("pyteal/ast/abi/type.py ReturnedValue.store_into compares storage types only",
                   "fn().store_into(out) where fn returns another ABI type of the same storage class (uint64 into uint16; a tuple into a static array)"),
}


def main():
    rows = []
    for sid in sorted(ROWS):
        d = os.path.join(HERE, "seeded", sid)
        mp = os.path.join(d, "meta.json")
        if ROWS[sid] is None or not os.path.exists(mp):
            continue
        m = json.load(open(mp))
        m["change"], m["what_it_needs_to_manifest"] = ROWS[sid]
        json.dump(m, open(mp, "w"), indent=1)
        det = [c["check"] for c in m["checks_run"] if c["exit"] == 1]
        miss = [c["check"] + " (missed)" for c in m["checks_run"] if c["exit"] == 0]
        bad = [c["check"] + " (exit %d)" % c["exit"] for c in m["checks_run"] if c["exit"] not in (0, 1)]
        rows.append("| %s | %s | %s | %s |" % (sid, ROWS[sid][0], ROWS[sid][1], ", ".join(det + miss + bad)))
    print("\n".join(rows))


if __name__ == "__main__":
    sys.exit(main())
