#!/bin/sh
# usage: tools/run_all.sh [quick|thorough] [ids...]   -- runs the registered checks one after the other, prints exit code and wall time
TIER="${1:-quick}"; shift
IDS="$*"
[ -z "$IDS" ] && IDS="C01 C02 C03 C04 C05 C06 C07 C08 C09 C10 C12 C13 C14 C15 C16 C17 C18 C19"
cd /verif
for C in $IDS; do
  T0=$(date +%s)
  ./check "$C" --tier "$TIER" > "/tmp/runall-$C.out" 2>&1; RC=$?
  T1=$(date +%s)
  echo "$C tier=$TIER exit=$RC wall=$((T1-T0))s known=$(grep -c '^KNOWN-FINDING' /tmp/runall-$C.out) violations=$(grep -c '^VIOLATION' /tmp/runall-$C.out) $(grep -E '^(OK|HARNESS-ERROR)' /tmp/runall-$C.out | head -2 | cut -c1-160 | tr '\n' ' ')"
done
