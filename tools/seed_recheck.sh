#!/bin/sh
# usage: tools/seed_recheck.sh <seed id> <check> [<check>...]
# Re-runs checks against an already confirmed seeded change (scratch worktree with the patch applied, removed afterwards)
# and appends the outcome to /verif/seeded/<seed id>/meta.json under "rechecks".  /repo itself is never touched.
ID="$1"; shift
WT="/tmp/sr-$ID"; OUT="/verif/seeded/$ID"
rm -rf "$WT"; git -C /repo worktree prune
git -C /repo worktree add -q --detach "$WT" HEAD || exit 2
git -C "$WT" apply "$OUT/patch.diff" || { git -C /repo worktree remove --force "$WT"; exit 3; }
for C in "$@"; do
  EV="/tmp/sr-ev-$ID"; RP="/tmp/sr-rp-$ID-$C"; rm -rf "$RP"
  T0=$(date +%s)
  VERIF_PYTEAL_TREE="$WT" VERIF_EVIDENCE_DIR="$EV" VERIF_REPLAY_DIR="$RP" /verif/check "$C" --tier quick > "/tmp/sr-out-$ID-$C" 2>&1; RC=$?
  T1=$(date +%s)
  NV=$(grep -c "^VIOLATION" "/tmp/sr-out-$ID-$C"); NR=$(ls "$RP" 2>/dev/null | wc -l)
  /usr/bin/python3 - "$OUT/meta.json" "$C" "$RC" "$NV" "$NR" "$((T1-T0))" "$(git -C /verif rev-parse --short HEAD)" <<'PY'
import json, sys
p, c, rc, nv, nr, sec, head = sys.argv[1:]
m = json.load(open(p))
m.setdefault("rechecks", []).append({"check": c, "exit": int(rc), "violation_lines": int(nv), "replays": int(nr), "seconds": int(sec), "verif_commit": head})
json.dump(m, open(p, "w"), indent=1)
print(m["id"], m["rechecks"][-1])
PY
  rm -rf "$RP" "$EV" "/tmp/sr-out-$ID-$C"
done
git -C /repo worktree remove --force "$WT"
