#!/bin/sh
# Idempotent bootstrap of the overlay venv used by every check (offline).
# /venv (python 3.12 + pyteal's deps) is left untouched; /verif/.venv adds z3 and crosshair.
set -e
VERIF_DIR="$(cd "$(dirname "$0")" && pwd)"
VENV="$VERIF_DIR/.venv"
if [ ! -x "$VENV/bin/python" ] || ! "$VENV/bin/python" -c "import z3, crosshair" >/dev/null 2>&1; then
  rm -rf "$VENV"
  /venv/bin/python -m venv "$VENV"
  SP="$("$VENV/bin/python" -c 'import sysconfig; print(sysconfig.get_paths()["purelib"])')"
  printf '/venv/lib/python3.12/site-packages\n/repo\n' > "$SP/verif_overlay.pth"
  PIP_NO_INDEX=1 "$VENV/bin/python" -m pip install -q --no-index --find-links /opt/veriftools/wheels z3-solver crosshair-tool >/dev/null
fi
"$VENV/bin/python" -c "import z3, pyteal" 
